"""Harness functions for Period.between laws (sidecar; they only call real code)."""


def between_dates(start, end, units):
    from pyoda_time import Period

    p = Period.between(start, end, units)
    landing = start + p
    return (p.years, p.months, p.weeks, p.days, p.has_time_component, landing._days_since_epoch)


def years_between_maximal(start, end):
    from pyoda_time.fields._date_period_fields import _DatePeriodFields

    f = _DatePeriodFields._years_field
    n = f.units_between(start, end)
    here = f.add(start, n)
    return (n, here.year, here._days_since_epoch)


def between_times(start, end, units):
    from pyoda_time import Period

    p = Period.between(start, end, units)
    landing = start + p
    return (p.hours, p.minutes, p.seconds, p.milliseconds, p.ticks, p.nanoseconds, p.has_date_component, landing.nanosecond_of_day)


def between_year_months(start, end, units):
    from pyoda_time import Period

    p = Period.between(start, end, units)
    back = start.on_day_of_month(1) + p
    return (p.years, p.months, p.weeks, p.days, p.has_time_component, back._days_since_epoch)


def ldt_plus_period(ldt, period, carry_days):
    """What LocalDateTime.plus(period) must equal on the date side, spelled with the date operations themselves."""
    got = ldt.plus(period)
    want_date = ldt.date.plus_years(period.years).plus_months(period.months).plus_weeks(period.weeks).plus_days(period.days + carry_days)
    return (got.date._days_since_epoch, got.time_of_day.nanosecond_of_day, want_date._days_since_epoch)


def ldt_minus_period(ldt, period, carry_days):
    got = ldt.minus(period)
    want_date = ldt.date.plus_years(-period.years).plus_months(-period.months).plus_weeks(-period.weeks).plus_days(carry_days - period.days)
    return (got.date._days_since_epoch, got.time_of_day.nanosecond_of_day, want_date._days_since_epoch)


def between_date_times(start, end, units):
    from pyoda_time import Period

    p = Period.between(start, end, units)
    return (p.years, p.months, p.weeks, p.days, p.hours, p.minutes, p.seconds, p.milliseconds, p.ticks, p.nanoseconds)
