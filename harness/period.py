"""Harness functions for Period.between laws (sidecar; they only call real code)."""


def between_dates(start, end, units):
    from pyoda_time import Period

    p = Period.between(start, end, units)
    landing = start + p
    return (p.years, p.months, p.weeks, p.days, p.has_time_component, landing._days_since_epoch)


def years_between_maximal(start, end):
    from pyoda_time.fields._date_period_fields import _DatePeriodFields

    f = _DatePeriodFields._years_field
    n = f.units_between(start, end)
    here = f.add(start, n)
    return (n, here.year, here._days_since_epoch)


def between_times(start, end, units):
    from pyoda_time import Period

    p = Period.between(start, end, units)
    landing = start + p
    return (p.hours, p.minutes, p.seconds, p.milliseconds, p.ticks, p.nanoseconds, p.has_date_component, landing.nanosecond_of_day)


def between_year_months(start, end, units):
    from pyoda_time import Period

    p = Period.between(start, end, units)
    back = start.on_day_of_month(1) + p
    return (p.years, p.months, p.weeks, p.days, p.has_time_component, back._days_since_epoch)
