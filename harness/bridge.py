"""C15 round-trip lemmas: sidecar code (interpreted like repository code) composing the real bridge functions."""

from __future__ import annotations

from pyoda_time import Duration, Instant, LocalDate, LocalDateTime, LocalTime, Offset, OffsetDateTime


def rt_date(d):
    return LocalDate.from_date(d).to_date()


def rt_time(t):
    return LocalTime.from_time(t).to_time()


def rt_naive(dt):
    return LocalDateTime.from_naive_datetime(dt).to_naive_datetime()


def rt_aware(dt):
    return OffsetDateTime.from_aware_datetime(dt).to_aware_datetime()


def rt_instant(dt):
    return Instant.from_aware_datetime(dt).to_datetime_utc()


def rt_timedelta(td):
    return Duration.from_timedelta(td).to_timedelta()


def rt_offset(td):
    return Offset.from_timedelta(td).to_timedelta()


def back_date(ld):
    return LocalDate.from_date(ld.to_date())


def back_duration(d):
    return Duration.from_timedelta(d.to_timedelta())


def back_time(t):
    return LocalTime.from_time(t.to_time())


def back_offset(o):
    return Offset.from_timedelta(o.to_timedelta())
