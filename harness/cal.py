"""Harness functions (sidecar, interpreted like repository code): they only *call* the real methods so that one
contract can relate several of their results."""


def year_facts(calc, y):
    soy = calc._get_start_of_year_in_days(y)
    soy1 = calc._get_start_of_year_in_days(y + 1)
    diy = calc._get_days_in_year(y)
    return (soy, soy1, diy)


def month_facts(calc, y):
    miy = calc._get_months_in_year(y)
    leap = calc._is_leap_year(y)
    dims = [calc._get_days_in_month(y, m) for m in range(1, miy + 1)]
    dsms = [calc._get_days_from_start_of_year_to_start_of_month(y, m) for m in range(1, miy + 1)]
    diy = calc._get_days_in_year(y)
    return (miy, leap, dims, dsms, diy)


def split_doy(calc, y, doy):
    diy = calc._get_days_in_year(y)
    if doy > diy:
        return None
    ymd = calc._get_year_month_day_from_year_and_day_of_year(y, doy)
    m = ymd._month
    d = ymd._day
    return (
        ymd._year,
        m,
        d,
        calc._get_days_from_start_of_year_to_start_of_month(y, m),
        calc._get_days_in_month(y, m),
        calc._get_months_in_year(y),
        diy,
    )


def estimate_year(calc, days):
    """The first-guess year of _YearMonthDayCalculator._get_year, evaluated through the real accessor code."""
    from pyoda_time.utility._csharp_compatibility import _towards_zero_division

    days_since_year_1 = days - calc._days_at_start_of_year_1
    return _towards_zero_division(days_since_year_1 * 10, calc._YearMonthDayCalculator__average_days_per_10_years) + 1


def add_months(calc, y, m, d, n):
    from pyoda_time._year_month_day import _YearMonthDay

    if m > calc._get_months_in_year(y) or d > calc._get_days_in_month(y, m):
        return None
    r = calc._add_months(_YearMonthDay._ctor(year=y, month=m, day=d), n)
    return (r._year, r._month, r._day, calc._get_days_in_month(r._year, r._month), calc._get_months_in_year(r._year))


def set_year(calc, y, m, d, y2):
    from pyoda_time._year_month_day import _YearMonthDay

    if m > calc._get_months_in_year(y) or d > calc._get_days_in_month(y, m):
        return None
    r = calc._set_year(_YearMonthDay._ctor(year=y, month=m, day=d), y2)
    return (r._year, r._month, r._day, calc._get_days_in_month(r._year, r._month), calc._get_months_in_year(r._year))


def months_between(calc, y1, m1, d1, y2, m2, d2):
    from pyoda_time._year_month_day import _YearMonthDay

    if m1 > calc._get_months_in_year(y1) or d1 > calc._get_days_in_month(y1, m1):
        return None
    if m2 > calc._get_months_in_year(y2) or d2 > calc._get_days_in_month(y2, m2):
        return None
    a = _YearMonthDay._ctor(year=y1, month=m1, day=d1)
    b = _YearMonthDay._ctor(year=y2, month=m2, day=d2)
    n = calc._months_between(a, b)
    at = calc._add_months(a, n)
    return (n, at._year, at._month, at._day)


def lemma():
    """No code: the contract's postcondition is a statement over spec functions only."""
    return None


def compare_chain(calc, y):
    """Month starts/ends of year y (plus the first day of year y+1 when it exists) sorted by day number; returns the
    signs of compare() between neighbours and between equal dates."""
    from pyoda_time._year_month_day import _YearMonthDay

    pts = []
    for m in range(1, calc._get_months_in_year(y) + 1):
        for d in (1, calc._get_days_in_month(y, m)):
            ymd = _YearMonthDay._ctor(year=y, month=m, day=d)
            pts.append((calc._get_days_since_epoch(ymd), ymd))
    if y + 1 <= calc._max_year:
        ymd = _YearMonthDay._ctor(year=y + 1, month=calc._get_year_month_day_from_year_and_day_of_year(y + 1, 1)._month, day=1)
        pts.append((calc._get_days_since_epoch(ymd), ymd))
    pts.sort(key=lambda p: p[0])
    out = []
    for (n1, a), (n2, b) in zip(pts, pts[1:]):
        out.append((n2 - n1, calc.compare(a, b), calc.compare(b, a), calc.compare(a, a)))
    return out


def day_range(calc):
    """first and last day number of the calculator's supported range"""
    return (calc._get_start_of_year_in_days(calc._min_year), calc._get_start_of_year_in_days(calc._max_year + 1) - 1)
