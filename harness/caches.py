"""Harness for cache-transparency contracts (C13)."""


def entry_facts(year, days, other):
    from pyoda_time.calendars._year_start_cache_entry import _YearStartCacheEntry as E

    e = E(year, days)
    return (e._is_valid_for_year(year), e._start_of_year_days, e._is_valid_for_year(other), E._get_cache_index(year), E._get_cache_index(other))


def invalid_entry_facts(year):
    from pyoda_time.calendars._year_start_cache_entry import _YearStartCacheEntry as E

    e = E._YearStartCacheEntry__invalid()
    return e._is_valid_for_year(year)


def create_cache_facts():
    from pyoda_time.calendars._year_start_cache_entry import _YearStartCacheEntry as E

    c = E._create_cache()
    return (len(c), sorted(c.keys()) == list(range(1024)), all(not c[i]._is_valid_for_year(y) for i in range(0, 1024, 97) for y in (-9999, -1, 0, 1, 1970, 9999, 10000)))
