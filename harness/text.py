"""Sidecar lemma code for the text properties (C07 / C08 / C17): composes the real format helpers and cursors."""

from __future__ import annotations

from pyoda_time._compatibility._string_builder import StringBuilder
from pyoda_time.text._format_helper import _FormatHelper
from pyoda_time.text._value_cursor import _ValueCursor


def fmt2(v):
    sb = StringBuilder()
    _FormatHelper._format_2_digits_non_negative(v, sb)
    return sb.to_string()


def fmt4(v):
    sb = StringBuilder()
    _FormatHelper._format_4_digits_value_fits(v, sb)
    return sb.to_string()


def left_pad(v, length):
    sb = StringBuilder()
    _FormatHelper._left_pad(v, length, sb)
    return sb.to_string()


def left_pad_nn(v, length):
    sb = StringBuilder()
    _FormatHelper._left_pad_non_negative(v, length, sb)
    return sb.to_string()


def frac(v, length, scale):
    sb = StringBuilder()
    _FormatHelper._append_fraction(v, length, scale, sb)
    return sb.to_string()


def frac_trunc(prefix, v, length, scale):
    sb = StringBuilder(prefix)
    _FormatHelper._append_fraction_truncate(v, length, scale, sb)
    return sb.to_string()


def inv(v):
    sb = StringBuilder()
    _FormatHelper._format_invariant(v, sb)
    return sb.to_string()


def cursor_at_start(text):
    c = _ValueCursor(text)
    c.move_next()
    return c


def parse_digits(text, minimum, maximum):
    c = cursor_at_start(text)
    ok, v = c._parse_digits(minimum, maximum)
    return ok, v, c.index


def parse_fraction(text, maximum, scale, minimum):
    c = cursor_at_start(text)
    ok, v = c._parse_fraction(maximum, scale, minimum)
    return ok, v, c.index


def parse_int64(text):
    c = cursor_at_start(text)
    err, v = c._parse_int64()
    return err is None, v, c.index


def match(text, m):
    c = cursor_at_start(text)
    ok = c._match(m)
    return ok, c.index


def rt_pad(v, length):
    """parse_digits(left_pad_non_negative(v)) for a field of exactly `length` digits"""
    return parse_digits(left_pad_nn(v, length), length, length)


def rt_frac_trunc(v, length, scale):
    """parse_fraction(append_fraction_truncate(v)): the 'F' fraction specifier"""
    text = frac_trunc("", v, length, scale)
    return parse_fraction(text, length, scale, 0)


def rt_frac(v, length, scale):
    """parse_fraction(append_fraction(v)): the 'f' fraction specifier"""
    text = frac(v, length, scale)
    return parse_fraction(text, length, scale, length)


def rt_int64(v):
    return parse_int64(inv(v))


def pattern_rt(pattern, value):
    """format then parse with the same pattern"""
    text = pattern.format(value)
    r = pattern.parse(text)
    if r.success:
        return (True, r.value, text)
    return (False, None, text)


def pattern_parse(pattern, text):
    """parse any text: a result object, never an exception; a success carries a value that formats back"""
    r = pattern.parse(text)
    if r.success:
        v = r.value
        return (True, v, pattern.format(v))
    return (False, None, None)
