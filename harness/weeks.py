"""Harness functions for week-year rules and weekday navigation."""


def wy_roundtrip(rule, date):
    cal = date.calendar
    wy = rule.get_week_year(date)
    w = rule.get_week_of_week_year(date)
    weeks = rule.get_weeks_in_week_year(wy, cal)
    back = rule.get_local_date(wy, w, date.day_of_week, cal)
    return (wy, w, weeks, back._days_since_epoch)


def week_year_start(rule, calendar, year):
    return rule._SimpleWeekYearRule__get_week_year_days_since_epoch(calendar._year_month_day_calculator, year)


def weeks_tile(rule, calendar, year):
    a = rule._SimpleWeekYearRule__get_week_year_days_since_epoch(calendar._year_month_day_calculator, year)
    b = rule._SimpleWeekYearRule__get_week_year_days_since_epoch(calendar._year_month_day_calculator, year + 1)
    n = rule.get_weeks_in_week_year(year, calendar)
    return (a, b, n)


def nth_weekday(year, month, occurrence, day_of_week):
    from pyoda_time import CalendarSystem, LocalDate

    r = LocalDate.from_year_month_week_and_day(year, month, occurrence, day_of_week)
    return (r.year, r.month, r.day, int(r.day_of_week), CalendarSystem.iso.get_days_in_month(year, month))


def adjust(kind, arg, date):
    """apply one of the stock date adjusters"""
    from pyoda_time import DateAdjusters

    if kind == "start_of_month":
        f = DateAdjusters.start_of_month
    elif kind == "end_of_month":
        f = DateAdjusters.end_of_month
    elif kind == "next_or_same":
        f = DateAdjusters.next_or_same(arg)
    elif kind == "previous_or_same":
        f = DateAdjusters.previous_or_same(arg)
    elif kind == "next":
        f = DateAdjusters.next(arg)
    else:
        f = DateAdjusters.previous(arg)
    return f(date)
