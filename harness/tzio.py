"""Harness for the tz database codec: a byte stream as plain Python (sidecar, interpreted like repository code) and
write-then-read round trips through the REAL writer and reader."""


class Stream:
    """Cursor over a byte sequence with the io.BytesIO read/write protocol the reader and writer use (assumption A7)."""

    def __init__(self):
        self.data = []
        self.pos = 0

    def write(self, b):
        for x in b:
            self.data.append(x)
        return len(b)

    def read(self, n=-1):
        end = len(self.data) if n is None or n < 0 else min(len(self.data), self.pos + n)
        out = self.data[self.pos : end]
        self.pos = end
        return bytes(out)


def _pair(pool_w=None, pool_r=None):
    from pyoda_time.time_zones.io._date_time_zone_reader import _DateTimeZoneReader
    from pyoda_time.time_zones.io._date_time_zone_writer import _DateTimeZoneWriter

    s = Stream()
    return s, _DateTimeZoneWriter._ctor(s, pool_w), _DateTimeZoneReader._ctor(s, pool_r)


def rt_count(n):
    s, w, r = _pair()
    w.write_count(n)
    size = len(s.data)
    v = r.read_count()
    return (v, s.pos, size)


def rt_signed_count(n):
    s, w, r = _pair()
    w.write_signed_count(n)
    size = len(s.data)
    v = r.read_signed_count()
    return (v, s.pos, size)


def rt_milliseconds(m):
    s, w, r = _pair()
    w.write_milliseconds(m)
    size = len(s.data)
    v = r.read_milliseconds()
    return (v, s.pos, size)


def rt_offset(off):
    s, w, r = _pair()
    w.write_offset(off)
    size = len(s.data)
    v = r.read_offset()
    return (v, s.pos, size)


def rt_transition(previous, value):
    s, w, r = _pair()
    w.write_zone_interval_transition(previous, value)
    size = len(s.data)
    v = r.read_zone_interval_transition(previous)
    return (v, s.pos, size)


def rt_byte(b):
    s, w, r = _pair()
    w.write_byte(b)
    more = r.has_more_data
    v = r.read_byte()
    return (v, s.pos, len(s.data), more, r.has_more_data)


def rt_int64(v):
    s, w, r = _pair()
    w._DateTimeZoneWriter__write_int64(v)
    size = len(s.data)
    x = r._DateTimeZoneReader__read_int64()
    return (x, s.pos, size)


def rt_transition_tokens(previous, value):
    """Same round trip, used with the primitives replaced by their contracts (tokens)."""
    s, w, r = _pair()
    w.write_zone_interval_transition(previous, value)
    tokens = list(s.data)
    v = r.read_zone_interval_transition(previous)
    return (v, s.pos, len(s.data), tokens)


def rt_year_offset(yo):
    from pyoda_time.time_zones._zone_year_offset import _ZoneYearOffset

    s, w, r = _pair()
    yo._write(w)
    tokens = list(s.data)
    back = _ZoneYearOffset.read(r)
    return (back, s.pos, len(s.data), tokens)


def rt_recurrence(rec):
    from pyoda_time.time_zones._zone_recurrence import _ZoneRecurrence

    s, w, r = _pair()
    rec._write(w)
    back = _ZoneRecurrence.read(r)
    return (back, s.pos, len(s.data))


def rt_alt_map(m):
    from pyoda_time.time_zones._standard_daylight_alternating_map import _StandardDaylightAlternatingMap

    s, w, r = _pair()
    m._write(w)
    back = _StandardDaylightAlternatingMap._read(r)
    return (back, s.pos, len(s.data))


def rt_string(value, pool_w, pool_r):
    s, w, r = _pair(pool_w, pool_r)
    w.write_string(value)
    size = len(s.data)
    back = r.read_string()
    return (back, s.pos, size)


def rt_dictionary(d):
    s, w, r = _pair()
    w.write_dictionary(d)
    size = len(s.data)
    back = r.read_dictionary()
    return (back, list(back.items()), s.pos, size)


class AnyStream:
    """An arbitrary byte stream: `left` bytes remain (ghost counter); each read(1) yields the next (unconstrained) byte.
    The engine replaces `read` by its contract (specs/tzio_models.install_any_stream); a counter-model is turned into a
    real instance (`data` = the model's bytes) so that it can be replayed on the real reader."""

    def __init__(self, left, data=b"", pos=0):
        self.left = left
        self.data = data
        self.pos = pos

    def read(self, n=-1):
        if n != 1:
            raise NotImplementedError
        if self.left <= 0:
            return b""
        b = self.data[self.pos : self.pos + 1] or b"\0"
        self.pos += 1
        self.left -= 1
        return b


def reader_on(stream, pool=None):
    from pyoda_time.time_zones.io._date_time_zone_reader import _DateTimeZoneReader

    return _DateTimeZoneReader._ctor(stream, pool)


def read_prim(stream, which):
    r = reader_on(stream)
    before = stream.left
    if which == 0:
        v = r.read_count()
    elif which == 1:
        v = r.read_signed_count()
    elif which == 2:
        v = r.read_milliseconds()
    elif which == 3:
        v = r.read_byte()
    elif which == 4:
        v = r._DateTimeZoneReader__read_int64()
    else:
        v = r.has_more_data
    return (v, before - stream.left)


def read_transition(stream, previous):
    """read_zone_interval_transition on any stream: the value and the number of bytes consumed"""
    r = reader_on(stream)
    before = stream.left
    v = r.read_zone_interval_transition(previous)
    return (v, before - stream.left)


def read_offset_any(stream):
    """read_offset on any stream: the offset and the number of bytes consumed"""
    r = reader_on(stream)
    before = stream.left
    v = r.read_offset()
    return (v, before - stream.left)
