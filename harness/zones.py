"""Sidecar lemma code for the zone properties."""


def resolve(resolver, mapping):
    return resolver(mapping)
