"""Harness for equality / hashing / ordering laws."""


def eq_hash(x, y):
    return (x == y, hash(x), hash(y), x != y)


def order_ops(x, y):
    return (x < y, x <= y, x > y, x >= y, x.compare_to(y), x == y)


def eq_ne(x, y):
    return (x == y, x != y)


def fixed_zone_eq(o1, id1, n1, o2, id2, n2):
    from pyoda_time.time_zones._fixed_date_time_zone import _FixedDateTimeZone

    x, y = _FixedDateTimeZone(o1, id1, n1), _FixedDateTimeZone(o2, id2, n2)
    return (x == y, hash(x), hash(y), x != y, x.equals(y))


def one_order_op(x, y, op):
    """a single ordering operation, so that each one's own guard is exercised"""
    if op == "lt":
        return x < y
    if op == "le":
        return x <= y
    if op == "gt":
        return x > y
    if op == "ge":
        return x >= y
    return x.compare_to(y)
