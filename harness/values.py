"""Harness for equality / hashing / ordering laws."""


def eq_hash(x, y):
    return (x == y, hash(x), hash(y), x != y)


def order_ops(x, y):
    return (x < y, x <= y, x > y, x >= y, x.compare_to(y), x == y)
