"""Symbolic (concolic) interpreter for the Python subset used by pyoda-time, over real source ASTs.

Part A: function contexts, name resolution, attribute protocol, call dispatch.
Expression/statement evaluation lives in evalast.py (mixin), builtin models in models.py.
"""

from __future__ import annotations

import ast
import builtins
import enum
import functools
import inspect
import types
from typing import Any, Callable

from . import extract, sym
from .core import Engine, PathEnd
from .evalast import AstMixin
from .sym import SBool, SInt, SOpaque, Unsupported
from .values import (
    OPAQUE_STR,
    BoundMethod,
    Closure,
    ExcValue,
    PyRaise,
    SDict,
    SList,
    SObj,
    SStr,
    SuperProxy,
)

from .values import MISSING as _MISSING


class FCtx:
    """Static context of a function being interpreted."""

    __slots__ = ("func", "node", "defcls", "globals", "qualname", "freevars", "filename")

    def __init__(self, func: types.FunctionType | None, node: ast.AST, defcls: type | None, globs: dict, qualname: str, freevars: dict, filename: str) -> None:
        self.func = func
        self.node = node
        self.defcls = defcls
        self.globals = globs
        self.qualname = qualname
        self.freevars = freevars
        self.filename = filename


class Env:
    __slots__ = ("vars", "parent", "fctx")

    def __init__(self, fctx: FCtx, parent: "Env | None" = None) -> None:
        self.vars: dict[str, Any] = {}
        self.parent = parent
        self.fctx = fctx


def mangle(clsname: str | None, name: str) -> str:
    if clsname and name.startswith("__") and not name.endswith("__"):
        return "_" + clsname.lstrip("_") + name
    return name


def _defining_class(func: types.FunctionType) -> type | None:
    qn = func.__qualname__
    parts = qn.split(".")
    if len(parts) < 2 or parts[-2] == "<locals>":
        return None
    mod = inspect.getmodule(func)
    obj: Any = mod
    try:
        for p in parts[:-1]:
            if p == "<locals>":
                return None
            obj = vars(obj)[p] if not isinstance(obj, types.ModuleType) else getattr(obj, p)
    except (KeyError, AttributeError):
        return None
    return obj if isinstance(obj, type) else None


class Interp(AstMixin, Engine):
    def __init__(self) -> None:
        Engine.__init__(self)
        from . import models

        self.models: dict[Any, Callable] = dict(models.MODELS)
        self.func_models: dict[Any, Callable] = {}  # live function object -> model(eng, *args, **kwargs)
        self.loop_specs: dict[tuple[str, int], Any] = {}
        self.unroll: dict[str, int] = {}
        self.default_unroll = 0
        self.interpreted: dict[str, str] = {}  # qualname -> source hash of every function whose body was executed
        self.identity_failures: list[str] = []
        self.call_depth = 0
        self.max_depth = 60
        self.exception_mode = False
        self.native_ok: set[Any] = set()
        self.opaque_calls: list[str] = []
        self.frame_violations: list[str] = []
        self.allowed_mutation: Callable[[Any, Any], bool] | None = None
        self._fctx_cache: dict[Any, FCtx] = {}
        self.enum_tags: dict[int, type] = {}
        self.assumptions_used: set[str] = set()
        self.lock_events: list[tuple] = []
        self.guarded_fields: set[tuple[str, str]] = set()
        self.alias: dict[int, Any] = {}  # id(live object) -> symbolic stand-in (e.g. the real ISO calendar -> abstract calendar)
        self.guard_violations: list[str] = []
        from .repo_models import install

        install(self)

    # ------------------------------------------------------------------ contexts
    def fctx_for(self, func: types.FunctionType) -> FCtx:
        c = self._fctx_cache.get(func)
        if c is not None:
            return c
        node = extract.find_node(func)
        if not extract.identity_check(func):
            self.identity_failures.append(extract.describe(func))
            raise Unsupported(f"identity check failed for {extract.describe(func)}")
        defcls = _defining_class(func)
        freevars = {}
        if func.__closure__:
            for n, cell in zip(func.__code__.co_freevars, func.__closure__):
                try:
                    freevars[n] = cell.cell_contents
                except ValueError:
                    pass
        c = FCtx(func, node, defcls, func.__globals__, f"{func.__module__}:{func.__qualname__}", freevars, func.__code__.co_filename)
        if "__class__" in freevars and isinstance(freevars["__class__"], type):
            c.defcls = freevars["__class__"]
        self._fctx_cache[func] = c
        try:
            self.interpreted[c.qualname] = extract.source_hash(func)
        except Exception:
            self.interpreted[c.qualname] = "?"
        return c

    # ------------------------------------------------------------------ names
    def lookup_name(self, env: Env, name: str) -> Any:
        e: Env | None = env
        while e is not None:
            if name in e.vars:
                return e.vars[name]
            e = e.parent
        f = env.fctx
        if name in f.freevars:
            return f.freevars[name]
        if name in f.globals:
            return f.globals[name]
        if hasattr(builtins, name):
            return getattr(builtins, name)
        self.raise_(NameError, f"name {name}")

    def assign_name(self, env: Env, name: str, value: Any, scope: str = "local") -> None:
        if scope == "nonlocal":
            e = env.parent
            while e is not None:
                if name in e.vars:
                    e.vars[name] = value
                    return
                e = e.parent
        env.vars[name] = value

    # ------------------------------------------------------------------ exceptions
    def raise_(self, etype: type, msg: str = "", site: str = "") -> Any:
        raise PyRaise(ExcValue(etype, (msg,), site or self.cur_site()))

    def cur_site(self) -> str:
        return self._site

    # ------------------------------------------------------------------ attribute protocol
    def static_lookup(self, cls: type, name: str) -> Any:
        for k in cls.__mro__:
            d = vars(k)
            if name in d:
                return d[name], k
        return _MISSING, None

    def instance_attr(self, obj: Any, name: str) -> Any:
        if isinstance(obj, SObj):
            if self.guarded_fields and (obj.cls.__name__, name) in self.guarded_fields and not self.held_locks and not self.is_fresh(obj):
                self.guard_violations.append(f"read of {obj.cls.__name__}.{name} @ {self.cur_site()}")
            return obj.fields.get(name, _MISSING)
        ov = self.overlay.get((id(obj), name), _MISSING)
        if ov is not _MISSING:
            return ov
        try:
            d = object.__getattribute__(obj, "__dict__")
        except AttributeError:
            d = None
        if d is not None and name in d:
            return self.wrap_live(d[name])
        # slots
        for k in type(obj).__mro__:
            sl = vars(k).get(name, _MISSING)
            if isinstance(sl, types.MemberDescriptorType):
                try:
                    return self.wrap_live(sl.__get__(obj, type(obj)))
                except AttributeError:
                    return _MISSING
        return _MISSING

    def wrap_live(self, v: Any) -> Any:
        return v

    def get_attr(self, obj: Any, name: str, env: Env | None = None) -> Any:
        if self.alias and id(obj) in self.alias:
            obj = self.alias[id(obj)]
        if isinstance(obj, SuperProxy):
            return self.super_attr(obj, name)
        if isinstance(obj, (SInt, SBool)):
            return self.int_attr(obj, name)
        if isinstance(obj, SList):
            return BoundMethod(("slist", name), obj)
        if type(obj).__name__ == "SBytes":
            raise Unsupported(f"bytes method {name} on symbolic bytes")
        if isinstance(obj, SDict):
            return BoundMethod(("sdict", name), obj)
        if isinstance(obj, SStr):
            return BoundMethod(("sstr", name), obj)
        if isinstance(obj, ExcValue):
            if name == "add_note":
                return BoundMethod(("exc", name), obj)
            if name == "args":
                return obj.args
            if name == "__class__":
                return obj.etype
            raise Unsupported(f"attribute {name} of exception value")
        if isinstance(obj, Closure):
            raise Unsupported(f"attribute {name} of closure")
        if isinstance(obj, BoundMethod):
            if name == "__func__":
                return obj.func
            if name == "__self__":
                return obj.self_
            raise Unsupported(f"attribute {name} of bound method")
        if isinstance(obj, type):
            return self.class_attr(obj, name)
        if isinstance(obj, SObj):
            cls = obj.cls
        elif self.is_repo_object(obj):
            cls = type(obj)
        else:
            # foreign concrete object: native attribute access
            try:
                return getattr(obj, name)
            except AttributeError:
                self.raise_(AttributeError, name)
        if name == "__class__":
            return cls
        cattr, owner = self.static_lookup(cls, name)
        if cattr is not _MISSING and isinstance(cattr, (property, functools.cached_property)):
            if isinstance(cattr, property):
                if cattr.fget is None:
                    self.raise_(AttributeError, name)
                return self.call_function(cattr.fget, [obj], {})
            raise Unsupported("cached_property")
        iv = self.instance_attr(obj, name)
        if iv is not _MISSING:
            return iv
        if cattr is _MISSING:
            ga, _ = self.static_lookup(cls, "__getattr__")
            if ga is not _MISSING:
                return self.call_function(ga, [obj, name], {})
            self.raise_(AttributeError, f"{cls.__name__}.{name}")
        return self.bind(cattr, obj, cls, owner)

    def bind(self, cattr: Any, obj: Any, cls: type, owner: type | None) -> Any:
        if isinstance(cattr, types.FunctionType):
            return BoundMethod(cattr, obj, owner)
        if isinstance(cattr, classmethod):
            return BoundMethod(cattr.__func__, cls, owner)
        if isinstance(cattr, staticmethod):
            return cattr.__func__
        if isinstance(cattr, (types.WrapperDescriptorType, types.MethodDescriptorType, types.BuiltinFunctionType)):
            if isinstance(obj, SObj):
                return BoundMethod(("native_unbound", cattr), obj)
            return getattr(obj, cattr.__name__)
        if hasattr(cattr, "__get__") and not isinstance(cattr, (int, str, tuple, list, dict, type, enum.Enum)):
            if isinstance(cattr, functools.partialmethod):
                raise Unsupported("partialmethod")
            if hasattr(cattr, "__wrapped__"):  # functools.cache etc. on methods
                return BoundMethod(cattr.__wrapped__, obj, owner)
        return cattr

    def class_attr(self, cls: type, name: str) -> Any:
        if name == "__name__":
            return cls.__name__
        if name == "__mro__":
            return cls.__mro__
        meta = type(cls)
        mattr, mowner = self.static_lookup(meta, name) if meta is not type else (_MISSING, None)
        if mattr is not _MISSING and isinstance(mattr, property):
            ov = self.overlay.get((id(cls), name), _MISSING)
            if ov is not _MISSING:
                return ov
            return self.call_function(mattr.fget, [cls], {})
        ov = self.overlay.get((id(cls), name), _MISSING)
        if ov is not _MISSING:
            return ov
        cattr, owner = self.static_lookup(cls, name)
        if cattr is _MISSING:
            if mattr is not _MISSING:
                if isinstance(mattr, types.FunctionType):
                    return BoundMethod(mattr, cls, mowner)
                if hasattr(mattr, "__wrapped__") and hasattr(mattr, "__get__"):
                    return BoundMethod(mattr.__wrapped__, cls, mowner)
                return mattr
            if issubclass(cls, enum.Enum) or not self.is_repo_class(cls):
                try:
                    return getattr(cls, name)
                except AttributeError:
                    pass
            try:
                return getattr(cls, name)
            except AttributeError:
                self.raise_(AttributeError, f"{cls.__name__}.{name}")
        if isinstance(cattr, types.FunctionType):
            return cattr
        if isinstance(cattr, classmethod):
            return BoundMethod(cattr.__func__, cls, owner)
        if isinstance(cattr, staticmethod):
            return cattr.__func__
        if isinstance(cattr, property):
            return cattr
        if not self.is_repo_class(cls) or issubclass(cls, enum.Enum):
            return getattr(cls, name)
        if hasattr(cattr, "__wrapped__") and hasattr(cattr, "__get__") and not isinstance(cattr, type):
            return cattr
        return cattr

    def int_attr(self, obj: Any, name: str) -> Any:
        if name == "value":
            return obj
        if name in ("real", "numerator"):
            return obj
        if name == "bit_length":
            raise Unsupported("bit_length of symbolic int")
        if name in ("__class__",):
            return bool if isinstance(obj, SBool) else int
        raise Unsupported(f"attribute {name} of symbolic int")

    def super_attr(self, sp: SuperProxy, name: str) -> Any:
        start = sp.obj if sp.is_cls else (sp.obj.cls if isinstance(sp.obj, SObj) else type(sp.obj))
        mro = start.__mro__
        try:
            i = mro.index(sp.defcls)
        except ValueError:
            raise Unsupported("super(): defining class not in MRO")
        for k in mro[i + 1 :]:
            d = vars(k)
            if name in d:
                cattr = d[name]
                if name == "__new__":
                    return BoundMethod(("new", k), start)
                if isinstance(cattr, types.FunctionType):
                    return BoundMethod(cattr, sp.obj, k)
                if isinstance(cattr, classmethod):
                    return BoundMethod(cattr.__func__, start, k)
                if isinstance(cattr, staticmethod):
                    return cattr.__func__
                if isinstance(cattr, property):
                    return self.call_function(cattr.fget, [sp.obj], {})
                if isinstance(cattr, (types.WrapperDescriptorType, types.MethodDescriptorType)):
                    return BoundMethod(("native_unbound", cattr), sp.obj)
                return cattr
        self.raise_(AttributeError, name)

    def set_attr(self, obj: Any, name: str, value: Any) -> None:
        if isinstance(obj, SObj):
            cattr, _ = self.static_lookup(obj.cls, name)
            if isinstance(cattr, property):
                if cattr.fset is None:
                    self.raise_(AttributeError, f"can't set {name}")
                self.call_function(cattr.fset, [obj, value], {})
                return
            if not self.is_fresh(obj):
                self.note_mutation(obj, name)
                if self.guarded_fields and (obj.cls.__name__, name) in self.guarded_fields and not self.held_locks:
                    self.guard_violations.append(f"write of {obj.cls.__name__}.{name} @ {self.cur_site()}")
            self.set_field(obj, name, value)
            return
        if isinstance(obj, ExcValue):
            return
        if isinstance(obj, type) or self.is_repo_object(obj):
            cls = obj if isinstance(obj, type) else type(obj)
            cattr, _ = self.static_lookup(cls if not isinstance(obj, type) else type(obj), name)
            if isinstance(cattr, property) and cattr.fset is not None:
                self.call_function(cattr.fset, [obj, value], {})
                return
            self.note_mutation(obj, name)
            self.set_overlay(obj, name, value)
            return
        raise Unsupported(f"attribute store on {type(obj).__name__}")

    def note_mutation(self, obj: Any, name: str) -> None:
        if self.allowed_mutation is not None and self.allowed_mutation(obj, name):
            return
        cn = obj.cls.__name__ if isinstance(obj, SObj) else (obj.__name__ if isinstance(obj, type) else type(obj).__name__)
        self.frame_violations.append(f"{cn}.{name} @ {self.cur_site()}")

    # ------------------------------------------------------------------ classification helpers
    @staticmethod
    def is_repo_class(cls: type) -> bool:
        m = getattr(cls, "__module__", "") or ""
        return m.startswith("pyoda_time") or m.startswith("harness.")

    def is_repo_object(self, obj: Any) -> bool:
        if isinstance(obj, (int, str, float, tuple, list, dict, bytes, type(None), enum.Enum, types.ModuleType)):
            return False
        return self.is_repo_class(type(obj))

    # ------------------------------------------------------------------ calls
    def call_value(self, f: Any, args: list[Any], kwargs: dict[str, Any]) -> Any:
        if isinstance(f, BoundMethod):
            fn = f.func
            if isinstance(fn, tuple):
                return self.call_special(fn, f.self_, args, kwargs)
            return self.call_function(fn, [f.self_] + args, kwargs)
        if isinstance(f, Closure):
            return self.call_closure(f, args, kwargs)
        if isinstance(f, types.FunctionType):
            return self.call_function(f, args, kwargs)
        if isinstance(f, type):
            return self.call_class(f, args, kwargs)
        if isinstance(f, types.MethodType):
            if getattr(type(f.__self__), "pyvc_model", False):
                # a method of a model object (symbolic string, stdlib model): run it natively, it talks to the engine itself
                return self.call_native_raw(f, args, kwargs)
            if isinstance(f.__func__, types.FunctionType) and self.is_repo_func(f.__func__):
                return self.call_function(f.__func__, [f.__self__] + args, kwargs)
            return self.call_native(f, args, kwargs)
        m = self.models.get(f)
        if m is not None:
            return m(self, *args, **kwargs)
        if isinstance(f, functools.partial):
            return self.call_value(f.func, list(f.args) + args, {**f.keywords, **kwargs})
        if hasattr(f, "__wrapped__") and isinstance(getattr(f, "__wrapped__"), types.FunctionType):
            return self.call_function(f.__wrapped__, args, kwargs)
        if isinstance(f, SObj):
            c, owner = self.static_lookup(f.cls, "__call__")
            if c is not _MISSING:
                return self.call_function(c, [f] + args, kwargs)
        if callable(f):
            if self.is_repo_object(f) and not isinstance(f, type):
                c, owner = self.static_lookup(type(f), "__call__")
                if isinstance(c, types.FunctionType):
                    return self.call_function(c, [f] + args, kwargs)
            return self.call_native(f, args, kwargs)
        self.raise_(TypeError, f"{f!r} is not callable")

    @staticmethod
    def is_repo_func(fn: types.FunctionType) -> bool:
        m = getattr(fn, "__module__", "") or ""
        return m.startswith("pyoda_time") or m.startswith("harness.")

    def all_concrete(self, vals: Any) -> bool:
        if isinstance(vals, (SInt, SBool, SOpaque, SObj, SList, SDict, Closure, BoundMethod, SStr, ExcValue, SuperProxy)):
            return False
        if getattr(type(vals), "pyvc_symbolic", False):
            return False
        if isinstance(vals, (list, tuple)):
            return all(self.all_concrete(v) for v in vals)
        if isinstance(vals, dict):
            return all(self.all_concrete(v) for v in vals.values())
        return True

    def call_native_raw(self, f: Any, args: list[Any], kwargs: dict[str, Any]) -> Any:
        """Native call bypassing the model table (used by models that fall back to the real callable)."""
        try:
            return f(*args, **kwargs)
        except Exception as e:  # noqa: BLE001
            if isinstance(e, (Unsupported, PathEnd, PyRaise)):
                raise
            raise PyRaise(ExcValue(type(e), e.args, self.cur_site()))

    def call_native(self, f: Any, args: list[Any], kwargs: dict[str, Any]) -> Any:
        m = self.models.get(f)
        if m is not None:
            return m(self, *args, **kwargs)
        if getattr(f, "__name__", "") == "join" and isinstance(getattr(f, "__self__", None), str) and len(args) == 1 and isinstance(args[0], SList) and self.all_concrete(args[0].items):
            args = [list(args[0].items)]
        if not (self.all_concrete(args) and self.all_concrete(kwargs)):
            if getattr(f, "__name__", "") == "format" and isinstance(getattr(f, "__self__", None), str):
                # message templates filled with symbolic values: the text of messages is never inspected
                self.note_opaque_string()
                return OPAQUE_STR
            raise Unsupported(f"native call {getattr(f, '__qualname__', f)!r} with symbolic arguments")
        try:
            return f(*args, **kwargs)
        except Exception as e:  # noqa: BLE001 -- native exceptions become interpreted exceptions
            if isinstance(e, (Unsupported, PathEnd, PyRaise)):
                raise
            raise PyRaise(ExcValue(type(e), e.args, self.cur_site()))

    def call_function(self, fn: Any, args: list[Any], kwargs: dict[str, Any]) -> Any:
        fn = extract.unwrap(fn) if not isinstance(fn, types.FunctionType) else fn
        if not isinstance(fn, types.FunctionType):
            return self.call_value(fn, args, kwargs)
        m = self.func_models.get(fn)
        if m is not None:
            return m(self, *args, **kwargs)
        if not self.is_repo_func(fn):
            return self.call_native(fn, args, kwargs)
        fctx = self.fctx_for(fn)
        return self.run_function(fctx, None, args, kwargs, key=fn)

    def call_closure(self, c: Closure, args: list[Any], kwargs: dict[str, Any]) -> Any:
        return self.run_function(c.fctx, c, args, kwargs, key=None)

    def run_function(self, fctx: FCtx, clo: Closure | None, args: list[Any], kwargs: dict[str, Any], key: Any) -> Any:
        node = clo.node if clo is not None else fctx.node
        if self.call_depth > self.max_depth:
            raise Unsupported(f"call depth > {self.max_depth} at {fctx.qualname}")
        if _is_generator(node):
            return self.run_generator(fctx, clo, node, args, kwargs)

        def thunk() -> Any:
            env = Env(fctx, clo.env if clo is not None else None)
            self.bind_args(env, node, args, kwargs)
            saved = self._site
            self.call_depth += 1
            try:
                if isinstance(node, ast.Lambda):
                    return self.eval(node.body, env)
                return self.exec_body(node.body, env)
            finally:
                self.call_depth -= 1
                self._site = saved

        mkey = ident = None
        if key is not None:
            try:
                mkey = (key, _argkey(args), _argkey(sorted(kwargs.items())))
                ident = _identkey(args) + _identkey(list(kwargs.values()))
            except TypeError:
                mkey = None
        return self.summarize(mkey, thunk, ident)

    def bind_args(self, env: Env, node: Any, args: list[Any], kwargs: dict[str, Any]) -> None:
        a = node.args
        params = [p.arg for p in a.posonlyargs + a.args]
        defaults = a.defaults
        kwargs = dict(kwargs)
        n = len(params)
        if len(args) > n and a.vararg is None:
            self.raise_(TypeError, "too many positional arguments")
        for i, p in enumerate(params):
            if i < len(args):
                env.vars[p] = args[i]
                if p in kwargs:
                    self.raise_(TypeError, f"multiple values for {p}")
            elif p in kwargs:
                env.vars[p] = kwargs.pop(p)
            else:
                di = i - (n - len(defaults))
                if di >= 0:
                    env.vars[p] = self.eval_default(defaults[di], env)
                else:
                    self.raise_(TypeError, f"missing argument {p}")
        if a.vararg is not None:
            env.vars[a.vararg.arg] = tuple(args[n:])
        for p, d in zip(a.kwonlyargs, a.kw_defaults):
            if p.arg in kwargs:
                env.vars[p.arg] = kwargs.pop(p.arg)
            elif d is not None:
                env.vars[p.arg] = self.eval_default(d, env)
            else:
                self.raise_(TypeError, f"missing keyword argument {p.arg}")
        if a.kwarg is not None:
            env.vars[a.kwarg.arg] = kwargs
        elif kwargs:
            self.raise_(TypeError, f"unexpected keyword arguments {sorted(kwargs)}")

    def eval_default(self, d: ast.AST, env: Env) -> Any:
        # defaults in this code base are constants / simple names evaluated at definition time
        if isinstance(d, ast.Constant):
            return d.value
        func = env.fctx.func
        if func is not None:
            # use the live default objects (evaluated by CPython at definition time)
            node = env.fctx.node
            a = node.args  # type: ignore[attr-defined]
            if d in a.defaults and func.__defaults__ is not None:
                return func.__defaults__[a.defaults.index(d)]
            if d in a.kw_defaults and func.__kwdefaults__ is not None:
                name = a.kwonlyargs[a.kw_defaults.index(d)].arg
                return func.__kwdefaults__[name]
        return self.eval(d, Env(env.fctx, env.parent))

    # ------------------------------------------------------------------ class instantiation
    def call_class(self, cls: type, args: list[Any], kwargs: dict[str, Any]) -> Any:
        m = self.models.get(cls)
        if m is not None:
            return m(self, *args, **kwargs)
        if isinstance(cls, type) and issubclass(cls, BaseException):
            return ExcValue(cls, tuple(args), self.cur_site())
        if issubclass(cls, enum.Enum):
            from .models import enum_call

            return enum_call(self, cls, *args)
        if not self.is_repo_class(cls):
            return self.call_native(cls, args, kwargs)
        if inspect.isabstract(cls):
            self.raise_(TypeError, f"abstract class {cls.__name__}")

        def thunk() -> Any:
            newf, nowner = self.static_lookup(cls, "__new__")
            if newf is object.__new__ or nowner is object:
                obj = SObj(cls, {}, owner=self.active_runs[-1])
            else:
                f = newf.__func__ if isinstance(newf, staticmethod) else newf
                obj = self.call_function(f, [cls] + args, kwargs)
            if isinstance(obj, SObj) and issubclass(obj.cls, cls):
                initf, iowner = self.static_lookup(cls, "__init__")
                if initf is not _MISSING and iowner is not object:
                    self.call_function(initf, [obj] + args, kwargs)
            return obj

        try:
            mkey = (("new", cls), _argkey(args), _argkey(sorted(kwargs.items())))
            ident = _identkey(args) + _identkey(list(kwargs.values()))
        except TypeError:
            mkey = ident = None
        return self.summarize(mkey, thunk, ident)

    def call_special(self, tag: tuple, self_: Any, args: list[Any], kwargs: dict[str, Any]) -> Any:
        from . import models

        return models.call_special(self, tag, self_, args, kwargs)

    def run_generator(self, fctx: FCtx, clo: Closure | None, node: Any, args: list[Any], kwargs: dict[str, Any]) -> Any:
        """Generators are run eagerly to exhaustion; the yielded values form the (ghost) result sequence."""
        env = Env(fctx, clo.env if clo is not None else None)
        self.bind_args(env, node, args, kwargs)
        out: list[Any] = []
        env.vars["$yield"] = out
        self.call_depth += 1
        try:
            self.exec_body(node.body, env)
        finally:
            self.call_depth -= 1
        return SList(out, owner=self.active_runs[-1])


def _is_generator(node: ast.AST) -> bool:
    if isinstance(node, ast.Lambda):
        return False
    r = getattr(node, "_is_gen", None)
    if r is None:
        r = any(isinstance(n, (ast.Yield, ast.YieldFrom)) for n in _walk_own(node))
        try:
            node._is_gen = r  # type: ignore[attr-defined]
        except AttributeError:
            pass
    return r


def _walk_own(node: ast.AST) -> Any:
    """Walk a function body without descending into nested function definitions."""
    stack = list(ast.iter_child_nodes(node))
    while stack:
        n = stack.pop()
        yield n
        if isinstance(n, (ast.FunctionDef, ast.AsyncFunctionDef, ast.Lambda, ast.ClassDef)):
            continue
        stack.extend(ast.iter_child_nodes(n))


def _identkey(vals: Any) -> tuple:
    out = []
    for v in vals:
        if isinstance(v, SObj):
            out.append(v.oid)
        elif isinstance(v, (list, tuple)):
            out.extend(_identkey(v))
    return tuple(out)


def _argkey(v: Any) -> Any:
    if isinstance(v, (SInt, SBool, SOpaque)):
        return ("t", v.t.get_id())
    if isinstance(v, (list, tuple)):
        return tuple(_argkey(x) for x in v)
    if isinstance(v, SObj):
        return ("o", v.cls, tuple((k, _argkey(x)) for k, x in sorted(v.fields.items())), v.oid if not v.fields else 0)
    if isinstance(v, (SList, SDict, Closure, BoundMethod, ExcValue, SuperProxy)):
        return ("id", id(v))
    if isinstance(v, dict):
        return ("id", id(v))
    if hasattr(v, "chars") and getattr(type(v), "pyvc_symbolic", False):
        return ("symstr", tuple(c if isinstance(c, str) else c.t.get_id() for c in v.chars))
    if getattr(type(v), "pyvc_model", False):
        return ("id", id(v))
    try:
        hash(v)
    except TypeError:
        return ("id", id(v))
    if isinstance(v, (int, str, bool, type(None), float, bytes, enum.Enum, type)):
        return ("c", type(v).__name__, v)
    return ("id", id(v))
