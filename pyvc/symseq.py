"""A sequence of symbolic length whose elements are given by a function of the index (C04: the precalculated periods
of a zone).  len() is a symbolic integer; s[i] checks the bounds (IndexError otherwise, negative indices count from
the end) and returns `getter(eng, i)`."""

from __future__ import annotations

from typing import Any, Callable

from . import sym
from .sym import And, SInt, Unsupported


class SymSeq:
    pyvc_model = True
    pyvc_symbolic = True
    pyvc_pytype = list

    def __init__(self, length: Any, getter: Callable[[Any, Any], Any]) -> None:
        self.length = length
        self.getter = getter
        self._memo: dict[Any, Any] = {}

    def __hash__(self) -> int:
        return id(self)

    def __repr__(self) -> str:
        return f"SymSeq(len={self.length})"

    def pyvc_len(self, eng: Any) -> Any:
        return self.length

    def pyvc_getitem(self, eng: Any, idx: Any) -> Any:
        if isinstance(idx, slice):
            raise Unsupported("slice of a symbolic-length sequence")
        n = self.length
        if isinstance(idx, int) and not isinstance(idx, bool) and idx < 0:
            idx = n + idx
        elif isinstance(idx, SInt) and not eng.provable(idx >= 0):
            if eng.truth(idx < 0):
                idx = n + idx
        if not eng.truth(And(idx >= 0, idx < n)):
            eng.raise_(IndexError, "list index out of range")
        key = idx.t.get_id() if isinstance(idx, SInt) else ("c", idx)
        if key not in self._memo:
            self._memo[key] = self.getter(eng, idx)
        return self._memo[key]

    def pyvc_binop(self, eng: Any, dn: str, other: Any, reflected: bool) -> Any:
        raise Unsupported("operator on a symbolic-length sequence")

    def pyvc_compare(self, eng: Any, dn: str, other: Any, reflected: bool) -> Any:
        return NotImplemented


_ = sym
