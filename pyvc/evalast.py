"""AST evaluation mixin: expressions and statements of the supported Python subset."""

from __future__ import annotations

import ast
import enum
import operator
import types
from typing import Any

import z3

from . import sym, symstr
from .core import NoFork as _NoFork
from .core import PathEnd
from .sym import SBool, SInt, SOpaque, Unsupported
from .values import (
    OPAQUE_STR,
    BoundMethod,
    Closure,
    ExcValue,
    PyRaise,
    SDict,
    SList,
    SObj,
    SStr,
    SuperProxy,
)

from .values import MISSING as _MISSING


_INFEASIBLE = object()


class _Return(Exception):
    def __init__(self, v: Any) -> None:
        self.v = v


class _Break(Exception):
    pass


class _Continue(Exception):
    pass


_BINOPS = {
    ast.Add: (operator.add, "__add__", "__radd__"),
    ast.Sub: (operator.sub, "__sub__", "__rsub__"),
    ast.Mult: (operator.mul, "__mul__", "__rmul__"),
    ast.FloorDiv: (operator.floordiv, "__floordiv__", "__rfloordiv__"),
    ast.Mod: (operator.mod, "__mod__", "__rmod__"),
    ast.Pow: (operator.pow, "__pow__", "__rpow__"),
    ast.LShift: (operator.lshift, "__lshift__", "__rlshift__"),
    ast.RShift: (operator.rshift, "__rshift__", "__rrshift__"),
    ast.BitAnd: (operator.and_, "__and__", "__rand__"),
    ast.BitOr: (operator.or_, "__or__", "__ror__"),
    ast.BitXor: (operator.xor, "__xor__", "__rxor__"),
    ast.Div: (operator.truediv, "__truediv__", "__rtruediv__"),
    ast.MatMult: (operator.matmul, "__matmul__", "__rmatmul__"),
}

_CMPOPS = {
    ast.Lt: (operator.lt, "__lt__", "__gt__"),
    ast.LtE: (operator.le, "__le__", "__ge__"),
    ast.Gt: (operator.gt, "__gt__", "__lt__"),
    ast.GtE: (operator.ge, "__ge__", "__le__"),
    ast.Eq: (operator.eq, "__eq__", "__eq__"),
    ast.NotEq: (operator.ne, "__ne__", "__ne__"),
}


def _symint(v: Any) -> bool:
    return isinstance(v, (SInt, SBool))


class AstMixin:
    _site = "?"

    # ================================================================== statements
    def exec_body(self, body: list[ast.stmt], env: Any) -> Any:
        try:
            self.exec_block(body, env)
        except _Return as r:
            return r.v
        return None

    def exec_block(self, body: list[ast.stmt], env: Any) -> None:
        for st in body:
            self.exec_stmt(st, env)

    def exec_stmt(self, st: ast.stmt, env: Any) -> None:
        self._site = f"{env.fctx.filename.split('/repo/')[-1]}:{getattr(st, 'lineno', 0)}"
        m = getattr(self, "st_" + type(st).__name__, None)
        if m is None:
            raise Unsupported(f"statement {type(st).__name__} at {self._site}")
        m(st, env)

    def st_Expr(self, st: ast.Expr, env: Any) -> None:
        if isinstance(st.value, ast.Constant):
            return
        self.eval(st.value, env)

    def st_Pass(self, st: ast.Pass, env: Any) -> None:
        return

    def st_Return(self, st: ast.Return, env: Any) -> None:
        raise _Return(self.eval(st.value, env) if st.value is not None else None)

    def st_Assign(self, st: ast.Assign, env: Any) -> None:
        v = self.eval(st.value, env)
        for t in st.targets:
            self.assign(t, v, env)

    def st_AnnAssign(self, st: ast.AnnAssign, env: Any) -> None:
        if st.value is not None:
            self.assign(st.target, self.eval(st.value, env), env)

    def st_AugAssign(self, st: ast.AugAssign, env: Any) -> None:
        t = st.target
        if isinstance(t, ast.Name):
            cur = self.lookup_name(env, t.id)
            self.assign(t, self.binop(type(st.op), cur, self.eval(st.value, env)), env)
        elif isinstance(t, ast.Attribute):
            obj = self.eval(t.value, env)
            name = self.mangled(t.attr, env)
            cur = self.get_attr(obj, name)
            self.set_attr(obj, name, self.binop(type(st.op), cur, self.eval(st.value, env)))
        elif isinstance(t, ast.Subscript):
            obj = self.eval(t.value, env)
            idx = self.eval_index(t.slice, env)
            cur = self.subscript(obj, idx)
            self.store_subscript(obj, idx, self.binop(type(st.op), cur, self.eval(st.value, env)))
        else:
            raise Unsupported("augmented assignment target")

    def st_If(self, st: ast.If, env: Any) -> None:
        if self.truth(self.eval(st.test, env)):
            self.exec_block(st.body, env)
        else:
            self.exec_block(st.orelse, env)

    def st_Raise(self, st: ast.Raise, env: Any) -> None:
        if st.exc is None:
            cur = env.vars.get("$exc")
            if cur is None:
                self.raise_(RuntimeError, "no active exception")
            raise PyRaise(cur)
        v = self.eval(st.exc, env)
        if isinstance(v, type) and issubclass(v, BaseException):
            v = ExcValue(v, (), self._site)
        if isinstance(v, BaseException):
            v = ExcValue(type(v), v.args, self._site)
        if not isinstance(v, ExcValue):
            raise Unsupported(f"raise of {v!r}")
        if st.cause is not None:
            v.cause = self.eval(st.cause, env)
        raise PyRaise(v)

    def st_Assert(self, st: ast.Assert, env: Any) -> None:
        if not self.truth(self.eval(st.test, env)):
            raise PyRaise(ExcValue(AssertionError, (), self._site))

    def st_Import(self, st: ast.Import, env: Any) -> None:
        for a in st.names:
            mod = __import__(a.name)
            if a.asname:
                import importlib

                env.vars[a.asname] = importlib.import_module(a.name)
            else:
                env.vars[a.name.split(".")[0]] = mod

    def st_ImportFrom(self, st: ast.ImportFrom, env: Any) -> None:
        import importlib

        pkg = env.fctx.globals.get("__package__") or env.fctx.globals.get("__name__", "").rpartition(".")[0]
        name = ("." * st.level) + (st.module or "")
        mod = importlib.import_module(name, pkg) if st.level else importlib.import_module(st.module or "")
        for a in st.names:
            try:
                v = getattr(mod, a.name)
            except AttributeError:
                v = importlib.import_module(f"{mod.__name__}.{a.name}")
            env.vars[a.asname or a.name] = v

    def st_Global(self, st: ast.Global, env: Any) -> None:
        raise Unsupported("global statement")

    def st_Nonlocal(self, st: ast.Nonlocal, env: Any) -> None:
        env.vars.setdefault("$nonlocal", set()).update(st.names)

    def st_Break(self, st: ast.Break, env: Any) -> None:
        raise _Break()

    def st_Continue(self, st: ast.Continue, env: Any) -> None:
        raise _Continue()

    def st_Delete(self, st: ast.Delete, env: Any) -> None:
        for t in st.targets:
            if isinstance(t, ast.Name):
                env.vars.pop(t.id, None)
            elif isinstance(t, ast.Subscript):
                obj = self.eval(t.value, env)
                idx = self.eval_index(t.slice, env)
                if isinstance(obj, SDict) and not sym.is_sym(idx):
                    if idx not in obj.items:
                        self.raise_(KeyError, str(idx))
                    had = obj.items[idx]
                    self.log_write(obj, idx, had, True) if not self.is_fresh(obj) else None
                    del obj.items[idx]
                else:
                    raise Unsupported("del subscript")
            else:
                raise Unsupported("del target")

    def st_FunctionDef(self, st: ast.FunctionDef, env: Any) -> None:
        clo: Any = Closure(st, env, env.fctx, st.name)
        for d in reversed(st.decorator_list):
            dv = self.eval(d, env)
            if dv in (staticmethod, classmethod):
                raise Unsupported("decorated local function")
            clo = self.call_value(dv, [clo], {})
        env.vars[st.name] = clo

    def st_With(self, st: ast.With, env: Any) -> None:
        from . import models

        models.exec_with(self, st, env)

    def st_Try(self, st: ast.Try, env: Any) -> None:
        try:
            try:
                self.exec_block(st.body, env)
            except PyRaise as r:
                exc = r.exc
                for h in st.handlers:
                    if h.type is None:
                        match = True
                    else:
                        ht = self.eval(h.type, env)
                        hts = ht if isinstance(ht, tuple) else (ht,)
                        match = any(isinstance(t, type) and issubclass(exc.etype, t) for t in hts)
                    if match:
                        if h.name:
                            env.vars[h.name] = exc
                        old = env.vars.get("$exc")
                        env.vars["$exc"] = exc
                        try:
                            self.exec_block(h.body, env)
                        finally:
                            env.vars["$exc"] = old
                        break
                else:
                    raise
            else:
                self.exec_block(st.orelse, env)
        finally:
            if st.finalbody:
                self.exec_block(st.finalbody, env)

    def st_While(self, st: ast.While, env: Any) -> None:
        ordinal = self.loop_ordinal(st, env)
        spec = self.loop_specs.get((env.fctx.qualname, ordinal))
        if spec is not None:
            self.exec_loop_with_invariant(st, env, spec, ordinal)
            return
        limit = self.unroll.get(env.fctx.qualname, self.default_unroll)
        n = 0
        broke = False
        while True:
            c = self.eval(st.test, env)
            if sym.is_sym(c):
                if n >= limit:
                    if limit == 0:
                        raise Unsupported(f"while loop #{ordinal} with symbolic condition and no invariant in {env.fctx.qualname}")
                    # unwinding assertion: the loop must have terminated by now
                    self.oblige(sym.Not(SBool.lift(c) if False else self.as_bool(c)), f"{env.fctx.qualname}#loop{ordinal}.unwind<={limit}", kind="unwind", site=self._site)
                    break
            if not self.truth(c):
                break
            n += 1
            if n > 100000:
                raise Unsupported("concrete loop too long")
            try:
                self.exec_block(st.body, env)
            except _Break:
                broke = True
                break
            except _Continue:
                continue
        if not broke:
            self.exec_block(st.orelse, env)

    def st_For(self, st: ast.For, env: Any) -> None:
        it = self.eval(st.iter, env)
        ordinal = self.loop_ordinal(st, env)
        if isinstance(it, SymRange):
            self.exec_sym_range(st, env, it, ordinal)
            return
        items = self.iterate(it)
        broke = False
        for x in items:
            self.assign(st.target, x, env)
            try:
                self.exec_block(st.body, env)
            except _Break:
                broke = True
                break
            except _Continue:
                continue
        if not broke:
            self.exec_block(st.orelse, env)

    def exec_sym_range(self, st: ast.For, env: Any, r: "SymRange", ordinal: int) -> None:
        spec = self.loop_specs.get((env.fctx.qualname, ordinal))
        if spec is not None:
            self.exec_sym_range_with_invariant(st, env, r, spec, ordinal)
            return
        limit = self.unroll.get(env.fctx.qualname, self.default_unroll)
        if limit == 0:
            raise Unsupported(f"for loop #{ordinal} over symbolic range without bound in {env.fctx.qualname}")
        i = r.start
        n = 0
        broke = False
        while True:
            c = (i < r.stop) if r.step > 0 else (i > r.stop)
            if sym.is_sym(c) and n >= limit:
                self.oblige(sym.Not(c), f"{env.fctx.qualname}#loop{ordinal}.unwind<={limit}", kind="unwind", site=self._site)
                break
            if not self.truth(c):
                break
            n += 1
            self.assign(st.target, i, env)
            try:
                self.exec_block(st.body, env)
            except _Break:
                broke = True
                break
            except _Continue:
                pass
            i = i + r.step
        if not broke:
            self.exec_block(st.orelse, env)

    def exec_sym_range_with_invariant(self, st: ast.For, env: Any, r: "SymRange", spec: Any, ordinal: int) -> None:
        """`for i in range(a, b)` with an inductive invariant I over the loop variables, where the loop target stands
        for "the next index to be processed" (a at entry, b at exit):  I holds at entry; from an arbitrary state with
        a <= k < b and I, one iteration re-establishes I for k + 1 (that path ends); the code after the loop runs from an
        arbitrary state with I at k == max(a, b).  A for loop over a range always terminates: no variant."""
        if r.step != 1 or not isinstance(st.target, ast.Name):
            raise Unsupported("for-loop invariant: only `for name in range(a, b)`")
        qn = env.fctx.qualname
        ns = _NS(self, env)
        cns = getattr(self, "contract_ns", None)
        tgt = st.target.id
        had = env.vars.get(tgt, _MISSING)
        env.vars[tgt] = r.start
        self.oblige(spec.invariant(ns, cns), f"{qn}#loop{ordinal}.init", kind="loop-init", site=self._site)
        for name in sorted(_assigned_names(st)):
            if name == tgt:
                continue
            cur = env.vars.get(name, _MISSING)
            if cur is _MISSING:
                continue
            if isinstance(cur, (SBool, bool)):
                env.vars[name] = sym.fresh_bool(name)
            elif isinstance(cur, (SInt, int)):
                env.vars[name] = sym.fresh_int(name)
            else:
                hv = getattr(spec, "havoc", None)
                if hv is None or name not in hv:
                    raise Unsupported(f"loop havoc of non-integer variable {name}")
                env.vars[name] = hv[name](self, name)
        k = sym.fresh_int(tgt)
        self.assume(sym.And(k >= r.start, sym.Or(k <= r.stop, k == r.start)))
        env.vars[tgt] = k
        self.assume(spec.invariant(ns, cns))
        if self.truth(k < r.stop):
            try:
                self.exec_block(st.body, env)
            except _Break:
                return
            except _Continue:
                pass
            env.vars[tgt] = k + 1
            self.oblige(spec.invariant(ns, cns), f"{qn}#loop{ordinal}.preserve", kind="loop-preserve", site=self._site)
            raise PathEnd()
        # loop finished: Python leaves the target at the last index processed (or untouched when the range was empty)
        if self.truth(r.start < r.stop):
            env.vars[tgt] = r.stop - 1
        elif had is _MISSING:
            env.vars.pop(tgt, None)
        else:
            env.vars[tgt] = had
        self.exec_block(st.orelse, env)

    def loop_ordinal(self, st: ast.AST, env: Any) -> int:
        node = env.fctx.node
        cache = getattr(node, "_loops", None)
        if cache is None:
            cache = [n for n in ast.walk(node) if isinstance(n, (ast.While, ast.For))]
            cache.sort(key=lambda n: (n.lineno, n.col_offset))
            try:
                node._loops = cache  # type: ignore[attr-defined]
            except AttributeError:
                pass
        for i, n in enumerate(cache):
            if n is st:
                return i
        return -1

    def exec_loop_with_invariant(self, st: ast.While, env: Any, spec: Any, ordinal: int) -> None:
        """Standard inductive treatment: establish, havoc the assigned variables, assume, then either run one
        arbitrary iteration and re-establish (path ends), or leave the loop with the negated guard."""
        qn = env.fctx.qualname
        ns = _NS(self, env)
        self.oblige(spec.invariant(ns, getattr(self, 'contract_ns', None)), f"{qn}#loop{ordinal}.init", kind="loop-init", site=self._site)
        assigned = sorted(_assigned_names(st))
        for name in assigned:
            cur = env.vars.get(name, _MISSING)
            if cur is _MISSING:
                continue
            if isinstance(cur, (SBool, bool)):
                env.vars[name] = sym.fresh_bool(name)
            elif isinstance(cur, (SInt, int)):
                env.vars[name] = sym.fresh_int(name)
            else:
                raise Unsupported(f"loop havoc of non-integer variable {name}")
        self.assume(spec.invariant(ns, getattr(self, 'contract_ns', None)))
        v0 = spec.variant(ns, getattr(self, 'contract_ns', None)) if spec.variant is not None else None
        if self.truth(self.eval(st.test, env)):
            try:
                self.exec_block(st.body, env)
            except _Break:
                return
            except _Continue:
                pass
            self.oblige(spec.invariant(ns, getattr(self, 'contract_ns', None)), f"{qn}#loop{ordinal}.preserve", kind="loop-preserve", site=self._site)
            if v0 is not None:
                v1 = spec.variant(ns, getattr(self, 'contract_ns', None))
                self.oblige(sym.And(v0 >= 0, v1 < v0), f"{qn}#loop{ordinal}.variant", kind="loop-variant", site=self._site)
            raise PathEnd()
        self.exec_block(st.orelse, env)

    def st_Match(self, st: ast.Match, env: Any) -> None:
        subj = self.eval(st.subject, env)
        for case in st.cases:
            binds: dict[str, Any] = {}
            c = self.match_pattern(case.pattern, subj, env, binds)
            if c is False:
                continue
            if self.truth(c):
                saved = dict(env.vars)
                env.vars.update(binds)
                if case.guard is not None and not self.truth(self.eval(case.guard, env)):
                    env.vars.clear()
                    env.vars.update(saved)
                    continue
                self.exec_block(case.body, env)
                return

    def match_pattern(self, p: ast.pattern, subj: Any, env: Any, binds: dict) -> Any:
        if isinstance(p, ast.MatchValue):
            return self.compare(ast.Eq, subj, self.eval(p.value, env))
        if isinstance(p, ast.MatchSingleton):
            return subj is p.value
        if isinstance(p, ast.MatchOr):
            return sym.Or(*[self.as_bool(self.match_pattern(q, subj, env, binds)) for q in p.patterns])
        if isinstance(p, ast.MatchAs):
            c = True if p.pattern is None else self.match_pattern(p.pattern, subj, env, binds)
            if p.name:
                binds[p.name] = subj
            return c
        if isinstance(p, ast.MatchSequence):
            if not isinstance(subj, (tuple, list)) or len(subj) != len(p.patterns):
                return False
            return sym.And(*[self.as_bool(self.match_pattern(q, s, env, binds)) for q, s in zip(p.patterns, subj)])
        if isinstance(p, ast.MatchClass):
            cls = self.eval(p.cls, env)
            if p.patterns or p.kwd_patterns:
                raise Unsupported("class pattern with sub-patterns")
            return self.isinstance_(subj, cls)
        raise Unsupported(f"pattern {type(p).__name__}")

    # ================================================================== assignment targets
    def assign(self, t: ast.expr, v: Any, env: Any) -> None:
        if isinstance(t, ast.Name):
            nl = env.vars.get("$nonlocal")
            if nl and t.id in nl:
                self.assign_name(env, t.id, v, "nonlocal")
            else:
                env.vars[t.id] = v
        elif isinstance(t, (ast.Tuple, ast.List)):
            items = self.iterate(v)
            if any(isinstance(e, ast.Starred) for e in t.elts):
                raise Unsupported("starred assignment")
            if len(items) != len(t.elts):
                self.raise_(ValueError, "unpack length mismatch")
            for e, x in zip(t.elts, items):
                self.assign(e, x, env)
        elif isinstance(t, ast.Attribute):
            obj = self.eval(t.value, env)
            self.set_attr(obj, self.mangled(t.attr, env), v)
        elif isinstance(t, ast.Subscript):
            obj = self.eval(t.value, env)
            self.store_subscript(obj, self.eval_index(t.slice, env), v)
        else:
            raise Unsupported(f"assignment target {type(t).__name__}")

    def mangled(self, attr: str, env: Any) -> str:
        if attr.startswith("__") and not attr.endswith("__"):
            dc = env.fctx.defcls
            cname = dc.__name__ if dc is not None else None
            if cname is None:
                # function nested in a method: use lexical class from AST
                from .extract import enclosing_class_name

                cname = enclosing_class_name(env.fctx.node)
            if cname:
                return "_" + cname.lstrip("_") + attr
        return attr

    # ================================================================== expressions
    def eval(self, e: ast.expr, env: Any) -> Any:
        m = getattr(self, "ex_" + type(e).__name__, None)
        if m is None:
            raise Unsupported(f"expression {type(e).__name__} at {self._site}")
        return m(e, env)

    def ex_Constant(self, e: ast.Constant, env: Any) -> Any:
        return e.value

    def ex_Name(self, e: ast.Name, env: Any) -> Any:
        n = e.id
        if n.startswith("__") and not n.endswith("__"):
            # private module/class-level names referenced inside a class body are mangled as well
            v = self._lookup_opt(env, self.mangled(n, env))
            if v is not _MISSING:
                return v
        return self.lookup_name(env, n)

    def _lookup_opt(self, env: Any, name: str) -> Any:
        e = env
        while e is not None:
            if name in e.vars:
                return e.vars[name]
            e = e.parent
        f = env.fctx
        if name in f.freevars:
            return f.freevars[name]
        if name in f.globals:
            return f.globals[name]
        return _MISSING

    def ex_Attribute(self, e: ast.Attribute, env: Any) -> Any:
        obj = self.eval(e.value, env)
        return self.get_attr(obj, self.mangled(e.attr, env), env)

    def ex_Tuple(self, e: ast.Tuple, env: Any) -> Any:
        return tuple(self.eval_elts(e.elts, env))

    def ex_List(self, e: ast.List, env: Any) -> Any:
        return SList(self.eval_elts(e.elts, env), owner=self.active_runs[-1])

    def ex_Set(self, e: ast.Set, env: Any) -> Any:
        vals = self.eval_elts(e.elts, env)
        if not self.all_concrete(vals):
            raise Unsupported("set with symbolic elements")
        return set(vals)

    def ex_Dict(self, e: ast.Dict, env: Any) -> Any:
        d: dict[Any, Any] = {}
        for k, v in zip(e.keys, e.values):
            if k is None:
                raise Unsupported("dict unpacking")
            kv = self.eval(k, env)
            if sym.is_sym(kv):
                raise Unsupported("symbolic dict key")
            d[kv] = self.eval(v, env)
        return SDict(d, owner=self.active_runs[-1])

    def eval_elts(self, elts: list[ast.expr], env: Any) -> list[Any]:
        out: list[Any] = []
        for x in elts:
            if isinstance(x, ast.Starred):
                out.extend(self.iterate(self.eval(x.value, env)))
            else:
                out.append(self.eval(x, env))
        return out

    def ex_UnaryOp(self, e: ast.UnaryOp, env: Any) -> Any:
        v = self.eval(e.operand, env)
        if isinstance(e.op, ast.Not):
            t = self.truth_value(v)
            return sym.Not(t)
        if isinstance(e.op, ast.USub):
            if isinstance(v, SObj) or self.is_repo_object(v):
                return self.call_dunder(v, "__neg__", [])
            return -v
        if isinstance(e.op, ast.UAdd):
            if isinstance(v, SObj) or self.is_repo_object(v):
                return self.call_dunder(v, "__pos__", [])
            return +v
        if isinstance(e.op, ast.Invert):
            if isinstance(v, enum.Flag) and not isinstance(v, int):
                return (~v).value if False else v.__class__(~v.value & sum(m.value for m in v.__class__)).value if False else ~v
            if isinstance(v, SBool):
                return -(sym.mk_int(SInt.lift(v))) - 1
            return ~v
        raise Unsupported("unary op")

    def ex_BinOp(self, e: ast.BinOp, env: Any) -> Any:
        a = self.eval(e.left, env)
        b = self.eval(e.right, env)
        return self.binop(type(e.op), a, b)

    def binop(self, op: type, a: Any, b: Any) -> Any:
        fn, dn, rdn = _BINOPS[op]
        if getattr(type(a), "pyvc_model", False) or getattr(type(b), "pyvc_model", False):
            # assumed contracts of foreign (stdlib) types: dispatched before Python's own operator protocol
            r = NotImplemented
            if getattr(type(a), "pyvc_model", False):
                r = a.pyvc_binop(self, dn, b, False)
            if r is NotImplemented and getattr(type(b), "pyvc_model", False):
                r = b.pyvc_binop(self, dn, a, True)
            if r is NotImplemented:
                self.raise_(TypeError, f"unsupported operand types for {dn}")
            return r
        a_obj = isinstance(a, SObj) or self.is_repo_object(a)
        b_obj = isinstance(b, SObj) or self.is_repo_object(b)
        if a_obj or b_obj:
            if a_obj:
                r = self.call_dunder(a, dn, [b], missing_ok=True)
                if r is not NotImplemented:
                    return r
            if b_obj:
                r = self.call_dunder(b, rdn, [a], missing_ok=True)
                if r is not NotImplemented:
                    return r
            self.raise_(TypeError, f"unsupported operand types for {dn}")
        if op is ast.BitOr and (isinstance(a, (type, types.UnionType)) or isinstance(b, (type, types.UnionType))):
            return fn(a, b)
        if _symint(a) or _symint(b):
            # non-int Flag/Enum members combined with a symbolic member of the same enum: use the integer values
            flagcls = None
            if isinstance(a, enum.Enum) and not isinstance(a, int) and isinstance(a.value, int):
                flagcls, a = type(a), a.value
            if isinstance(b, enum.Enum) and not isinstance(b, int) and isinstance(b.value, int):
                flagcls, b = type(b), b.value
            if flagcls is not None:
                r = fn(a, b)
                if isinstance(r, int) and not isinstance(r, bool):
                    try:
                        return flagcls(r)
                    except ValueError:
                        self.raise_(ValueError, "invalid flag value")
                return r
            if op in (ast.FloorDiv, ast.Mod):
                if isinstance(a, float) or isinstance(b, float):
                    raise Unsupported("float arithmetic")
                zero = b == 0
                if self.truth(zero):
                    self.raise_(ZeroDivisionError, "division by zero")
            if op is ast.Div:
                return SymRatio(a, b, self)
            if op is ast.Pow and isinstance(a, int) and a == 2 and _symint(b):
                raise Unsupported("2 ** symbolic")
            if op is ast.BitAnd and isinstance(a, SBool) and isinstance(b, SBool):
                return sym.And(a, b)
            if op in (ast.LShift, ast.RShift) and isinstance(b, SInt) and sym._small_range(b) is None:
                # shift by an unbounded symbolic amount: Python raises ValueError for negative counts; otherwise
                # a << k == a * 2**k with 2**k an uninterpreted positive power (enough for sign / bound reasoning)
                if self.truth(b < 0):
                    self.raise_(ValueError, "negative shift count")
                p2 = sym.mk_int(sym.POW2(SInt.lift(b)))
                self.assume(p2 >= 1)
                if op is ast.LShift:
                    return a * p2
                return sym.floordiv(a, p2) if False else sym.mk_int(sym.SHR(SInt.lift(a), SInt.lift(b)))
            if op is ast.Mult and (isinstance(a, float) or isinstance(b, float)):
                f, i = (a, b) if isinstance(a, float) else (b, a)
                if f.is_integer() and abs(f) < 2**53 and isinstance(i, SInt):
                    from .models import SymFloatInt

                    return SymFloatInt(i * int(f))
            if isinstance(a, float) or isinstance(b, float):
                raise Unsupported("float arithmetic with symbolic operand")
            if isinstance(a, SBool):
                a = sym.mk_int(SInt.lift(a))
            if isinstance(b, SBool):
                b = sym.mk_int(SInt.lift(b))
            r = fn(a, b)
            if r is NotImplemented:
                raise Unsupported(f"binary op {dn} on {type(a).__name__}/{type(b).__name__}")
            return r
        if isinstance(a, SymRatio) or isinstance(b, SymRatio):
            if op is ast.Add:
                return a + b
            if op is ast.Sub and isinstance(a, SymRatio):
                return a - b
            raise Unsupported("float arithmetic (ratio)")
        if isinstance(a, (SList, SStr, SDict)) or isinstance(b, (SList, SStr, SDict)):
            return self.container_binop(op, a, b)
        try:
            return fn(a, b)
        except ZeroDivisionError:
            self.raise_(ZeroDivisionError, "division by zero")
        except (TypeError, ValueError, OverflowError) as ex:
            self.raise_(type(ex), str(ex))

    def container_binop(self, op: type, a: Any, b: Any) -> Any:
        if isinstance(a, SStr) or isinstance(b, SStr):
            return OPAQUE_STR
        if op is ast.Add and isinstance(a, SList) and isinstance(b, (SList, list)):
            return SList(a.items + (b.items if isinstance(b, SList) else list(b)), owner=self.active_runs[-1])
        if op is ast.Add and isinstance(a, list) and isinstance(b, SList):
            return SList(list(a) + b.items, owner=self.active_runs[-1])
        if op is ast.Mult and isinstance(a, SList) and isinstance(b, int):
            return SList(a.items * b, owner=self.active_runs[-1])
        raise Unsupported("container operator")

    def call_dunder(self, obj: Any, name: str, args: list[Any], missing_ok: bool = False) -> Any:
        cls = obj.cls if isinstance(obj, SObj) else type(obj)
        f, owner = self.static_lookup(cls, name)
        if f is _MISSING or owner is object:
            if missing_ok:
                return NotImplemented
            self.raise_(TypeError, f"{cls.__name__} has no {name}")
        if not isinstance(f, types.FunctionType):
            if isinstance(obj, SObj):
                raise Unsupported(f"native dunder {name} on symbolic object")
            return self.call_native(getattr(obj, name), args, {})
        return self.call_function(f, [obj] + args, {})

    def ex_BoolOp(self, e: ast.BoolOp, env: Any) -> Any:
        is_and = isinstance(e.op, ast.And)
        # try a pure merge first: all operands evaluate without forking to bools
        vals = e.values
        cur = self.eval(vals[0], env)
        for nxt in vals[1:]:
            if not sym.is_sym(cur) and not isinstance(cur, (SObj,)):
                t = self.truth(cur)
                if is_and and not t:
                    return cur
                if (not is_and) and t:
                    return cur
                cur = self.eval(nxt, env)
                continue
            if isinstance(cur, SBool) and _pure_expr(nxt):
                # evaluate the right operand under the guard, merge as a formula
                guard = cur if is_and else sym.Not(cur)
                r = self.eval_guarded(nxt, env, guard)
                if r is _INFEASIBLE:
                    # the right operand is never evaluated on this path
                    continue
                if r is not _MISSING and isinstance(r, (SBool, bool)):
                    cur = sym.And(cur, r) if is_and else sym.Or(cur, r)
                    continue
            t = self.truth(cur)
            if is_and and not t:
                return cur
            if (not is_and) and t:
                return cur
            cur = self.eval(nxt, env)
        return cur

    def eval_guarded(self, e: ast.expr, env: Any, guard: Any) -> Any:
        """Evaluate a side-effect-free expression under an extra assumption without forking the path.
        Returns _MISSING when the expression forks, raises or writes (caller then forks normally)."""
        self.solver.push()
        n = len(self.pc)
        wmark = len(self.writes)
        g = SBool.lift(guard)
        extra: list[Any] = []
        res: Any = _MISSING
        try:
            self.pc.append(g)
            self.pc_dec.append(True)
            self.solver.add(g)
            self.no_fork += 1
            try:
                if not self.feasible(z3.BoolVal(True)):
                    res = _INFEASIBLE
                else:
                    res = self.eval(e, env)
            except (_NoFork, PyRaise):
                res = _MISSING
            except PathEnd:
                res = _INFEASIBLE
            finally:
                self.no_fork -= 1
            if len(self.writes) != wmark:
                self._rollback(wmark)
                res = _MISSING
            extra = self.pc[n + 1 :]
        finally:
            del self.pc[n:]
            del self.pc_dec[n:]
            self.solver.pop()
        if res is _INFEASIBLE:
            return res
        if res is not _MISSING and extra:
            self.assume(sym.mk_bool(z3.Implies(g, z3.And(*extra))))
        return res

    def ex_IfExp(self, e: ast.IfExp, env: Any) -> Any:
        c = self.truth_value(self.eval(e.test, env))
        if isinstance(c, bool):
            return self.eval(e.body if c else e.orelse, env)
        if _pure_expr(e.body) and _pure_expr(e.orelse):
            a = self.eval_guarded(e.body, env, c)
            if a is _INFEASIBLE:
                self.assume(sym.Not(c), decision=True)
                return self.eval(e.orelse, env)
            if a is not _MISSING:
                b = self.eval_guarded(e.orelse, env, sym.Not(c))
                if b is _INFEASIBLE:
                    self.assume(c, decision=True)
                    return a
                if b is not _MISSING:
                    try:
                        return sym.ite(c, a, b)
                    except Unsupported:
                        pass
        if self.truth(c):
            return self.eval(e.body, env)
        return self.eval(e.orelse, env)

    def ex_Compare(self, e: ast.Compare, env: Any) -> Any:
        left = self.eval(e.left, env)
        result: Any = True
        for i, (op, rhs) in enumerate(zip(e.ops, e.comparators)):
            right = self.eval(rhs, env)
            c = self.compare(type(op), left, right)
            if i == len(e.ops) - 1 and result is True:
                return c
            if isinstance(c, (SBool, bool)) and isinstance(result, (SBool, bool)) and _pure_expr_list(e.comparators[i + 1 :]):
                result = sym.And(result, c)
                if result is False:
                    return False
            else:
                if not self.truth(c):
                    return c
            left = right
        return result

    def compare(self, op: type, a: Any, b: Any) -> Any:
        if op is ast.Is:
            return self.identical(a, b)
        if op is ast.IsNot:
            return sym.Not(self.identical(a, b))
        if op is ast.In:
            return self.contains(b, a)
        if op is ast.NotIn:
            return sym.Not(self.contains(b, a))
        fn, dn, rdn = _CMPOPS[op]
        if getattr(type(a), "pyvc_model", False) or getattr(type(b), "pyvc_model", False):
            r = NotImplemented
            if getattr(type(a), "pyvc_model", False):
                r = a.pyvc_compare(self, dn, b, False)
            if r is NotImplemented and getattr(type(b), "pyvc_model", False):
                r = b.pyvc_compare(self, dn, a, True)
            if r is NotImplemented:
                if op is ast.Eq:
                    return a is b
                if op is ast.NotEq:
                    return a is not b
                self.raise_(TypeError, f"'{dn}' not supported between instances")
            return r
        a_obj = isinstance(a, SObj) or self.is_repo_object(a)
        b_obj = isinstance(b, SObj) or self.is_repo_object(b)
        if a_obj or b_obj:
            if a_obj:
                r = self.call_dunder(a, dn, [b], missing_ok=True)
                if r is not NotImplemented:
                    return r
            if b_obj:
                r = self.call_dunder(b, rdn, [a], missing_ok=True)
                if r is not NotImplemented:
                    return r
            if op is ast.Eq:
                return self.identical(a, b)
            if op is ast.NotEq:
                # no __ne__ of their own: object.__ne__ inverts the type's __eq__ (unless that is NotImplemented)
                for x, y, is_obj in ((a, b, a_obj), (b, a, b_obj)):
                    if is_obj:
                        r = self.call_dunder(x, "__eq__", [y], missing_ok=True)
                        if r is not NotImplemented:
                            return sym.Not(self.as_bool(r))
                return sym.Not(self.identical(a, b))
            self.raise_(TypeError, f"'{dn}' not supported between instances")
        if _symint(a) or _symint(b):
            if isinstance(a, enum.Enum) and not isinstance(a, int) and isinstance(a.value, int):
                a = a.value
            if isinstance(b, enum.Enum) and not isinstance(b, int) and isinstance(b.value, int):
                b = b.value
            if a is None or b is None or isinstance(a, (str, tuple)) or isinstance(b, (str, tuple)):
                if op is ast.Eq:
                    return False
                if op is ast.NotEq:
                    return True
                self.raise_(TypeError, "comparison of int with non-int")
            if isinstance(a, float) or isinstance(b, float):
                raise Unsupported("float comparison")
            if isinstance(a, SymRatio) or isinstance(b, SymRatio):
                raise Unsupported("float comparison (ratio)")
            if isinstance(a, SBool) and isinstance(b, (SBool, bool)) and op in (ast.Eq, ast.NotEq):
                r = sym.Iff(a, b)
                return r if op is ast.Eq else sym.Not(r)
            if isinstance(a, SBool):
                a = sym.mk_int(SInt.lift(a))
            if isinstance(b, SBool):
                b = sym.mk_int(SInt.lift(b))
            r = fn(a, b)
            if r is NotImplemented:
                raise Unsupported("comparison")
            return r
        if isinstance(a, SOpaque) or isinstance(b, SOpaque):
            if op in (ast.Eq, ast.NotEq):
                if isinstance(a, SOpaque) and isinstance(b, SOpaque) and a.kind == b.kind:
                    r = sym.mk_bool(a.t == b.t)
                else:
                    r = self.opaque_eq_const(a, b)
                return r if op is ast.Eq else sym.Not(r)
            raise Unsupported("ordering of opaque values")
        if isinstance(a, tuple) and isinstance(b, tuple) and not (self.all_concrete(a) and self.all_concrete(b)):
            return self.tuple_compare(op, a, b)
        if isinstance(a, (SList, SDict, SStr)) or isinstance(b, (SList, SDict, SStr)):
            if op in (ast.Eq, ast.NotEq) and isinstance(a, SList) and isinstance(b, SList):
                r = self.tuple_compare(ast.Eq, tuple(a.items), tuple(b.items))
                return r if op is ast.Eq else sym.Not(r)
            raise Unsupported("container comparison")
        try:
            return fn(a, b)
        except TypeError as ex:
            self.raise_(TypeError, str(ex))

    def opaque_eq_const(self, a: Any, b: Any) -> Any:
        o, c = (a, b) if isinstance(a, SOpaque) else (b, a)
        from .models import opaque_const

        k = opaque_const(o.kind, c)
        if k is None:
            return False
        return sym.mk_bool(o.t == k)

    def tuple_compare(self, op: type, a: tuple, b: tuple) -> Any:
        if op in (ast.Eq, ast.NotEq):
            if len(a) != len(b):
                r: Any = False
            else:
                r = sym.And(*[self.as_bool(self.compare(ast.Eq, x, y)) for x, y in zip(a, b)]) if a else True
            return r if op is ast.Eq else sym.Not(r)
        # lexicographic
        strict = op in (ast.Lt, ast.Gt)
        lt_op = ast.Lt if op in (ast.Lt, ast.LtE) else ast.Gt
        res: Any = (len(a) < len(b)) if op is ast.Lt else (len(a) <= len(b)) if op is ast.LtE else (len(a) > len(b)) if op is ast.Gt else (len(a) >= len(b))
        for x, y in reversed(list(zip(a, b))):
            lt = self.as_bool(self.compare(lt_op, x, y))
            eq = self.as_bool(self.compare(ast.Eq, x, y))
            res = sym.Or(lt, sym.And(eq, res))
        _ = strict
        return res

    def identical(self, a: Any, b: Any) -> Any:
        if a is b:
            return True
        if isinstance(a, (SInt, SBool)) or isinstance(b, (SInt, SBool)):
            if a is None or b is None:
                return False
            if isinstance(a, (SBool, bool)) and isinstance(b, (SBool, bool)):
                return sym.Iff(a, b)
            raise Unsupported("identity comparison of symbolic ints")
        if isinstance(a, SOpaque) and isinstance(b, SOpaque) and a.kind == b.kind:
            return sym.mk_bool(a.t == b.t)
        if isinstance(a, SObj) and isinstance(b, SObj):
            ident = getattr(self, "identity_model", None)
            if ident is not None:
                r = ident(a, b)
                if r is not None:
                    return r
            return False
        if isinstance(a, SObj) or isinstance(b, SObj):
            ident = getattr(self, "identity_model", None)
            if ident is not None:
                r = ident(a, b)
                if r is not None:
                    return r
            return False
        if isinstance(a, enum.Enum) or isinstance(b, enum.Enum):
            return a is b
        if isinstance(a, (int, str)) and isinstance(b, (int, str)) and type(a) is type(b):
            return a == b  # small-int / interned-string identity is an implementation detail; treat as equality
        return a is b

    def contains(self, cont: Any, x: Any) -> Any:
        if self.alias and id(cont) in self.alias:
            cont = self.alias[id(cont)]
        if hasattr(cont, "pyvc_contains") and not isinstance(cont, symstr.SymStr):
            return cont.pyvc_contains(self, x)
        if isinstance(cont, symstr.SymStr):
            return cont.pyvc_contains(self, x)
        if isinstance(x, symstr.SymStr):
            if isinstance(cont, str):
                return symstr.SymStr(tuple(cont)).pyvc_contains(self, x) if cont else (len(x) == 0)
            if isinstance(cont, SDict):
                cont = list(cont.items.keys())
            if isinstance(cont, SList):
                cont = cont.items
            if isinstance(cont, (list, tuple, set, frozenset, dict)):
                return sym.Or(*[self.as_bool(self.compare(ast.Eq, x, y)) for y in cont]) if cont else False
            raise Unsupported("membership of a symbolic string")
        if isinstance(cont, (SObj,)) or self.is_repo_object(cont):
            r = self.call_dunder(cont, "__contains__", [x], missing_ok=True)
            if r is NotImplemented:
                raise Unsupported("membership via iteration")
            return self.truth_value(r)
        if isinstance(cont, SDict):
            cont = list(cont.items.keys())
        if isinstance(cont, SList):
            cont = cont.items
        if isinstance(cont, (list, tuple, set, frozenset, dict, range)) or hasattr(cont, "keys"):
            if not sym.is_sym(x) and not isinstance(x, SObj):
                if isinstance(cont, (list, tuple)) and not self.all_concrete(cont):
                    return sym.Or(*[self.as_bool(self.compare(ast.Eq, x, y)) for y in cont]) if cont else False
                try:
                    return x in cont
                except TypeError:
                    return False
            if isinstance(cont, range) and isinstance(x, SInt):
                if cont.step == 1:
                    return sym.And(x >= cont.start, x < cont.stop)
            items = list(cont)
            if len(items) > 512:
                raise Unsupported("membership in large container with symbolic element")
            return sym.Or(*[self.as_bool(self.compare(ast.Eq, x, y)) for y in items]) if items else False
        if isinstance(cont, str) and isinstance(x, str):
            return x in cont
        if isinstance(cont, SymRange):
            return sym.And(x >= cont.start, x < cont.stop)
        raise Unsupported(f"membership in {type(cont).__name__}")

    def ex_Call(self, e: ast.Call, env: Any) -> Any:
        # super() needs the lexical context
        if isinstance(e.func, ast.Name) and e.func.id == "super" and not e.args:
            return self.make_super(env)
        f = self.eval(e.func, env)
        args: list[Any] = []
        for a in e.args:
            if isinstance(a, ast.Starred):
                args.extend(self.iterate(self.eval(a.value, env)))
            else:
                args.append(self.eval(a, env))
        kwargs: dict[str, Any] = {}
        for k in e.keywords:
            if k.arg is None:
                d = self.eval(k.value, env)
                if isinstance(d, SDict):
                    d = d.items
                kwargs.update(d)
            else:
                kwargs[k.arg] = self.eval(k.value, env)
        saved = self._site
        try:
            return self.call_value(f, args, kwargs)
        finally:
            self._site = saved

    def make_super(self, env: Any) -> Any:
        fctx = env.fctx
        defcls = fctx.defcls
        if defcls is None:
            raise Unsupported("super() outside a class")
        node = fctx.node
        first = node.args.args[0].arg if node.args.args else None
        if first is None:
            raise Unsupported("super() without first argument")
        # find the env of the method (closures nested in methods are not expected to call super())
        obj = self.lookup_name(env, first)
        return SuperProxy(defcls, obj, isinstance(obj, type))

    def ex_Subscript(self, e: ast.Subscript, env: Any) -> Any:
        obj = self.eval(e.value, env)
        idx = self.eval_index(e.slice, env)
        return self.subscript(obj, idx)

    def eval_index(self, s: ast.expr, env: Any) -> Any:
        if isinstance(s, ast.Slice):
            lo = self.eval(s.lower, env) if s.lower is not None else None
            hi = self.eval(s.upper, env) if s.upper is not None else None
            st = self.eval(s.step, env) if s.step is not None else None
            return slice(lo, hi, st)
        return self.eval(s, env)

    def subscript(self, obj: Any, idx: Any) -> Any:
        from . import models

        return models.subscript(self, obj, idx)

    def store_subscript(self, obj: Any, idx: Any, v: Any) -> None:
        from . import models

        models.store_subscript(self, obj, idx, v)

    def ex_Lambda(self, e: ast.Lambda, env: Any) -> Any:
        return Closure(e, env, env.fctx, "<lambda>")

    def ex_NamedExpr(self, e: ast.NamedExpr, env: Any) -> Any:
        v = self.eval(e.value, env)
        self.assign(e.target, v, env)
        return v

    def ex_JoinedStr(self, e: ast.JoinedStr, env: Any) -> Any:
        parts = []
        for p in e.values:
            if isinstance(p, ast.Constant):
                parts.append(str(p.value))
            elif isinstance(p, ast.FormattedValue):
                v = self.eval(p.value, env)
                if getattr(self, "sym_strings", False) and isinstance(v, (SInt, symstr.SymStr)):
                    spec = ""
                    if p.format_spec is not None:
                        spec = self.ex_JoinedStr(p.format_spec, env)  # type: ignore[arg-type]
                        if not isinstance(spec, str):
                            raise Unsupported("symbolic format spec")
                    if isinstance(v, SInt):
                        parts.append(symstr.format_int(self, v, spec))
                    elif spec == "":
                        parts.append(v)
                    else:
                        raise Unsupported("format spec on a symbolic string")
                    continue
                if not self.all_concrete(v):
                    # messages only: content is never inspected by the properties
                    self.note_opaque_string()
                    return OPAQUE_STR
                spec = ""
                if p.format_spec is not None:
                    spec = self.ex_JoinedStr(p.format_spec, env)  # type: ignore[arg-type]
                    if isinstance(spec, SStr):
                        return OPAQUE_STR
                if p.conversion == 114:
                    v = repr(v)
                elif p.conversion == 115:
                    v = str(v)
                try:
                    parts.append(format(v, spec))
                except Exception as ex:  # noqa: BLE001
                    self.raise_(type(ex), str(ex))
        if any(isinstance(x, symstr.SymStr) for x in parts):
            out: tuple = ()
            for x in parts:
                out += symstr.chars_of(x)
            return symstr.mk(out)
        return "".join(parts)

    def note_opaque_string(self) -> None:
        self.stats["opaque_strings"] = self.stats.get("opaque_strings", 0) + 1

    def ex_FormattedValue(self, e: ast.FormattedValue, env: Any) -> Any:
        return self.ex_JoinedStr(ast.JoinedStr(values=[e]), env)

    def ex_ListComp(self, e: ast.ListComp, env: Any) -> Any:
        return SList(self.comprehension(e.generators, lambda en: self.eval(e.elt, en), env), owner=self.active_runs[-1])

    def ex_GeneratorExp(self, e: ast.GeneratorExp, env: Any) -> Any:
        return SList(self.comprehension(e.generators, lambda en: self.eval(e.elt, en), env), owner=self.active_runs[-1])

    def ex_SetComp(self, e: ast.SetComp, env: Any) -> Any:
        vals = self.comprehension(e.generators, lambda en: self.eval(e.elt, en), env)
        if not self.all_concrete(vals):
            raise Unsupported("set comprehension with symbolic values")
        return set(vals)

    def ex_DictComp(self, e: ast.DictComp, env: Any) -> Any:
        pairs = self.comprehension(e.generators, lambda en: (self.eval(e.key, en), self.eval(e.value, en)), env)
        d = {}
        for k, v in pairs:
            if sym.is_sym(k):
                raise Unsupported("symbolic dict key")
            d[k] = v
        return SDict(d, owner=self.active_runs[-1])

    def comprehension(self, gens: list[ast.comprehension], elt: Any, env: Any) -> list[Any]:
        from .interp import Env

        out: list[Any] = []

        def rec(i: int, en: Any) -> None:
            if i == len(gens):
                out.append(elt(en))
                return
            g = gens[i]
            for x in self.iterate(self.eval(g.iter, en)):
                self.assign(g.target, x, en)
                if all(self.truth(self.eval(c, en)) for c in g.ifs):
                    rec(i + 1, en)

        rec(0, Env(env.fctx, env))
        return out

    def ex_Yield(self, e: ast.Yield, env: Any) -> Any:
        out = self._lookup_opt(env, "$yield")
        if out is _MISSING:
            raise Unsupported("yield outside generator run")
        val = self.eval(e.value, env) if e.value is not None else None
        hook = getattr(self, "yield_hook", None)
        if hook is not None:
            hook(self, env, val)
        out.append(val)
        if len(out) > 20000:
            raise Unsupported("generator too long")
        return None

    def ex_YieldFrom(self, e: ast.YieldFrom, env: Any) -> Any:
        out = self._lookup_opt(env, "$yield")
        out.extend(self.iterate(self.eval(e.value, env)))
        return None

    def ex_Starred(self, e: ast.Starred, env: Any) -> Any:
        raise Unsupported("starred expression")

    def ex_Slice(self, e: ast.Slice, env: Any) -> Any:
        return self.eval_index(e, env)

    # ================================================================== truthiness, iteration
    def as_bool(self, v: Any) -> Any:
        return self.truth_value(v)

    def truth_value(self, v: Any) -> Any:
        """Truth value as bool or SBool (no forking)."""
        if isinstance(v, (bool, SBool)):
            return v
        if isinstance(v, SInt):
            return v != 0
        if v is None:
            return False
        if isinstance(v, SObj) or self.is_repo_object(v):
            cls = v.cls if isinstance(v, SObj) else type(v)
            f, owner = self.static_lookup(cls, "__bool__")
            if f is not _MISSING and owner is not object:
                return self.truth_value(self.call_function(f, [v], {}))
            f, owner = self.static_lookup(cls, "__len__")
            if f is not _MISSING and owner is not object:
                return self.truth_value(self.call_function(f, [v], {}) != 0)
            return True
        if isinstance(v, SList):
            return len(v.items) > 0
        if type(v).__name__ == "SBytes":
            return len(v.items) > 0
        if isinstance(v, SDict):
            return len(v.items) > 0
        if isinstance(v, SStr):
            raise Unsupported("truth of opaque string")
        if isinstance(v, SOpaque):
            raise Unsupported("truth of opaque value")
        if isinstance(v, (Closure, BoundMethod, ExcValue)):
            return True
        if isinstance(v, SymRatio):
            raise Unsupported("truth of ratio")
        return bool(v)

    def truth(self, v: Any) -> bool:
        t = self.truth_value(v)
        if isinstance(t, bool):
            return t
        if self.no_fork:
            raise _NoFork()
        return self.branch(t, "truth")

    def iterate(self, it: Any) -> list[Any]:
        if isinstance(it, SList) or type(it).__name__ == "SBytes":
            return list(it.items)
        if isinstance(it, SDict):
            return list(it.items.keys())
        if isinstance(it, (list, tuple, range, str, bytes, set, frozenset, dict)):
            if isinstance(it, range) and len(it) > 200000:
                raise Unsupported("iteration over huge range")
            return list(it)
        if isinstance(it, SymRange):
            raise Unsupported("iteration over symbolic range outside for")
        if isinstance(it, SObj) or self.is_repo_object(it):
            r = self.call_dunder(it, "__iter__", [])
            return self.iterate(r)
        if hasattr(it, "__iter__") and self.all_concrete(it):
            out = []
            for i, x in enumerate(it):
                if i > 200000:
                    raise Unsupported("iteration too long")
                out.append(x)
            return out
        raise Unsupported(f"iteration over {type(it).__name__}")

    def isinstance_(self, v: Any, cls: Any) -> bool:
        if isinstance(cls, types.UnionType):
            return any(self.isinstance_(v, c) for c in cls.__args__)
        if isinstance(cls, tuple):
            return any(self.isinstance_(v, c) for c in cls)
        if isinstance(v, SObj):
            return issubclass(v.cls, cls) if isinstance(cls, type) else False
        if hasattr(type(v), "pyvc_pytype"):
            return isinstance(cls, type) and issubclass(type(v).pyvc_pytype, cls)
        if isinstance(v, SBool):
            return cls in (bool, int, object)
        if isinstance(v, SInt):
            if isinstance(cls, type) and issubclass(cls, enum.Enum):
                tag = getattr(self, "enum_tags", {}).get(v.t.get_id())
                return tag is not None and issubclass(tag, cls)
            return cls in (int, object)
        if isinstance(v, SymRatio):
            return cls in (float, object)
        if isinstance(v, (SStr,)):
            return cls in (str, object)
        if isinstance(v, SOpaque):
            from .models import opaque_pytype

            return issubclass(opaque_pytype(v.kind), cls)
        if isinstance(v, SList):
            return cls in (list, object) or getattr(cls, "__name__", "") in ("Sequence", "Iterable", "Collection")
        if isinstance(v, SDict):
            return cls in (dict, object) or getattr(cls, "__name__", "") in ("Mapping",)
        if isinstance(v, ExcValue):
            return isinstance(cls, type) and issubclass(v.etype, cls)
        if isinstance(v, (Closure, BoundMethod)):
            return cls is object
        try:
            return isinstance(v, cls)
        except TypeError:
            raise Unsupported("isinstance with non-class")


class SymRange:
    def __init__(self, start: Any, stop: Any, step: int) -> None:
        self.start, self.stop, self.step = start, stop, step


class SymRatio:
    """`a / b` on symbolic ints: not a float model; only `int(a / b)` and `_towards_zero_division` consume it,
    under stated exactness assumptions (A3/A4 in DESIGN.md)."""

    def __init__(self, num: Any, den: Any, eng: Any) -> None:
        self.num, self.den = num, den
        self.eng = eng

    def __add__(self, o: Any) -> Any:
        if isinstance(o, (int, SInt)) and not isinstance(o, bool):
            return SymRatio(self.num + o * self.den, self.den, self.eng)
        raise Unsupported("float arithmetic (ratio)")

    __radd__ = __add__

    def __sub__(self, o: Any) -> Any:
        if isinstance(o, (int, SInt)) and not isinstance(o, bool):
            return SymRatio(self.num - o * self.den, self.den, self.eng)
        raise Unsupported("float arithmetic (ratio)")


class _NS:
    """Namespace view of local variables handed to loop invariants."""

    def __init__(self, eng: Any, env: Any) -> None:
        object.__setattr__(self, "_eng", eng)
        object.__setattr__(self, "_env", env)

    def __getattr__(self, name: str) -> Any:
        return self._eng.lookup_name(self._env, name)


def _assigned_names(node: ast.AST) -> set[str]:
    out: set[str] = set()
    for n in ast.walk(node):
        if isinstance(n, ast.Name) and isinstance(n.ctx, ast.Store):
            out.add(n.id)
    return out


_PURE_NODES = (
    ast.Constant,
    ast.Name,
    ast.Attribute,
    ast.BinOp,
    ast.UnaryOp,
    ast.Compare,
    ast.BoolOp,
    ast.IfExp,
    ast.Tuple,
    ast.Subscript,
    ast.Call,
    ast.Load,
    ast.operator,
    ast.unaryop,
    ast.cmpop,
    ast.boolop,
    ast.keyword,
    ast.expr_context,
)


def _pure_expr(e: ast.AST) -> bool:
    """Syntactic filter for expressions that may be merged with ite instead of forking.  Calls are allowed
    (property-like helpers); any fork, raise or write inside aborts the merge dynamically."""
    for n in ast.walk(e):
        if not isinstance(n, _PURE_NODES):
            return False
    return True


def _pure_expr_list(es: list[ast.AST]) -> bool:
    return all(_pure_expr(x) for x in es)
