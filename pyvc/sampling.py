"""Concrete input sampling for (a) the encoder cross-check against CPython (guard 5) and (b) the search for a
replayable failing input when the solver's first counter-model does not reproduce."""

from __future__ import annotations

import random
from typing import Any

import z3

from .sym import SBool, SInt
from .values import SList, SObj


def sym_leaves(v: Any, out: list[Any]) -> None:
    if isinstance(v, (SInt, SBool)):
        out.append(v)
    elif isinstance(v, SObj):
        for x in v.fields.values():
            sym_leaves(x, out)
    elif isinstance(v, (tuple, list)):
        for x in v:
            sym_leaves(x, out)
    elif isinstance(v, SList):
        for x in v.items:
            sym_leaves(x, out)
    elif hasattr(v, "pyvc_leaves"):
        out.extend(v.pyvc_leaves())


def int_literals(terms: list[Any], limit: int = 40) -> list[int]:
    seen: set[int] = set()
    stack = list(terms)
    visited: set[int] = set()
    while stack and len(seen) < limit * 4:
        t = stack.pop()
        if t.get_id() in visited:
            continue
        visited.add(t.get_id())
        if z3.is_int_value(t):
            seen.add(t.as_long())
        else:
            stack.extend(t.children())
    big = sorted(seen, key=lambda x: -abs(x))[:limit]
    return big


def candidates(rng: random.Random, lits: list[int]) -> int:
    r = rng.random()
    if r < 0.25:
        return rng.choice([0, 1, -1, 2, -2, 3, 7, 10, 59, 60, 100, 365, 366, 1000])
    if r < 0.6 and lits:
        c = rng.choice(lits)
        k = rng.choice([1, 1, 1, 2, 3, rng.randrange(1, 1000), rng.randrange(1, 10**6)])
        return c * k + rng.choice([0, 0, 1, -1, rng.randrange(-5, 6)])
    mag = rng.choice([3, 6, 9, 12, 15, 18, 21, 24, 27, 30, 36, 42, 48])
    v = rng.randrange(0, 10**mag)
    return v if rng.random() < 0.5 else -v


def sample_models(base: list[Any], leaves: list[Any], n: int, seed: int, extra: list[Any] | None = None) -> list[Any]:
    """Up to n diverse models of And(base + extra)."""
    rng = random.Random(seed)
    s = z3.Solver()
    s.set("timeout", 2000)
    for t in base:
        s.add(t)
    for t in extra or []:
        s.add(t)
    if s.check() != z3.sat:
        return []
    lits = int_literals(list(base) + list(extra or []))
    models = []
    ints = [v for v in leaves if isinstance(v, SInt)]
    bools = [v for v in leaves if isinstance(v, SBool)]
    for _ in range(n):
        s.push()
        order = ints[:]
        rng.shuffle(order)
        for v in order:
            for _try in range(3):
                c = candidates(rng, lits)
                s.push()
                s.add(v.t == c)
                if s.check() == z3.sat:
                    break
                s.pop()
            else:
                continue
            # keep the successful constraint (scope stays pushed)
        for b in bools:
            s.push()
            s.add(b.t == rng.choice([True, False]))
            if s.check() != z3.sat:
                s.pop()
        if s.check() == z3.sat:
            models.append(s.model())
        # unwind all scopes of this sample
        while s.num_scopes() > 0:
            s.pop()
    return models
