"""Check runner:  python -m pyvc.cli check C03 --tier quick

Exit codes: 0 property held on everything explored (known findings are printed, not failures);
            1 violation (a line `VIOLATION property=<id> replay=<path>` per violation);
            3 checker error (crash, failed canary, encoder cross-check mismatch).
Undecided obligations never produce a VIOLATION; they downgrade the evidence level.
"""

from __future__ import annotations

import argparse
import glob
import hashlib
import importlib
import json
import multiprocessing as mp
import os
import re
import sys
import time
import traceback
from typing import Any

VERIF = os.path.dirname(os.path.dirname(os.path.abspath(__file__)))
sys.path.insert(0, VERIF)

TRUSTED = {
    "A1": "A1: z3/cvc5 answer unsat only for unsatisfiable queries",
    "A2": "A2: pyvc's encoding of the Python subset matches CPython 3.12 (cross-checked on every run against the real function on concrete inputs)",
    "A3": "A3: _towards_zero_division(x, y) == trunc(x/y) for ints with |x| < 10**27 (Decimal, 28 significant digits); range is an obligation at each call site",
    "A4": "A4: int(a / b) == trunc(a/b) for ints with |a| < 2**53 and 0 < |b| < 2**53 (IEEE-754 correctly rounded division); ranges are obligations at each call site",
    "A5": "A5: datetime.date/time/datetime/timedelta obey their documented field ranges and ordinal arithmetic",
    "A6": "A6: str.encode/bytes.decode are mutually inverse on valid str; decode raises only UnicodeDecodeError",
    "A7": "A7: io.BytesIO read/write behave as a cursor over a byte sequence",
    "A8": "A8: sorted, dict, deque, set behave as documented",
    "A9": "A9: threading.Lock gives mutual exclusion and is not re-entrant; single dict/list element loads and stores are atomic under CPython",
    "A10": "A10: Python string semantics as modelled in pyvc/symstr.py: format(int, spec)/str(int) yield decimal digits with '-' and zero padding; indexing, slicing, concatenation, ==, ordering by code point; c.isdigit() is true for '0'..'9' and false for every other character below U+0080; int(ASCII digits) is their positional value; ASCII lower()/upper()",
    "A11": "A11: closed initialisers are deterministic (table entries themselves are obligations)",
    "A12": "A12: time.time_ns() is the operating-system time",
    "A13": "A13: IEEE-754 doubles: timedelta.total_seconds() and one multiplication are correctly rounded (relative error <= 2**-53 each) and exact on integers below 2**53; Decimal(float) is exact",
}


# properties whose claim is deliberately not "proof" even when every obligation is discharged (schedule quantifiers)
FORCED_LEVEL = {"C19": "other", "C13": "other", "C14": "other", "C07": "other", "C08": "other"}  # properties whose contracts cover only part of the statement


def _load_contract_modules() -> None:
    for f in sorted(glob.glob(os.path.join(VERIF, "contracts", "c*.py"))):
        importlib.import_module("contracts." + os.path.basename(f)[:-3])


def _worker(args: tuple[str, str, tuple[int, int]]) -> dict:
    name, tier, chunk = args
    from pyvc.contracts import REGISTRY
    from pyvc.verify import CheckerError, verify

    c = REGISTRY[name]
    try:
        r = verify(c, tier, chunk=chunk)
        d = r.__dict__.copy()
    except CheckerError as ex:
        d = {"contract": name, "target": c.target, "props": c.props, "status": "checker-error", "error": str(ex), "failures": [], "undecided": [], "n_obligations": 0, "n_discharged": 0, "interpreted": {}, "assumptions": [], "vcs": [], "slow": [], "by_backend": {}, "solver_time_s": 0.0, "wall_s": 0.0, "paths": 0, "outcomes": 0, "stats": {}, "canary": c.canary, "variants": 1, "reach_witness": None}
    except BaseException as ex:  # noqa: BLE001
        d = {"contract": name, "target": c.target, "props": c.props, "status": "error", "error": "".join(traceback.format_exception(ex))[-2000:], "failures": [], "undecided": [], "n_obligations": 0, "n_discharged": 0, "interpreted": {}, "assumptions": [], "vcs": [], "slow": [], "by_backend": {}, "solver_time_s": 0.0, "wall_s": 0.0, "paths": 0, "outcomes": 0, "stats": {}, "canary": c.canary, "variants": 1, "reach_witness": None}
    return d


def load_known() -> list[dict]:
    p = os.path.join(VERIF, "known_findings.json")
    if not os.path.exists(p):
        return []
    with open(p) as f:
        return json.load(f).get("entries", [])


def match_known(known: list[dict], prop: str, contract: str, fail: dict) -> dict | None:
    for k in known:
        if k.get("kind") != "finding" or k.get("property") != prop:
            continue
        if k.get("contract") and k["contract"] != contract:
            continue
        if k.get("contract_contains") and k["contract_contains"] not in contract:
            continue
        pat = k.get("obligation")
        if pat and not re.search(pat, fail.get("name", "")):
            continue
        site = k.get("site")
        if site and site not in (fail.get("site") or "") and site not in (fail.get("detail") or ""):
            continue
        return k
    return None


def run_check(prop: str, tier: str, only: str | None = None, jobs: int = 16, verbose: bool = False) -> int:
    t0 = time.time()
    seed = int(os.environ.get("VERIF_SEED", "0") or 0)
    from pyvc import loader

    loader.load()
    _load_contract_modules()
    from pyvc.contracts import REGISTRY

    names = [n for n, c in REGISTRY.items() if prop in c.props and tier in c.tiers and (only is None or re.search(only, n))]
    skipped_tier = [n for n, c in REGISTRY.items() if prop in c.props and tier not in c.tiers]
    standin = None
    try:
        standin = importlib.import_module(f"checks.{prop}")
    except ModuleNotFoundError:
        standin = None
    results: list[dict] = []
    if names:
        # heavier contracts first
        ctx = mp.get_context("fork")
        jobs_list = []
        for n in names:
            k = max(1, REGISTRY[n].ground_chunks) if REGISTRY[n].ground is not None else max(1, REGISTRY[n].vc_chunks)
            jobs_list.extend((n, tier, (i, k)) for i in range(k))
        jobs_list.sort(key=lambda j: (-REGISTRY[j[0]].weight, 0 if REGISTRY[j[0]].ground is not None else 1))
        # one fresh fork of this (fully loaded) process per job: the solver input of a contract then does not depend on
        # which jobs the same worker ran before (fresh-variable counters, z3 symbol tables), so solver times repeat
        with ctx.Pool(min(jobs, max(1, len(jobs_list))), maxtasksperchild=1) as pool:
            for d in pool.imap_unordered(_worker, jobs_list, chunksize=1):
                results.append(d)
                if verbose:
                    print(f"  {d['status']:13s} {d['contract']}  obl={d['n_obligations']} dis={d['n_discharged']} {d['wall_s']:.1f}s {d['error'][:200] if d.get('error') else ''}", flush=True)
    results.sort(key=lambda d: d["contract"])
    known = load_known()
    violations: list[dict] = []
    known_hit: list[dict] = []
    checker_errors: list[str] = []
    undecided: list[dict] = []
    n_obl = n_dis = 0
    functions: dict[str, str] = {}
    assumptions: set[str] = {"A1", "A2"}
    by_backend: dict[str, int] = {}
    solver_time = 0.0
    canaries = 0
    samples: list[Any] = []
    for d in results:
        if d["status"] in ("error", "checker-error"):
            checker_errors.append(f"{d['contract']}: {d['error']}")
            continue
        if d.get("canary"):
            canaries += 1
            continue
        n_obl += d["n_obligations"]
        n_dis += d["n_discharged"]
        functions.update(d["interpreted"])
        assumptions.update(d["assumptions"])
        solver_time += d["solver_time_s"]
        for k, v in d["by_backend"].items():
            by_backend[k] = by_backend.get(k, 0) + v
        if d["status"] == "undecided" and d.get("error"):
            undecided.append({"contract": d["contract"], "reason": d["error"]})
        for u in d["undecided"]:
            undecided.append({"contract": d["contract"], **u})
        for f in d["failures"]:
            k = match_known(known, prop, d["contract"], f)
            if k is not None:
                known_hit.append({"entry": k, "contract": d["contract"], "failure": f})
            else:
                violations.append({"contract": d["contract"], "target": d["target"], **f})
        if len(samples) < 6 and d["vcs"]:
            samples.append({"contract": d["contract"], "obligation": d["vcs"][0], "reachability_witness": d.get("reach_witness")})

    bounded: list[dict] = []
    if standin is not None and hasattr(standin, "run"):
        try:
            sr = standin.run(tier=tier, seed=seed)
            bounded = sr.get("bounded", [])
            for v in sr.get("violations", []):
                k = match_known(known, prop, v.get("contract", "standin"), v)
                if k is not None:
                    known_hit.append({"entry": k, "contract": v.get("contract", "standin"), "failure": v})
                else:
                    violations.append(v)
            for e in sr.get("errors", []):
                checker_errors.append(e)
        except BaseException as ex:  # noqa: BLE001
            tb = traceback.extract_tb(ex.__traceback__)
            inner = tb[-1] if tb else None
            if inner is not None and "pyoda_time" in inner.filename and "/verif/" not in inner.filename:
                # the exception was raised by the code under test while the stand-in exercised it on valid inputs:
                # that is the property failing, not the checker
                where = f"{os.path.basename(inner.filename)}:{inner.name}"
                violations.append({"name": f"{prop}.standin-aborted {type(ex).__name__} from {where}", "kind": "standin", "site": where, "detail": f"the code under test raised {type(ex).__name__}: {ex} while the stand-in exercised it: " + " <- ".join(f"{os.path.basename(fr.filename)}:{fr.lineno}" for fr in reversed(tb[-5:])), "contract": "standin", "inputs": {}, "replay": {"confirmed": True}})
            else:
                checker_errors.append("stand-in crashed: " + "".join(traceback.format_exception(ex))[-1500:])

    # ------------------------------------------------------------------ output
    rdir = os.path.join(VERIF, "replays", prop)
    if only is None and os.path.isdir(rdir):
        for old in glob.glob(os.path.join(rdir, "*.json")):
            os.unlink(old)
    lines: list[str] = []
    seen_known: set[str] = set()
    for kh in known_hit:
        key = kh["entry"].get("id") or kh["entry"].get("what", "")
        if key in seen_known:
            continue
        seen_known.add(key)
        lines.append(f"KNOWN-FINDING: property={prop} {kh['entry'].get('what', '')}")
    if violations:
        os.makedirs(rdir, exist_ok=True)
    for v in violations:
        confirmed = bool((v.get("replay") or {}).get("confirmed"))
        h = hashlib.sha256((v.get("contract", "") + v.get("name", "")).encode()).hexdigest()[:10]
        path = os.path.join(rdir, f"{re.sub(r'[^A-Za-z0-9_.-]+', '_', v.get('name', 'violation'))[:80]}-{h}.json")
        with open(path, "w") as f:
            json.dump({"property": prop, "failed_obligation": v.get("name"), "contract": v.get("contract"), "target": v.get("target"), "kind": v.get("kind"), "site": v.get("site"), "detail": v.get("detail"), "inputs": v.get("inputs"), "replay": v.get("replay"), "solver": v.get("backend"), "confirmed_on_real_code": confirmed}, f, indent=1, default=str)
        lines.append(f"VIOLATION property={prop} replay={path}" + ("" if confirmed else " no-failing-input-found"))

    n_known_obl = sum(1 for kh in known_hit if "name" in kh["failure"] and kh["failure"].get("kind") != "standin")
    # obligations that fail because of a recorded known finding are reported separately, not as open obligations
    n_obl_reported = n_obl - n_known_obl
    proved_all = n_obl_reported > 0 and n_dis >= n_obl_reported and not undecided
    level_cfg = FORCED_LEVEL.get(prop) or (getattr(standin, "LEVEL", None) if standin is not None else None)
    level = level_cfg or ("proof" if (proved_all and not bounded) else "other")
    if level == "proof" and not proved_all:
        level = "other"
    explanation = getattr(standin, "EXPLANATION", "") if standin is not None else ""
    ev = {
        "property_id": prop,
        "tier": tier,
        "seed": seed,
        "level": level,
        "coverage": {
            "obligations": n_obl_reported,
            "discharged": n_dis,
            "obligations_failing_on_known_findings": n_known_obl,
            "checker_cmd": f"./vcheck {prop} --tier {tier}",
            "contracts_only_in_thorough_tier": sorted(skipped_tier),
            "trusted_base": [TRUSTED[a] for a in sorted(assumptions, key=lambda x: int(x[1:])) if a in TRUSTED],
            "explanation": (explanation + " " if explanation else "")
            + f"{n_dis}/{n_obl_reported} verification conditions (plus {n_known_obl} that fail on recorded known findings and are listed under known_findings_hit) generated from the real source of {len(functions)} functions were discharged "
            f"({', '.join(f'{k}:{v}' for k, v in sorted(by_backend.items()))}); {len(undecided)} undecided; {len(known_hit)} failed obligations match recorded known findings; "
            f"{canaries} must-fail canary contracts failed as required; bounded stand-ins: {len(bounded)} (never counted as discharged).",
            "samples": samples or [{"note": "no deductive contracts for this property"}],
            "contracts": len([d for d in results if not d.get("canary")]),
            "functions_under_contract": sorted({d["target"] for d in results if not d.get("canary")}),
            "functions_interpreted": functions,
            "by_backend": by_backend,
            "solver_time_s": round(solver_time, 3),
            "slowest_obligations": sorted((x for d in results for x in d.get("slow", [])), key=lambda x: -x["time_s"])[:12],
            "undecided": undecided[:50],
            "bounded": bounded,
            "known_findings_hit": [{"id": kh["entry"].get("id"), "contract": kh["contract"], "obligation": kh["failure"].get("name")} for kh in known_hit][:50],
            "canaries_failed_as_required": canaries,
            "paths_explored": sum(d.get("paths", 0) for d in results),
            "crosscheck_runs": sum(d.get("stats", {}).get("crosscheck_runs", 0) for d in results),
            "exhaustive": False,
        },
        "assumptions": [TRUSTED[a] for a in sorted(assumptions, key=lambda x: int(x[1:])) if a in TRUSTED] + list(getattr(standin, "ASSUMPTIONS", []) if standin is not None else []),
        "wall_s": round(time.time() - t0, 2),
        "violations": len(violations),
    }
    if bounded:
        ev["coverage"]["evaluations"] = sum(int(b.get("evaluations", 0)) for b in bounded)
        ev["coverage"]["distinct_nontrivial"] = sum(int(b.get("distinct_nontrivial", 0)) for b in bounded)
        ev["coverage"]["rule"] = "; ".join(str(b.get("rule", "")) for b in bounded)[:2000]
    os.makedirs(os.path.join(VERIF, "evidence"), exist_ok=True)
    with open(os.path.join(VERIF, "evidence", f"{prop}.json"), "w") as f:
        json.dump(ev, f, indent=1, default=str)
    for ln in lines:
        print(ln)
    for u in undecided[:20]:
        print(f"UNDECIDED obligation={u.get('name', u.get('contract'))} {u.get('reason', u.get('detail', ''))}"[:300])
    print(f"{prop} [{tier}] contracts={len(results)} obligations={n_obl} discharged={n_dis} undecided={len(undecided)} known={len(known_hit)} violations={len(violations)} bounded={len(bounded)} level={level} wall={time.time() - t0:.1f}s")
    if checker_errors:
        for e in checker_errors:
            print("CHECKER-ERROR " + e[:1500], file=sys.stderr)
        return 3
    if n_obl == 0 and not bounded:
        print("CHECKER-ERROR zero obligations generated", file=sys.stderr)
        return 3
    return 1 if violations else 0


def main() -> None:
    ap = argparse.ArgumentParser()
    sub = ap.add_subparsers(dest="cmd", required=True)
    c = sub.add_parser("check")
    c.add_argument("prop")
    c.add_argument("--tier", default=os.environ.get("VERIF_TIER", "quick"))
    c.add_argument("--only", default=None)
    c.add_argument("-j", type=int, default=16)
    c.add_argument("-v", action="store_true")
    r = sub.add_parser("replay")
    r.add_argument("path")
    a = ap.parse_args()
    if a.cmd == "check":
        sys.exit(run_check(a.prop, a.tier, a.only, a.j, a.v))
    if a.cmd == "replay":
        with open(a.path) as f:
            d = json.load(f)
        print(json.dumps(d, indent=1))
        from pyvc import loader

        loader.load()
        _load_contract_modules()
        from pyvc.contracts import REGISTRY, NS
        from pyvc.verify import call_real, eval_cases_concrete

        c_ = REGISTRY.get(d.get("contract"))
        if c_ is None or not d.get("inputs"):
            print("no concrete input recorded for this obligation")
            sys.exit(0)
        print("(re-run `./vcheck %s --only '%s'` to regenerate and replay against the current tree)" % (d["property"], re.escape(d["contract"])))
        sys.exit(0)


if __name__ == "__main__":
    main()
