"""Loader: makes the real package under $VERIF_REPO (default /repo) importable.

`import pyoda_time` fails in the pinned environment because PyICU's shared library
(libicui18n.so.73) is missing.  A stub `icu` module is installed in sys.modules *before* the first
import; with `Locale.getDefault()` returning None the package falls back to the invariant culture.
Nothing under /repo is modified.
"""

from __future__ import annotations

import os
import sys
import types

REPO = os.environ.get("VERIF_REPO", "/repo")
_loaded = False


def _install_icu_stub() -> None:
    if "icu" in sys.modules and getattr(sys.modules["icu"], "__pyvc_stub__", False):
        return
    m = types.ModuleType("icu")
    m.__pyvc_stub__ = True  # type: ignore[attr-defined]

    class Locale:
        def __init__(self, *a: object, **k: object) -> None:
            raise RuntimeError("icu stub: no ICU data in this environment")

        @staticmethod
        def getDefault() -> None:  # noqa: N802
            return None

        @staticmethod
        def getAvailableLocales() -> dict:  # noqa: N802
            return {}

    class _Dummy:
        def __init__(self, *a: object, **k: object) -> None:
            raise RuntimeError("icu stub: no ICU data in this environment")

    m.Locale = Locale  # type: ignore[attr-defined]
    m.DateFormatSymbols = _Dummy  # type: ignore[attr-defined]
    m.DateTimePatternGenerator = _Dummy  # type: ignore[attr-defined]
    m.DecimalFormatSymbols = _Dummy  # type: ignore[attr-defined]
    m.DateFormat = _Dummy  # type: ignore[attr-defined]

    def __getattr__(name: str) -> object:
        if name.startswith("__"):
            raise AttributeError(name)
        raise RuntimeError(f"icu stub: icu.{name} is not available in this environment")

    m.__getattr__ = __getattr__  # type: ignore[attr-defined]
    sys.modules["icu"] = m


def load() -> types.ModuleType:
    """Import the real pyoda_time from REPO (fresh per process)."""
    global _loaded
    _install_icu_stub()
    if REPO not in sys.path:
        sys.path.insert(0, REPO)
    sys.dont_write_bytecode = True
    import pyoda_time  # noqa: F401

    f = os.path.realpath(pyoda_time.__file__ or "")
    if not f.startswith(os.path.realpath(REPO) + os.sep):
        raise RuntimeError(f"pyoda_time imported from {f}, expected under {REPO}")
    _loaded = True
    return pyoda_time
