"""Models of builtins and of the few library idioms outside the integer subset."""

from __future__ import annotations

import ast
import builtins
import enum
import types
from typing import Any

import z3

from . import sym
from .sym import SBool, SInt, SOpaque, Unsupported
from .values import (
    OPAQUE_STR,
    BoundMethod,
    Closure,
    ExcValue,
    PyRaise,
    SDict,
    SList,
    SObj,
    SStr,
)

from .values import MISSING as _MISSING
MODELS: dict[Any, Any] = {}

PY_HASH = z3.Function("py_hash", z3.IntSort(), z3.IntSort())
OBJ_HASH = z3.Function("obj_hash", z3.IntSort(), z3.IntSort())
STR_HASH = z3.Function("str_hash", z3.StringSort(), z3.IntSort())


class DeadlockError(Exception):
    """Ghost exception: a non-reentrant lock is acquired while already held by the same thread."""


def model(f: Any) -> Any:
    def deco(g: Any) -> Any:
        MODELS[f] = g
        return g

    return deco


def opaque_pytype(kind: str) -> type:
    return {"str": str}.get(kind, object)


def opaque_const(kind: str, c: Any) -> Any:
    if kind == "str" and isinstance(c, str):
        return z3.StringVal(c)
    return None


def fresh_str(name: str) -> SOpaque:
    sym._counter[0] += 1
    return SOpaque(z3.String(f"{name}!{sym._counter[0]}"), "str")


# ---------------------------------------------------------------------------------------------------- builtins


@model(builtins.isinstance)
def _isinstance(eng: Any, v: Any, cls: Any) -> Any:
    return eng.isinstance_(v, cls)


@model(builtins.issubclass)
def _issubclass(eng: Any, a: Any, b: Any) -> Any:
    return issubclass(a, b)


@model(builtins.int)
def _int(eng: Any, v: Any = 0, base: Any = None) -> Any:
    from .evalast import SymRatio

    if isinstance(v, SInt):
        return v
    if isinstance(v, SBool):
        return sym.mk_int(SInt.lift(v))
    if isinstance(v, SymRatio):
        return ratio_to_int(eng, v)
    if isinstance(v, SObj) or eng.is_repo_object(v):
        r = eng.call_dunder(v, "__int__", [], missing_ok=True)
        if r is NotImplemented:
            r = eng.call_dunder(v, "__index__", [])
        return r
    if hasattr(v, "pyvc_int"):
        return v.pyvc_int(eng)
    if type(v).__name__ == "SymFloatInt":
        return v.to_int(eng)
    if isinstance(v, (SStr, SOpaque)):
        raise Unsupported("int() of symbolic string")
    try:
        return int(v) if base is None else int(v, base)
    except (ValueError, TypeError, OverflowError) as ex:
        eng.raise_(type(ex), str(ex))


def ratio_to_int(eng: Any, r: Any) -> Any:
    """int(a / b) for ints: equals trunc(a / b) when |a| < 2**53 and 0 < |b| < 2**53 (assumption A4:
    IEEE-754 double division is correctly rounded; then the rounding error is smaller than 1/|b|).  The range
    conditions are proof obligations at the call site."""
    a, b = r.num, r.den
    if not isinstance(b, int) or isinstance(b, bool):
        eng.oblige(sym.And(b != 0, abs(b) < 2**53), "A4.divisor-range", kind="assumption-range", site=eng.cur_site())
    eng.oblige(abs(a) < 2**53, "A4.dividend-range", kind="assumption-range", site=eng.cur_site())
    eng.assumptions_used.add("A4")
    return sym.trunc_div(a, b)


@model(builtins.bool)
def _bool(eng: Any, v: Any = False) -> Any:
    return eng.truth_value(v)


@model(builtins.float)
def _float(eng: Any, v: Any = 0.0) -> Any:
    if sym.is_sym(v):
        raise Unsupported("float() of symbolic value")
    return float(v)


@model(builtins.abs)
def _abs(eng: Any, v: Any) -> Any:
    if isinstance(v, SObj) or eng.is_repo_object(v):
        return eng.call_dunder(v, "__abs__", [])
    return abs(v)


def _minmax(eng: Any, args: tuple, kwargs: dict, is_max: bool) -> Any:
    if kwargs:
        raise Unsupported("min/max with key/default")
    items = eng.iterate(args[0]) if len(args) == 1 else list(args)
    if not items:
        eng.raise_(ValueError, "empty sequence")
    if all(isinstance(x, (int, SInt, SBool)) for x in items):
        items = [sym.mk_int(SInt.lift(x)) if isinstance(x, SBool) else x for x in items]
        return sym.pymax(*items) if is_max else sym.pymin(*items)
    best = items[0]
    for x in items[1:]:
        c = eng.compare(ast.Gt if is_max else ast.Lt, x, best)
        if eng.truth(c):
            best = x
    return best


@model(builtins.min)
def _min(eng: Any, *args: Any, **kwargs: Any) -> Any:
    return _minmax(eng, args, kwargs, False)


@model(builtins.max)
def _max(eng: Any, *args: Any, **kwargs: Any) -> Any:
    return _minmax(eng, args, kwargs, True)


@model(builtins.len)
def _len(eng: Any, v: Any) -> Any:
    if eng.alias and id(v) in eng.alias:
        v = eng.alias[id(v)]
    if hasattr(v, "pyvc_len"):
        return v.pyvc_len(eng)
    if isinstance(v, (SList, SBytes)):
        return len(v.items)
    if isinstance(v, SDict):
        return len(v.items)
    if isinstance(v, SObj) or eng.is_repo_object(v):
        return eng.call_dunder(v, "__len__", [])
    if isinstance(v, (SStr, SOpaque)):
        raise Unsupported("len of symbolic string")
    return len(v)


@model(builtins.divmod)
def _divmod(eng: Any, a: Any, b: Any) -> Any:
    if eng.truth(b == 0):
        eng.raise_(ZeroDivisionError, "divmod by zero")
    return (sym.floordiv(a, b), sym.mod(a, b))


@model(builtins.range)
def _range(eng: Any, *args: Any) -> Any:
    from .evalast import SymRange

    if all(isinstance(a, int) for a in args):
        return range(*args)
    if len(args) == 1:
        return SymRange(0, args[0], 1)
    if len(args) == 2:
        return SymRange(args[0], args[1], 1)
    if isinstance(args[2], int):
        return SymRange(args[0], args[1], args[2])
    raise Unsupported("range with symbolic step")


@model(builtins.hash)
def _hash(eng: Any, v: Any) -> Any:
    if isinstance(v, (SInt, SBool)):
        return sym.mk_int(PY_HASH(SInt.lift(v)))
    if isinstance(v, int):
        return sym.mk_int(PY_HASH(z3.IntVal(int(v))))
    if isinstance(v, SObj) or eng.is_repo_object(v):
        cls = v.cls if isinstance(v, SObj) else type(v)
        f, owner = eng.static_lookup(cls, "__hash__")
        if f is None:
            eng.raise_(TypeError, "unhashable")
        if owner is object:
            oid = v.oid if isinstance(v, SObj) else id(v)
            return sym.mk_int(OBJ_HASH(z3.IntVal(oid)))
        return eng.call_function(f, [v], {})
    if isinstance(v, SOpaque) and v.kind == "str":
        return sym.mk_int(STR_HASH(v.t))
    if isinstance(v, str):
        return sym.mk_int(STR_HASH(z3.StringVal(v)))
    if isinstance(v, tuple):
        hs = [_hash(eng, x) for x in v]
        f = z3.Function(f"tuple_hash{len(hs)}", *([z3.IntSort()] * (len(hs) + 1)))
        return sym.mk_int(f(*[SInt.lift(h) for h in hs]))
    if v is None:
        return sym.mk_int(PY_HASH(z3.IntVal(-99991)))
    if isinstance(v, (SList, SDict)):
        eng.raise_(TypeError, "unhashable")
    return hash(v)


@model(builtins.tuple)
def _tuple(eng: Any, v: Any = ()) -> Any:
    return tuple(eng.iterate(v))


@model(builtins.list)
def _list(eng: Any, v: Any = ()) -> Any:
    return SList(eng.iterate(v), owner=eng.active_runs[-1])


@model(builtins.dict)
def _dict(eng: Any, v: Any = None, **kw: Any) -> Any:
    d: dict[Any, Any] = {}
    if isinstance(v, SDict):
        d.update(v.items)
    elif isinstance(v, dict) or hasattr(v, "keys"):
        d.update(dict(v))
    elif v is not None:
        for k, x in eng.iterate(v):
            d[k] = x
    d.update(kw)
    return SDict(d, owner=eng.active_runs[-1])


@model(builtins.set)
def _set(eng: Any, v: Any = ()) -> Any:
    items = eng.iterate(v)
    if not eng.all_concrete(items):
        raise Unsupported("set of symbolic values")
    return set(items)


@model(builtins.frozenset)
def _frozenset(eng: Any, v: Any = ()) -> Any:
    items = eng.iterate(v)
    if not eng.all_concrete(items):
        raise Unsupported("frozenset of symbolic values")
    return frozenset(items)


@model(builtins.enumerate)
def _enumerate(eng: Any, v: Any, start: int = 0) -> Any:
    return SList([(i + start, x) for i, x in enumerate(eng.iterate(v))], owner=eng.active_runs[-1])


@model(builtins.zip)
def _zip(eng: Any, *vs: Any, strict: bool = False) -> Any:
    return SList(list(zip(*[eng.iterate(v) for v in vs])), owner=eng.active_runs[-1])


@model(builtins.reversed)
def _reversed(eng: Any, v: Any) -> Any:
    return SList(list(reversed(eng.iterate(v))), owner=eng.active_runs[-1])


@model(builtins.sorted)
def _sorted(eng: Any, v: Any, key: Any = None, reverse: bool = False) -> Any:
    items = eng.iterate(v)
    if key is not None:
        keys = [eng.call_value(key, [x], {}) for x in items]
    else:
        keys = items
    if not eng.all_concrete(keys):
        raise Unsupported("sorted() of symbolic keys")
    order = sorted(range(len(items)), key=lambda i: keys[i], reverse=reverse)
    return SList([items[i] for i in order], owner=eng.active_runs[-1])


@model(builtins.sum)
def _sum(eng: Any, v: Any, start: Any = 0) -> Any:
    r = start
    for x in eng.iterate(v):
        r = eng.binop(ast.Add, r, x)
    return r


@model(builtins.all)
def _all(eng: Any, v: Any) -> Any:
    return sym.And(*[eng.truth_value(x) for x in eng.iterate(v)]) if eng.iterate(v) else True


@model(builtins.any)
def _any(eng: Any, v: Any) -> Any:
    items = eng.iterate(v)
    return sym.Or(*[eng.truth_value(x) for x in items]) if items else False


@model(builtins.getattr)
def _getattr(eng: Any, obj: Any, name: str, default: Any = _MISSING) -> Any:
    try:
        return eng.get_attr(obj, name)
    except PyRaise as r:
        if default is not _MISSING and issubclass(r.exc.etype, AttributeError):
            return default
        raise


@model(builtins.hasattr)
def _hasattr(eng: Any, obj: Any, name: str) -> Any:
    try:
        eng.get_attr(obj, name)
        return True
    except PyRaise as r:
        if issubclass(r.exc.etype, AttributeError):
            return False
        raise


@model(builtins.setattr)
def _setattr(eng: Any, obj: Any, name: str, v: Any) -> Any:
    eng.set_attr(obj, name, v)


@model(builtins.type)
def _type(eng: Any, v: Any, *rest: Any) -> Any:
    if rest:
        raise Unsupported("3-argument type()")
    if isinstance(v, SObj):
        return v.cls
    if isinstance(v, SInt):
        return int
    if isinstance(v, SBool):
        return bool
    if isinstance(v, (SStr,)) or (isinstance(v, SOpaque) and v.kind == "str"):
        return str
    if isinstance(v, ExcValue):
        return v.etype
    if isinstance(v, SList):
        return list
    if isinstance(v, SDict):
        return dict
    return type(v)


@model(builtins.str)
def _str(eng: Any, v: Any = "", *a: Any) -> Any:
    if getattr(eng, "sym_strings", False) and not a:
        from . import symstr

        if isinstance(v, SInt):
            return symstr.format_int(eng, v, "")
        if isinstance(v, symstr.SymStr):
            return v
    if eng.all_concrete(v) and not a:
        if eng.is_repo_object(v):
            eng.note_opaque_string()
            return OPAQUE_STR
        return str(v)
    eng.note_opaque_string()
    return OPAQUE_STR


@model(builtins.repr)
def _repr(eng: Any, v: Any) -> Any:
    if eng.all_concrete(v) and not eng.is_repo_object(v):
        return repr(v)
    eng.note_opaque_string()
    return OPAQUE_STR


@model(builtins.format)
def _format(eng: Any, v: Any, spec: Any = "") -> Any:
    if getattr(eng, "sym_strings", False) and isinstance(v, SInt) and isinstance(spec, str):
        from . import symstr

        return symstr.format_int(eng, v, spec)
    if eng.all_concrete(v) and eng.all_concrete(spec) and not eng.is_repo_object(v):
        return format(v, spec)
    return OPAQUE_STR


@model(builtins.ord)
def _ord(eng: Any, c: Any) -> Any:
    from . import symstr

    if isinstance(c, symstr.SymStr):
        if len(c.chars) != 1:
            eng.raise_(TypeError, "ord() expected a character")
        return symstr.code(c.chars[0])
    return ord(c)


@model(builtins.chr)
def _chr(eng: Any, i: Any) -> Any:
    from . import symstr

    if isinstance(i, SInt):
        if not eng.truth(sym.And(i >= 0, i <= symstr.MAX_CP)):
            eng.raise_(ValueError, "chr() arg not in range(0x110000)")
        return symstr.SymStr((i,))
    return chr(i)


class SymFloatInt:
    """A float known to hold an exact integer (product of an int and a power of ten below 2**53): assumption A4."""

    pyvc_model = True
    pyvc_symbolic = True
    pyvc_pytype = float

    def __init__(self, value: Any) -> None:
        self.value = value

    def to_int(self, eng: Any) -> Any:
        eng.oblige(abs(self.value) < 2**53, "A4.float-product-range", kind="assumption-range", site=eng.cur_site())
        eng.assumptions_used.add("A4")
        return self.value

    def pyvc_binop(self, eng: Any, dn: str, other: Any, reflected: bool) -> Any:
        raise Unsupported("float arithmetic")

    def pyvc_compare(self, eng: Any, dn: str, other: Any, reflected: bool) -> Any:
        raise Unsupported("float comparison")


import typing as _typing  # noqa: E402


@model(_typing.cast)
def _cast(eng: Any, typ: Any, value: Any) -> Any:
    return value


@model(builtins.print)
def _print(eng: Any, *a: Any, **k: Any) -> Any:
    return None


@model(builtins.callable)
def _callable(eng: Any, v: Any) -> Any:
    return isinstance(v, (Closure, BoundMethod)) or callable(v)


@model(builtins.id)
def _id(eng: Any, v: Any) -> Any:
    return v.oid if isinstance(v, SObj) else id(v)


@model(builtins.pow)
def _pow(eng: Any, a: Any, b: Any, m: Any = None) -> Any:
    if m is not None:
        raise Unsupported("3-arg pow")
    return eng.binop(ast.Pow, a, b)


@model(builtins.round)
def _round(eng: Any, v: Any, nd: Any = None) -> Any:
    if sym.is_sym(v):
        raise Unsupported("round of symbolic")
    return round(v) if nd is None else round(v, nd)


@model(builtins.iter)
def _iter(eng: Any, v: Any) -> Any:
    return SList(eng.iterate(v), owner=eng.active_runs[-1])


@model(builtins.next)
def _next(eng: Any, it: Any, default: Any = _MISSING) -> Any:
    if isinstance(it, SList):
        if it.items:
            eng.log_write(it, "__all__", list(it.items), True) if not eng.is_fresh(it) else None
            return it.items.pop(0)
        if default is not _MISSING:
            return default
        eng.raise_(StopIteration, "")
    raise Unsupported("next() on non-list iterator")


@model(builtins.bytes)
def _bytes(eng: Any, v: Any = b"", *a: Any) -> Any:
    if isinstance(v, SList):
        items = v.items
        if all(isinstance(x, int) for x in items):
            try:
                return bytes(items)
            except ValueError as ex:
                eng.raise_(ValueError, str(ex))
        # symbolic bytes: a tuple-like SBytes
        for x in items:
            bad = sym.Or(x < 0, x > 255)
            if bad is False or eng.provable(sym.Not(bad)):
                continue
            if eng.truth(bad):
                eng.raise_(ValueError, "bytes must be in range(0, 256)")
        return SBytes(list(items))
    if eng.all_concrete(v):
        try:
            return bytes(v, *a)
        except (ValueError, TypeError) as ex:
            eng.raise_(type(ex), str(ex))
    raise Unsupported("bytes() of symbolic value")


class SBytes:
    """Byte string of concrete length whose bytes may be symbolic ints in 0..255."""

    def __init__(self, items: list[Any]) -> None:
        self.items = items

    def __repr__(self) -> str:
        return f"SBytes({self.items})"


@model(object.__new__)
def _object_new(eng: Any, cls: type, *a: Any, **k: Any) -> Any:
    return SObj(cls, {}, owner=eng.active_runs[-1])


# ---------------------------------------------------------------------------------------------------- enums


def enum_call(eng: Any, cls: type, *args: Any) -> Any:
    if len(args) != 1:
        raise Unsupported("functional enum API")
    v = args[0]
    if not sym.is_sym(v):
        try:
            return cls(v)
        except ValueError as ex:
            eng.raise_(ValueError, str(ex))
    if not issubclass(cls, int):
        raise Unsupported("symbolic value for non-int enum")
    if isinstance(v, SBool):
        v = sym.mk_int(SInt.lift(v))
    if issubclass(cls, enum.Flag):
        allbits = 0
        for m in cls:
            allbits |= int(m.value)
        ok = sym.And(v >= 0, sym.bitand(v, ~allbits) == 0)
    else:
        vals = sorted({int(m.value) for m in cls})
        if vals == list(range(vals[0], vals[-1] + 1)):
            ok = sym.And(v >= vals[0], v <= vals[-1])
        else:
            ok = sym.Or(*[v == x for x in vals])
    if eng.truth(ok):
        eng.enum_tags[v.t.get_id()] = cls
        return v
    eng.raise_(ValueError, f"not a valid {cls.__name__}")


# ---------------------------------------------------------------------------------------------------- subscripts


def _ov_item(eng: Any, cont: Any, key: Any) -> Any:
    return eng.overlay.get((id(cont), ("item", key)), _MISSING)


def subscript(eng: Any, obj: Any, idx: Any) -> Any:
    if eng.alias and id(obj) in eng.alias:
        obj = eng.alias[id(obj)]
    if hasattr(obj, "pyvc_getitem"):
        return obj.pyvc_getitem(eng, idx)
    if isinstance(obj, SObj) or (eng.is_repo_object(obj) and not isinstance(obj, type)):
        return eng.call_dunder(obj, "__getitem__", [idx])
    if isinstance(obj, type) and not sym.is_sym(idx):
        m = type(obj)
        f, owner = eng.static_lookup(m, "__getitem__") if m is not type else (_MISSING, None)
        if f is not _MISSING and isinstance(f, types.FunctionType):
            return eng.call_function(f, [obj, idx], {})
        return obj[idx]
    if isinstance(obj, SBytes):
        obj = SList(obj.items, owner=-1)
    if isinstance(obj, SDict):
        items: Any = obj.items
        return _dict_get(eng, items, idx)
    if isinstance(obj, (dict, types.MappingProxyType)) or (hasattr(obj, "keys") and hasattr(obj, "__getitem__") and not isinstance(obj, (list, tuple, str, bytes))):
        if not sym.is_sym(idx):
            ov = _ov_item(eng, obj, idx) if _hashable(idx) else _MISSING
            if ov is not _MISSING:
                return ov
        return _dict_get(eng, obj, idx)
    seq = obj.items if isinstance(obj, SList) else obj
    if isinstance(seq, (list, tuple, str, bytes, range, bytearray)):
        if isinstance(idx, slice):
            if sym.is_sym(idx.start) or sym.is_sym(idx.stop) or sym.is_sym(idx.step):
                raise Unsupported("symbolic slice")
            r = seq[idx]
            return SList(r, owner=eng.active_runs[-1]) if isinstance(obj, SList) else r
        if isinstance(idx, SBool):
            idx = sym.mk_int(SInt.lift(idx))
        if isinstance(idx, SInt):
            return _select(eng, obj, seq, idx)
        if not isinstance(idx, int):
            if isinstance(idx, enum.Enum) or hasattr(idx, "__index__"):
                idx = idx.__index__()
            else:
                eng.raise_(TypeError, "indices must be integers")
        if not isinstance(obj, SList):
            ov = _ov_item(eng, obj, idx if idx >= 0 else idx + len(seq))
            if ov is not _MISSING:
                return ov
        try:
            return seq[idx]
        except IndexError:
            eng.raise_(IndexError, "index out of range")
    if sym.is_sym(idx):
        raise Unsupported(f"symbolic subscript of {type(obj).__name__}")
    try:
        return obj[idx]
    except (KeyError, IndexError, TypeError) as ex:
        eng.raise_(type(ex), str(ex))


def _hashable(v: Any) -> bool:
    try:
        hash(v)
        return True
    except TypeError:
        return False


def _dict_get(eng: Any, d: Any, key: Any) -> Any:
    if isinstance(key, SObj):
        raise Unsupported("dict lookup with symbolic object key")
    if not sym.is_sym(key):
        try:
            if key in d:
                return d[key]
        except TypeError:
            eng.raise_(TypeError, "unhashable key")
        eng.raise_(KeyError, repr(key))
    keys = list(d.keys())
    if len(keys) > 2048:
        raise Unsupported("symbolic key into large dict")
    cands = [k for k in keys if (isinstance(k, int) if isinstance(key, (SInt, SBool)) else isinstance(k, str))]
    conds = [eng.as_bool(eng.compare(ast.Eq, key, k)) for k in cands]
    if eng.truth(sym.Or(*conds) if conds else False):
        return _merge_table(eng, [(c, d[k]) for c, k in zip(conds, cands)], key)
    eng.raise_(KeyError, "symbolic key not present")


def _select(eng: Any, obj: Any, seq: Any, idx: SInt) -> Any:
    n = len(seq)
    if n > 4096:
        raise Unsupported(f"symbolic index into table of {n} entries")
    live = not isinstance(obj, SList)
    inr = sym.And(idx >= 0, idx < n)
    neg = sym.And(idx >= -n, idx < 0)
    which = eng.choose([SBool.lift(inr), SBool.lift(neg), SBool.lift(sym.Not(sym.Or(inr, neg)))], "index") if True else 0
    if which == 2:
        eng.raise_(IndexError, "index out of range")
    eff = idx if which == 0 else idx + n
    vals = []
    for i in range(n):
        v = seq[i]
        if live:
            ov = _ov_item(eng, obj, i)
            if ov is not _MISSING:
                v = ov
        vals.append(v)
    return _merge_table(eng, [(eff == i, vals[i]) for i in range(n)], eff)


def _merge_table(eng: Any, pairs: list[tuple[Any, Any]], key: Any) -> Any:
    from .core import _merge_values, _shape

    pairs = [(c, v) for c, v in pairs if c is not False]
    if not pairs:
        raise Unsupported("empty table select")
    for c, v in pairs:
        if c is True:
            return v
    shapes = {repr(_shape(v)) if not isinstance(_shape(v), tuple) or _shape(v)[0] != "const" else ("k", id(v)) for _, v in pairs}
    first = pairs[0][1]
    if all(isinstance(v, (int, SInt, bool, SBool)) for _, v in pairs) or (len(shapes) == 1 and isinstance(first, (tuple, SObj))):
        # drop infeasible entries cheaply: consecutive equal values collapse in ite construction
        return _merge_values([(SBool.lift(c), v) for c, v in pairs])
    # heterogeneous / object entries: fork over the distinct entries
    if len(pairs) > 64:
        raise Unsupported("symbolic select over many object entries")
    i = eng.choose([SBool.lift(c) for c, _ in pairs], "table-entry")
    return pairs[i][1]


def store_subscript(eng: Any, obj: Any, idx: Any, v: Any) -> None:
    if eng.alias and id(obj) in eng.alias:
        obj = eng.alias[id(obj)]
    if hasattr(obj, "pyvc_setitem"):
        obj.pyvc_setitem(eng, idx, v)
        return
    if isinstance(obj, SObj) or eng.is_repo_object(obj):
        eng.call_dunder(obj, "__setitem__", [idx, v])
        return
    if sym.is_sym(idx):
        raise Unsupported("store with symbolic subscript")
    if isinstance(obj, SList):
        if not isinstance(idx, int):
            raise Unsupported("slice store")
        if not -len(obj.items) <= idx < len(obj.items):
            eng.raise_(IndexError, "assignment index out of range")
        eng.set_item(obj, idx if idx >= 0 else idx + len(obj.items), v)
        return
    if isinstance(obj, SDict):
        eng.set_item(obj, idx, v)
        return
    if isinstance(obj, (list, dict)):
        if isinstance(obj, list):
            if not -len(obj) <= idx < len(obj):
                eng.raise_(IndexError, "assignment index out of range")
            if idx < 0:
                idx += len(obj)
        eng.note_mutation(obj, f"[{idx}]")
        eng.set_overlay(obj, ("item", idx), v)
        return
    raise Unsupported(f"subscript store on {type(obj).__name__}")


# ---------------------------------------------------------------------------------------------------- special bound methods


def call_special(eng: Any, tag: tuple, self_: Any, args: list[Any], kwargs: dict[str, Any]) -> Any:
    kind, name = tag
    if kind == "new":
        cls = self_
        return SObj(cls, {}, owner=eng.active_runs[-1])
    if kind == "exc":
        return None
    if kind == "sstr":
        return OPAQUE_STR
    if kind == "native_unbound":
        descr = name
        n = descr.__name__
        if n == "__init__":
            return None
        if n == "__init_subclass__":
            return None
        if n in ("__repr__", "__str__"):
            return OPAQUE_STR
        if n == "__eq__":
            r = eng.identical(self_, args[0])
            return r if r is True else NotImplemented
        if n == "__ne__":
            # object.__ne__ delegates to the type's __eq__ and inverts the answer unless that is NotImplemented
            r = eng.call_dunder(self_, "__eq__", [args[0]], missing_ok=True)
            if r is NotImplemented:
                return NotImplemented
            return sym.Not(eng.as_bool(r))
        if n == "__hash__":
            return _hash(eng, self_)
        if n == "__setattr__":
            eng.set_field(self_, args[0], args[1]) if isinstance(self_, SObj) else eng.set_overlay(self_, args[0], args[1])
            return None
        raise Unsupported(f"native method {n} on symbolic object")
    if kind == "slist":
        L: SList = self_
        if name == "append":
            if not eng.is_fresh(L):
                eng.log_write(L, "__append__", None, False)
            L.items.append(args[0])
            return None
        if name == "extend":
            for x in eng.iterate(args[0]):
                if not eng.is_fresh(L):
                    eng.log_write(L, "__append__", None, False)
                L.items.append(x)
            return None
        if name in ("pop", "insert", "remove", "clear", "reverse", "sort"):
            if not eng.is_fresh(L):
                eng.log_write(L, "__all__", list(L.items), True)
            if name == "sort":
                if kwargs.get("key") is not None:
                    keys = [eng.call_value(kwargs["key"], [x], {}) for x in L.items]
                else:
                    keys = L.items
                if not eng.all_concrete(keys):
                    raise Unsupported("sort of symbolic keys")
                order = sorted(range(len(keys)), key=lambda i: keys[i], reverse=bool(kwargs.get("reverse", False)))
                L.items[:] = [L.items[i] for i in order]
                return None
            if not eng.all_concrete(args):
                raise Unsupported(f"list.{name} with symbolic argument")
            try:
                return getattr(L.items, name)(*args)
            except (IndexError, ValueError) as ex:
                eng.raise_(type(ex), str(ex))
        if name == "copy":
            return SList(list(L.items), owner=eng.active_runs[-1])
        if name == "index":
            for i, x in enumerate(L.items):
                if eng.truth(eng.compare(ast.Eq, x, args[0])):
                    return i
            eng.raise_(ValueError, "not in list")
        if name == "count":
            return sum(1 for x in L.items if eng.truth(eng.compare(ast.Eq, x, args[0])))
        if name == "__iter__":
            return SList(list(L.items), owner=eng.active_runs[-1])
        if name == "__len__":
            return len(L.items)
        raise Unsupported(f"list.{name}")
    if kind == "sdict":
        D: SDict = self_
        if name == "get":
            k = args[0]
            if sym.is_sym(k):
                raise Unsupported("dict.get with symbolic key")
            return D.items.get(k, args[1] if len(args) > 1 else None)
        if name == "items":
            return SList(list(D.items.items()), owner=eng.active_runs[-1])
        if name == "keys":
            return SList(list(D.items.keys()), owner=eng.active_runs[-1])
        if name == "values":
            return SList(list(D.items.values()), owner=eng.active_runs[-1])
        if name == "copy":
            return SDict(dict(D.items), owner=eng.active_runs[-1])
        if name == "setdefault":
            k = args[0]
            if sym.is_sym(k):
                raise Unsupported("symbolic key")
            if k not in D.items:
                eng.set_item(D, k, args[1] if len(args) > 1 else None)
            return D.items[k]
        if name == "pop":
            k = args[0]
            if sym.is_sym(k):
                raise Unsupported("symbolic key")
            if k in D.items:
                if not eng.is_fresh(D):
                    eng.log_write(D, k, D.items[k], True)
                return D.items.pop(k)
            if len(args) > 1:
                return args[1]
            eng.raise_(KeyError, repr(k))
        if name == "update":
            src = args[0]
            for k, v in (src.items.items() if isinstance(src, SDict) else dict(src).items()):
                eng.set_item(D, k, v)
            return None
        if name == "__contains__":
            return eng.contains(D, args[0])
        raise Unsupported(f"dict.{name}")
    raise Unsupported(f"special call {tag}")


# ---------------------------------------------------------------------------------------------------- with


def exec_with(eng: Any, st: ast.With, env: Any) -> None:
    if len(st.items) != 1:
        raise Unsupported("with: multiple items")
    item = st.items[0]
    ctx = eng.eval(item.context_expr, env)
    tname = type(ctx).__name__
    if tname in ("lock", "RLock", "_RLock") and type(ctx).__module__ in ("_thread", "threading"):
        lid = id(ctx)
        reentrant = tname != "lock"
        if lid in eng.held_locks and not reentrant:
            raise PyRaise(ExcValue(DeadlockError, ("non-reentrant lock re-acquired by its holder",), eng.cur_site()))
        eng.held_locks.append(lid)
        eng.lock_events.append(("acquire", lid, eng.cur_site()))
        try:
            if item.optional_vars is not None:
                eng.assign(item.optional_vars, True, env)
            eng.exec_block(st.body, env)
        finally:
            eng.held_locks.remove(lid)
        return
    if isinstance(ctx, SObj) or eng.is_repo_object(ctx):
        v = eng.call_dunder(ctx, "__enter__", [])
        if item.optional_vars is not None:
            eng.assign(item.optional_vars, v, env)
        try:
            eng.exec_block(st.body, env)
        except PyRaise as r:
            sup = eng.call_dunder(ctx, "__exit__", [r.exc.etype, r.exc, None])
            if not eng.truth(sup):
                raise
        else:
            eng.call_dunder(ctx, "__exit__", [None, None, None])
        return
    if not eng.all_concrete(ctx):
        raise Unsupported("with on symbolic context manager")
    v = ctx.__enter__()
    if item.optional_vars is not None:
        eng.assign(item.optional_vars, v, env)
    try:
        eng.exec_block(st.body, env)
    finally:
        ctx.__exit__(None, None, None)
