"""Mechanical extraction of function ASTs from the real source files, with an identity check.

The verified text is the source file that CPython compiled: for each live function object we locate the
`FunctionDef`/`Lambda` node by (file, first line), and `identity_check` recompiles that node (inside a
dummy class of the same name so private-name mangling is reproduced) and compares the resulting code
object's bytecode, constants and names with the live function's code object.
"""

from __future__ import annotations

import ast
import hashlib
import inspect
import os
import types
from typing import Any

_trees: dict[str, ast.Module] = {}
_index: dict[str, dict[int, list[ast.AST]]] = {}
_sources: dict[str, str] = {}


def _load(filename: str) -> None:
    if filename in _trees:
        return
    with open(filename, encoding="utf-8") as f:
        src = f.read()
    tree = ast.parse(src, filename)
    _sources[filename] = src
    _trees[filename] = tree
    idx: dict[int, list[ast.AST]] = {}
    # annotate parents / enclosing class names
    for node in ast.walk(tree):
        for ch in ast.iter_child_nodes(node):
            ch._parent = node  # type: ignore[attr-defined]
    for node in ast.walk(tree):
        if isinstance(node, (ast.FunctionDef, ast.AsyncFunctionDef)):
            first = node.decorator_list[0].lineno if node.decorator_list else node.lineno
            idx.setdefault(first, []).append(node)
            if first != node.lineno:
                idx.setdefault(node.lineno, []).append(node)
        elif isinstance(node, ast.Lambda):
            idx.setdefault(node.lineno, []).append(node)
    _index[filename] = idx


def unwrap(func: Any) -> Any:
    while True:
        if isinstance(func, (staticmethod, classmethod)):
            func = func.__func__
        elif isinstance(func, property):
            func = func.fget
        elif hasattr(func, "__wrapped__") and not isinstance(func, types.FunctionType):
            func = func.__wrapped__
        else:
            return func


def enclosing_class_name(node: ast.AST) -> str | None:
    p = getattr(node, "_parent", None)
    while p is not None:
        if isinstance(p, ast.ClassDef):
            return p.name
        p = getattr(p, "_parent", None)
    return None


def find_node(func: types.FunctionType) -> ast.AST:
    code = func.__code__
    filename = code.co_filename
    if not os.path.exists(filename):
        raise LookupError(f"no source for {func!r}")
    _load(filename)
    cands = _index[filename].get(code.co_firstlineno, [])
    name = code.co_name
    if name == "<lambda>":
        lams = [c for c in cands if isinstance(c, ast.Lambda)]
        if len(lams) == 1:
            return lams[0]
        # disambiguate by column using co_positions of the first instruction
        try:
            cols = {p[2] for p in code.co_positions() if p[0] == code.co_firstlineno and p[2] is not None}
        except Exception:  # pragma: no cover
            cols = set()
        for lam in lams:
            body = lam.body
            if body.col_offset in cols or any(lam.col_offset <= c <= (lam.end_col_offset or 10**9) for c in cols):
                if len([x for x in lams if x.col_offset <= min(cols, default=0) <= (x.end_col_offset or 0)]) <= 1:
                    return lam
        if lams:
            # pick the innermost lambda whose span contains the first instruction column
            col = min(cols) if cols else 0
            best = [x for x in lams if x.col_offset <= col <= (x.end_col_offset or 10**9)]
            best.sort(key=lambda x: (x.end_col_offset or 0) - x.col_offset)
            if best:
                return best[0]
        raise LookupError(f"lambda at {filename}:{code.co_firstlineno} not found")
    fns = [c for c in cands if isinstance(c, (ast.FunctionDef, ast.AsyncFunctionDef)) and c.name == name]
    if not fns:
        raise LookupError(f"function {name} at {filename}:{code.co_firstlineno} not found")
    # overload stubs share names but not first lines; several defs on the same line are not expected
    return fns[-1]


def source_hash(func: types.FunctionType) -> str:
    node = find_node(func)
    seg = ast.get_source_segment(_sources[func.__code__.co_filename], node) or ""
    return hashlib.sha256(seg.encode()).hexdigest()[:16]


def _code_sig(code: types.CodeType) -> tuple:
    consts = []
    for c in code.co_consts:
        if isinstance(c, types.CodeType):
            consts.append(_code_sig(c))
        else:
            consts.append((type(c).__name__, repr(c)))
    return (code.co_code, tuple(consts), code.co_names, code.co_varnames[: code.co_argcount + code.co_kwonlyargcount])


def _find_code(container: types.CodeType, name: str, firstlineno: int) -> types.CodeType | None:
    for c in container.co_consts:
        if isinstance(c, types.CodeType):
            if c.co_name == name and c.co_firstlineno == firstlineno:
                return c
            r = _find_code(c, name, firstlineno)
            if r is not None:
                return r
    return None


_file_codes: dict[str, types.CodeType] = {}


def identity_check(func: types.FunctionType) -> bool:
    """True iff compiling the current text of the source file reproduces the live function's code object
    (same bytecode, constants, names) at the same (name, first line) -- i.e. the AST node that is
    symbolically executed is the code that runs."""
    node = find_node(func)
    filename = func.__code__.co_filename
    if filename not in _file_codes:
        _file_codes[filename] = compile(_sources[filename], filename, "exec", dont_inherit=True)
    live = func.__code__
    found = _find_code(_file_codes[filename], live.co_name, live.co_firstlineno)
    if found is None:
        return False
    if not isinstance(node, ast.Lambda):
        first = node.decorator_list[0].lineno if node.decorator_list else node.lineno
        if first != live.co_firstlineno or node.name != live.co_name:
            return False
    return _code_sig(found) == _code_sig(live)


def all_functions_in_class(cls: type) -> dict[str, types.FunctionType]:
    out = {}
    for name, v in vars(cls).items():
        f = unwrap(v)
        if isinstance(f, types.FunctionType):
            out[name] = f
    return out


def describe(func: Any) -> str:
    f = unwrap(func)
    try:
        return f"{f.__module__}:{f.__qualname__}"
    except AttributeError:
        return repr(func)


def getsource_lines(func: types.FunctionType) -> tuple[str, int]:
    return inspect.getsourcefile(func) or "", func.__code__.co_firstlineno
