"""Verify one contract: symbolic execution of the real function -> VCs -> discharge -> replay."""

from __future__ import annotations

import os
import re
import subprocess
import tempfile
import threading
import time
import traceback
import types
from dataclasses import dataclass, field
from typing import Any

import z3

from . import extract, sampling, sym
from .contracts import NS, Builder, Contract, concretize, resolve
from .core import Budget, Outcome, PathEnd
from .interp import Interp
from .models import DeadlockError
from .sym import SBool, SInt, Unsupported
from .values import ExcValue, PyRaise, SObj


@dataclass
class VC:
    name: str
    kind: str
    site: str
    pc: list[Any]
    cond: Any
    status: str = "open"  # proved | failed | unknown
    backend: str = ""
    time_s: float = 0.0
    model: Any = None
    detail: str = ""


@dataclass
class Result:
    contract: str
    target: str
    props: list[str]
    status: str = "ok"  # ok | failed | undecided | error
    vcs: list[dict] = field(default_factory=list)
    slow: list[dict] = field(default_factory=list)  # obligations whose solver time was >= 1 s
    n_obligations: int = 0
    n_discharged: int = 0
    failures: list[dict] = field(default_factory=list)
    undecided: list[dict] = field(default_factory=list)
    interpreted: dict[str, str] = field(default_factory=dict)
    assumptions: list[str] = field(default_factory=list)
    paths: int = 0
    outcomes: int = 0
    solver_time_s: float = 0.0
    wall_s: float = 0.0
    by_backend: dict[str, int] = field(default_factory=dict)
    reach_witness: dict | None = None
    error: str = ""
    canary: bool = False
    stats: dict = field(default_factory=dict)
    variants: int = 1


CVC5 = "/usr/bin/cvc5"


def _cvc5(smt2: str, timeout_s: float, names: list[str]) -> tuple[str, dict[str, Any]]:
    if not os.path.exists(CVC5):
        return "unknown", {}
    with tempfile.NamedTemporaryFile("w", suffix=".smt2", delete=False) as f:
        f.write("(set-option :produce-models true)\n(set-logic ALL)\n")
        f.write(smt2.replace("(check-sat)", ""))
        f.write("\n(check-sat)\n")
        path = f.name
    try:
        p = subprocess.run([CVC5, "--lang=smt2", f"--tlimit={int(timeout_s * 1000)}", path], capture_output=True, text=True, timeout=timeout_s + 5)
        out = p.stdout.strip().splitlines()
        r = out[0].strip() if out else "unknown"
        return (r if r in ("sat", "unsat") else "unknown"), {}
    except Exception:  # noqa: BLE001
        return "unknown", {}
    finally:
        os.unlink(path)


def _mk_solver(kind: str, timeout_s: float, ctx: Any = None) -> Any:
    if kind == "z3":
        s = z3.Solver(ctx=ctx)
    elif kind == "z3-arith2":
        s = z3.Solver(ctx=ctx)
        s.set("arith.solver", 2)
    elif kind == "z3-qflia":
        s = z3.Tactic("qflia", ctx=ctx).solver()
    else:
        raise ValueError(kind)
    s.set("timeout", max(1, int(timeout_s * 1000)))
    return s


def _isolated(kind: str, timeout_s: float, terms: list[Any]) -> tuple[Any, Any]:
    """A solver holding `terms` in a z3 context of its own.  z3's search depends on the ids the context has handed out
    so far, so a query solved in the long-lived main context takes a different course (seconds or minutes) depending on
    what the process did before -- sampling for cross-checks, earlier obligations.  In a fresh context the same
    obligation is the same solver input on every run."""
    ctx = z3.Context()
    s = _mk_solver(kind, timeout_s, ctx)
    for t in terms:
        s.add(t.translate(ctx))
    return s, ctx


# iterative deepening over three configurations (fractions of the obligation's budget): short passes catch whatever is
# easy for one of them, medium ones what needs a few seconds, then the long budgets.  Every obligation is solved in a
# z3 context of its own (see _isolated), so which stage decides it -- and after how long -- repeats from run to run;
# BUDGET_SCALE leaves room for a machine a few times slower or busier than the one the contracts were written on.
PORTFOLIO = (
    ("z3-arith2", 0.02), ("z3", 0.02), ("z3-qflia", 0.02),
    ("z3-qflia", 0.08), ("z3-arith2", 0.08), ("z3", 0.08),
    ("z3-arith2", 0.3), ("z3-qflia", 0.2), ("z3", 0.25),
)
BUDGET_SCALE = 2.0


_VARS_CACHE: dict[int, frozenset] = {}


def _consts_of(t: Any) -> frozenset:
    """Names of the uninterpreted constants occurring in a z3 term (memoised on the term id)."""
    k = t.get_id()
    hit = _VARS_CACHE.get(k)
    if hit is not None:
        return hit
    out: set[str] = set()
    seen: set[int] = set()
    stack = [t]
    while stack:
        x = stack.pop()
        i = x.get_id()
        if i in seen:
            continue
        seen.add(i)
        if z3.is_app(x):
            if x.num_args() == 0:
                if x.decl().kind() == z3.Z3_OP_UNINTERPRETED:
                    out.add(x.decl().name())
            else:
                stack.extend(x.children())
        elif z3.is_quantifier(x):
            stack.append(x.body())
    r = frozenset(out)
    if len(_VARS_CACHE) < 200000:
        _VARS_CACHE[k] = r
    return r


_ABSTRACTIONS = {"py_pow2", "py_shr", "py_bitand", "py_bitor", "py_bitxor"}


def _uses_abstraction(goal: list[Any]) -> bool:
    seen: set[int] = set()
    stack = list(goal)
    while stack:
        x = stack.pop()
        i = x.get_id()
        if i in seen:
            continue
        seen.add(i)
        if z3.is_app(x):
            if x.num_args() > 0 and x.decl().name() in _ABSTRACTIONS:
                return True
            stack.extend(x.children())
        elif z3.is_quantifier(x):
            stack.append(x.body())
    return False


def _cone(assumptions: list[Any], negated_goal: Any) -> list[Any]:
    """Cone of influence: the assumptions transitively sharing an uninterpreted constant with the goal.
    Dropping assumptions only weakens the hypothesis, so `unsat` on the slice proves the full VC."""
    want = set(_consts_of(negated_goal))
    pool = [(a, _consts_of(a)) for a in assumptions]
    picked: list[Any] = []
    changed = True
    while changed:
        changed = False
        rest = []
        for a, vs in pool:
            if vs & want:
                picked.append(a)
                if not vs <= want:
                    want |= vs
                    changed = True
            else:
                rest.append((a, vs))
        pool = rest
    return picked


def discharge(vc: VC, base: list[Any], timeout_s: float, use_cvc5: bool = True, axioms: Any = None) -> None:
    """Refute base and pc and not cond  with a small solver portfolio (z3's new and old arithmetic cores, the
    qflia tactic, then cvc5).  `unknown` from every member leaves the VC undecided -- never a violation."""
    t0 = time.time()
    if z3.is_true(vc.cond):
        vc.status, vc.backend = "proved", "trivial"
        return
    hyps = list(base) + list(vc.pc)
    neg = z3.Not(vc.cond)
    # first attempt on the cone of influence of the goal (sound: fewer hypotheses); only `unsat` is accepted from it
    try:
        cone = _cone(hyps, neg)
        if len(cone) < len(hyps):
            for kind in ("z3-arith2", "z3"):
                s0, _ctx0 = _isolated(kind, min(4.0, timeout_s * 0.15), list(cone) + [neg])
                if s0.check() == z3.unsat:
                    vc.status, vc.backend = "proved", kind + "/cone"
                    vc.time_s = time.time() - t0
                    return
    except z3.Z3Exception:
        pass
    goal = hyps + [neg]
    if axioms is not None:
        goal = goal + list(axioms(goal))
    from . import symstr as _symstr

    goal = goal + _symstr.unicode_definitions(goal)  # exact isdigit / isdecimal tables for the characters mentioned
    vc.status = "unknown"
    last = None
    for kind, frac in PORTFOLIO:
        try:
            s, _ctx = _isolated(kind, timeout_s * frac, goal)
            r = s.check()
        except z3.Z3Exception as ex:
            vc.detail = f"{kind}: {ex}"
            continue
        last = s
        if r == z3.unsat:
            vc.status, vc.backend = "proved", kind
            break
        if r == z3.sat:
            m = s.model().translate(z3.main_ctx())
            # a counter-model is only believed if it really satisfies every hypothesis and the negated goal
            # (guards against a solver configuration answering sat wrongly; such an answer is treated as unknown)
            try:
                vals_ = [m.eval(t, model_completion=True) for t in goal]
                ok_model = not any(z3.is_false(x) for x in vals_)
                if ok_model and not all(z3.is_true(x) for x in vals_):
                    # not fully evaluable: pin the integer constants to the model's values and ask the default core
                    chk = z3.Solver()
                    chk.set("timeout", 5000)
                    for t in goal:
                        chk.add(t)
                    for d in m.decls():
                        if d.arity() == 0 and z3.is_int_value(m[d]):
                            chk.add(d() == m[d])
                    if chk.check() == z3.unsat:
                        ok_model = False
            except z3.Z3Exception:
                ok_model = True
            if not ok_model:
                vc.detail = f"{kind}: sat with a model that does not satisfy the query (discarded)"
                continue
            if _uses_abstraction(goal):
                # the counter-model may live in an over-approximation (uninterpreted stand-in for a bit operation /
                # power of two): a failed proof there is 'undecided', never a violation
                vc.status = "unknown"
                vc.detail = f"{kind}: counter-model relies on an uninterpreted bit-operation abstraction"
                vc.model = m
                vc.abstract_cex = True  # type: ignore[attr-defined]
                break
            vc.status, vc.backend = "failed", kind
            vc.model = m
            break
        vc.detail = f"{kind}: {s.reason_unknown()}"
    if vc.status == "unknown" and use_cvc5 and last is not None:
        try:
            plain = z3.Solver()
            for t in goal:
                plain.add(t)
            r2, _ = _cvc5(plain.to_smt2(), timeout_s * 0.5, [])
        except Exception:  # noqa: BLE001
            r2 = "unknown"
        if r2 == "unsat":
            vc.status, vc.backend = "proved", "cvc5"
        elif r2 == "sat" and not _uses_abstraction(goal):
            vc.status, vc.backend = "failed", "cvc5"
    vc.time_s = time.time() - t0


def _case_match(case_exc: tuple[type, ...], et: type) -> bool:
    return any(issubclass(et, e) for e in case_exc)


def _bind_call(eng: Interp, c: Contract, a: NS, argv: list[Any], kwv: dict[str, Any]) -> Any:
    raw = resolve(c.target)
    if isinstance(raw, property):
        return lambda: eng.call_function(raw.fget, argv, kwv)
    if isinstance(raw, classmethod):
        modname, _, path = c.target.partition(":")
        owner = resolve(modname + ":" + path.rsplit(".", 1)[0])
        recv = getattr(a, "cls", owner)
        return lambda: eng.call_function(raw.__func__, [recv] + argv, kwv)
    if isinstance(raw, staticmethod):
        return lambda: eng.call_function(raw.__func__, argv, kwv)
    if isinstance(raw, types.FunctionType):
        return lambda: eng.call_function(raw, argv, kwv)
    if isinstance(raw, type):
        return lambda: eng.call_class(raw, argv, kwv)
    if hasattr(raw, "__wrapped__"):
        return lambda: eng.call_function(raw.__wrapped__, argv, kwv)
    raise Unsupported(f"cannot bind target {c.target}: {type(raw).__name__}")


def _variants(c: Contract) -> list[dict[str, int]]:
    b = Builder()
    for n, g in c.ghosts + c.args + c.kwargs:
        g.make(n, b)
    space = b.choice_space
    if not space:
        return [{}]
    out: list[dict[str, int]] = [{}]
    for k, n in space.items():
        out = [dict(o, **{k: i}) for o in out for i in range(n)]
    return out


def verify(c: Contract, tier: str = "quick", replay: bool = True, chunk: tuple[int, int] = (0, 1)) -> Result:
    t0 = time.time()
    res = Result(contract=c.name, target=c.target, props=list(c.props), canary=c.canary)
    try:
        if c.ground is not None:
            _verify_ground(c, tier, res, chunk)
        else:
            variants = _variants(c)
            res.variants = len(variants)
            for ch in variants:
                _verify_variant(c, tier, replay, res, ch, chunk)
    except (Unsupported, Budget) as ex:
        res.status = "undecided"
        res.error = f"{type(ex).__name__}: {ex}"
    except Exception as ex:  # noqa: BLE001
        res.status = "error"
        res.error = "".join(traceback.format_exception(ex))[-3000:]
    if res.status == "ok":
        if res.failures:
            res.status = "failed"
        elif res.undecided:
            res.status = "undecided"
    if c.canary:
        # a canary must fail; anything else is a checker error
        if res.status == "failed":
            res.status = "ok"
            res.failures = []
        elif res.status in ("ok",):
            res.status = "error"
            res.error = "canary contract was proved: the checker is unsound"
    res.wall_s = time.time() - t0
    return res


def _verify_variant(c: Contract, tier: str, replay: bool, res: Result, choice: dict[str, int], chunk: tuple[int, int] = (0, 1)) -> None:
    base_timeout = c.timeout_s * BUDGET_SCALE
    timeout = base_timeout * (3 if tier == "thorough" else 1)
    eng = Interp()
    eng.max_paths = c.max_paths
    eng.loop_specs.update(c.loops)
    eng.unroll.update(c.unroll)
    if c.allow_mutation is not None:
        eng.allowed_mutation = c.allow_mutation
    if c.setup is not None:
        c.setup(eng)
    b = Builder(choice)
    vals: dict[str, Any] = {}
    for n, g in c.ghosts + c.args + c.kwargs:
        vals[n] = g.make(n, b)
    a = NS(vals)
    eng.contract_ns = a
    for x in list(vals.values()) + list(b.named.values()):
        if hasattr(x, "register"):
            x.register(eng)
    base: list[Any] = []
    for asm in b.assumptions:
        if asm is not True:
            base.append(SBool.lift(asm))
    for p in c.pre:
        pv = p(a)
        if pv is not True:
            base.append(SBool.lift(pv))
    for t in base:
        eng.assume(sym.mk_bool(t))
    lemma_vcs: list[VC] = []
    for li, lf in enumerate(c.lemmas):
        lv = SBool.lift(lf(a))
        vc_l = VC(f"{c.name}.lemma{li}", "lemma", "", [], lv)
        vc_l.base_override = list(base)  # type: ignore[attr-defined]
        lemma_vcs.append(vc_l)
        base.append(lv)
        eng.assume(sym.mk_bool(lv))
    # vacuity guard: the precondition must be satisfiable
    chk = eng.solver.check()
    if chk == z3.unsat:
        raise Unsupported("precondition is unsatisfiable (vacuous contract)")
    if chk == z3.sat and res.reach_witness is None:
        m = eng.solver.model()
        res.reach_witness = {str(d): str(m[d]) for d in m.decls()[:12]}
    argv = [vals[n] for n, _ in c.args if n != "cls"]
    kwv = {n: vals[n] for n, _ in c.kwargs}
    call = _bind_call(eng, c, a, argv, kwv)
    outcomes = eng.explore(call)
    res.paths += eng.paths_run
    res.outcomes += len(outcomes)
    res.interpreted.update(eng.interpreted)
    for k in sorted(eng.assumptions_used):
        if k not in res.assumptions:
            res.assumptions.append(k)
    for k, v in eng.stats.items():
        res.stats[k] = res.stats.get(k, 0) + v
    res.stats["feas_checks"] = res.stats.get("feas_checks", 0) + eng.feas_checks
    if eng.identity_failures:
        raise Unsupported("identity check failed: " + ", ".join(eng.identity_failures))

    vcs: list[VC] = list(lemma_vcs)
    for ob in eng.obligations:
        vcs.append(VC(ob.name, ob.kind, ob.site, ob.pc, ob.cond))
    ret_cases = [k for k in c.cases if k.kind == "ret"]
    raise_cases = [k for k in c.cases if k.kind == "raise"]
    tag = ("[" + ",".join(f"{k}={v}" for k, v in choice.items()) + "]") if choice else ""
    for i, o in enumerate(outcomes):
        pc = o.pc
        if o.kind == "ret":
            whens = [k.when(a) if k.when is not None else True for k in ret_cases]
            allowed = sym.Or(*whens) if whens else False
            vcs.append(VC(f"{c.name}{tag}.path{i}.return-allowed", "post-region", "", pc, SBool.lift(allowed), detail="normal return outside every `returns` region"))
            for j, k in enumerate(ret_cases):
                w = whens[j]
                if k.post is None:
                    continue
                try:
                    pv = k.post(a, o.value, WriteView(o.writes)) if _arity(k.post) >= 3 else k.post(a, o.value)
                except sym.SymBoolUse as ex:
                    raise Unsupported(f"contract postcondition used a symbolic truth value: {ex}")
                vcs.append(VC(f"{c.name}{tag}.path{i}.post{j}{'-' + k.label if k.label else ''}", "post", "", pc, SBool.lift(sym.Implies(w, pv))))
            if c.pure and o.writes:
                bad = [w for w in o.writes if not _write_allowed(c, w)]
                if bad:
                    vcs.append(VC(f"{c.name}{tag}.path{i}.frame", "frame", "", pc, z3.BoolVal(False), detail=f"writes to pre-existing state: {[_wdesc(w) for w in bad][:4]}"))
        else:
            ev: ExcValue = o.value
            conds = [k.when(a) if k.when is not None else True for k in raise_cases if _case_match(k.exc, ev.etype)]
            allowed = sym.Or(*conds) if conds else False
            vcs.append(VC(f"{c.name}{tag}.path{i}.raise-{ev.etype.__name__}", "raise-region", ev.site, pc, SBool.lift(allowed), detail=f"{ev.etype.__name__} raised at {ev.site}"))
    if c.crosscheck and not c.canary and not any(hasattr(x, "register") for x in list(vals.values()) + list(b.named.values())):
        _crosscheck(c, vals, base, choice, res, c.crosscheck)
    if eng.guard_violations:
        vcs.append(VC(f"{c.name}{tag}.lock-discipline", "lock-discipline", eng.guard_violations[0], [], z3.BoolVal(False), detail=f"guarded state accessed without holding the lock: {sorted(set(eng.guard_violations))[:4]}"))
    if len(vcs) < c.min_obligations:
        raise Unsupported(f"only {len(vcs)} obligations generated (< {c.min_obligations}): vacuity guard")

    if chunk[1] > 1:
        vcs = [vc for k, vc in enumerate(vcs) if k % chunk[1] == chunk[0]]
        if chunk[0] != 0:
            res.paths = 0
    for vc in vcs:
        discharge(vc, getattr(vc, "base_override", base), base_timeout, axioms=getattr(eng, "axiom_instantiator", None))
        if vc.status == "unknown" and timeout > base_timeout and not getattr(vc, "abstract_cex", False):
            # thorough tier: only what the quick budgets leave open gets the three-fold budget
            spent = vc.time_s
            discharge(vc, getattr(vc, "base_override", base), timeout, axioms=getattr(eng, "axiom_instantiator", None))
            vc.time_s += spent
        res.n_obligations += 1
        res.solver_time_s += vc.time_s
        res.by_backend[vc.backend] = res.by_backend.get(vc.backend, 0) + 1
        d = {"name": vc.name, "kind": vc.kind, "status": vc.status, "backend": vc.backend, "time_s": round(vc.time_s, 4), "site": vc.site}
        if vc.status == "unknown" and getattr(vc, "abstract_cex", False) and vc.model is not None and replay and not c.canary:
            # a counter-model that lives in an abstraction counts only if it replays on the real code
            rp = replay_concrete(c, vals, vc.model, choice)
            if not rp.get("confirmed"):
                leaves0: list[Any] = []
                sampling.sym_leaves(list(vals.values()), leaves0)
                for m2 in sampling.sample_models(base + list(vc.pc), leaves0, 40, 2000 + len(res.failures), extra=[z3.Not(vc.cond)]):
                    rp = replay_concrete(c, vals, m2, choice)
                    if rp.get("confirmed"):
                        vc.model = m2
                        break
            if rp.get("confirmed"):
                vc.status, vc.backend = "failed", "z3+replay"
                vc.detail = "abstract counter-model confirmed by replay on the real code"
                d["status"], d["backend"] = vc.status, vc.backend
        if vc.status == "proved":
            res.n_discharged += 1
        elif vc.status == "failed":
            if z3.is_and(vc.cond) or (z3.is_implies(vc.cond) and z3.is_and(vc.cond.arg(1))):
                # name the failing conjuncts of the postcondition
                prem = vc.cond.arg(0) if z3.is_implies(vc.cond) else None
                conj = (vc.cond.arg(1) if prem is not None else vc.cond).children()
                bad = []
                for ci, cj in enumerate(conj):
                    sub = VC(vc.name, vc.kind, vc.site, vc.pc + ([prem] if prem is not None else []), cj)
                    discharge(sub, base, min(timeout, 10), axioms=getattr(eng, "axiom_instantiator", None))
                    if sub.status != "proved":
                        bad.append(f"#{ci}:{sub.status}:{str(cj)[-260:]}")
                vc.detail = (vc.detail + " " if vc.detail else "") + "failing conjuncts: " + "; ".join(bad[:6])
            d["detail"] = vc.detail
            f = dict(d)
            if vc.model is not None:
                f["inputs"] = _model_inputs(vc.model, vals)
                if replay and not c.canary:
                    f["replay"] = replay_concrete(c, vals, vc.model, choice)
                    if not f["replay"].get("confirmed"):
                        # the first counter-model did not reproduce: search further models of the failed VC
                        leaves: list[Any] = []
                        sampling.sym_leaves(list(vals.values()), leaves)
                        for k, m2 in enumerate(sampling.sample_models(base + list(vc.pc), leaves, 80, 1000 + len(res.failures), extra=[z3.Not(vc.cond)])):
                            rp = replay_concrete(c, vals, m2, choice)
                            if rp.get("confirmed"):
                                rp["found_after_models"] = k + 2
                                f["replay"] = rp
                                f["inputs"] = _model_inputs(m2, vals)
                                break
            else:
                f["inputs"] = None
                f["replay"] = {"confirmed": False, "note": "refuted by cvc5 without a model"}
            res.failures.append(f)
        else:
            d["detail"] = vc.detail
            res.undecided.append(d)
        if len(res.vcs) < 400:
            res.vcs.append(d)
        if vc.time_s >= 1.0:
            res.slow.append({"obligation": vc.name[-160:], "backend": vc.backend, "time_s": round(vc.time_s, 2), "budget_s": timeout, "status": vc.status})


def _arity(f: Any) -> int:
    try:
        return f.__code__.co_argcount
    except AttributeError:
        return 2


class WriteView:
    """Post-state access for contracts of mutating methods: W(obj, field) is the value after the call."""

    def __init__(self, writes: list[tuple]) -> None:
        self.raw = writes
        self.map: dict[tuple[int, str], Any] = {}
        for cont, key, new in writes:
            if isinstance(cont, SObj):
                self.map[(id(cont), key)] = new

    def __call__(self, obj: Any, field: str) -> Any:
        if isinstance(obj, SObj):
            return self.map.get((id(obj), field), obj.fields.get(field))
        return object.__getattribute__(obj, field)

    def written(self, obj: Any) -> list[str]:
        return [k for (i, k) in self.map if i == id(obj)]


class ConcreteWriteView:
    def __init__(self, old: dict[str, Any], new: dict[str, Any]) -> None:
        self.pairs = [(old[k], new[k]) for k in old if k in new]

    def __call__(self, obj: Any, field: str) -> Any:
        for o, n in self.pairs:
            if o is obj:
                return object.__getattribute__(n, field)
        return object.__getattribute__(obj, field)


def _wdesc(w: tuple) -> str:
    cont, key, _new = w
    if isinstance(cont, SObj):
        return f"{cont.cls.__name__}.{key}"
    return f"{type(cont).__name__}[{key}]"


def _write_allowed(c: Contract, w: tuple) -> bool:
    cont, key, _ = w
    if c.allow_mutation is None:
        return False
    return bool(c.allow_mutation(cont, str(key)))


def _mk_eval(model: Any) -> Any:
    def ev(v: Any) -> Any:
        if isinstance(v, SInt):
            r = model.eval(v.t, model_completion=True)
            return r.as_long()
        if isinstance(v, SBool):
            return z3.is_true(model.eval(v.t, model_completion=True))
        return v

    return ev


def _model_inputs(model: Any, vals: dict[str, Any]) -> dict[str, Any]:
    ev = _mk_eval(model)
    out = {}
    for k, v in vals.items():
        try:
            out[k] = _plain(concretize(v, ev, live=False))
        except Exception as ex:  # noqa: BLE001
            out[k] = f"<{ex}>"
    return out


def _plain(v: Any) -> Any:
    if isinstance(v, SObj):
        return {"__class__": v.cls.__name__, **{k: _plain(x) for k, x in v.fields.items()}}
    if isinstance(v, (int, bool, str, type(None))):
        return v
    if isinstance(v, (list, tuple)):
        return [_plain(x) for x in v]
    if isinstance(v, type):
        return v.__name__
    return repr(v)


def call_real(c: Contract, cvals: dict[str, Any], timeout_s: float = 5.0) -> tuple[str, Any]:
    """Run the real function natively on concrete inputs.  Returns ('ret', value) | ('raise', exc) | ('hang', None)."""
    raw = resolve(c.target)
    argv = [cvals[n] for n, _ in c.args if n != "cls"]
    kwv = {n: cvals[n] for n, _ in c.kwargs}
    if isinstance(raw, property):
        f: Any = lambda: raw.fget(*argv)  # noqa: E731
    elif isinstance(raw, classmethod):
        modname, _, path = c.target.partition(":")
        owner = cvals.get("cls", resolve(modname + ":" + path.rsplit(".", 1)[0]))
        f = lambda: raw.__func__(owner, *argv, **kwv)  # noqa: E731
    elif isinstance(raw, staticmethod):
        f = lambda: raw.__func__(*argv, **kwv)  # noqa: E731
    else:
        f = lambda: raw(*argv, **kwv)  # noqa: E731
    box: list[Any] = []

    def run() -> None:
        try:
            box.append(("ret", f()))
        except BaseException as ex:  # noqa: BLE001
            box.append(("raise", ex))

    th = threading.Thread(target=run, daemon=True)
    th.start()
    th.join(timeout_s)
    if th.is_alive():
        return ("hang", None)
    return box[0]


def eval_cases_concrete(c: Contract, a: NS, kind: str, value: Any, wview: Any = None) -> tuple[bool, str]:
    """Evaluate the contract on a concrete outcome of the real function."""
    try:
        for p in c.pre:
            if p(a) is not True:
                return True, "precondition not satisfied by these inputs"
        if kind == "hang":
            return False, "call did not complete within the watchdog time"
        if kind == "ret":
            cases = [k for k in c.cases if k.kind == "ret"]
            inreg = [k for k in cases if (k.when(a) if k.when is not None else True) is True]
            if not inreg:
                return False, "returned normally, but the contract requires an exception for these inputs"
            for k in inreg:
                if k.post is None:
                    continue
                pv = k.post(a, value, wview) if _arity(k.post) >= 3 else k.post(a, value)
                if not isinstance(pv, bool):
                    return True, "contract evaluation error on concrete values: the postcondition mentions uninterpreted spec functions and cannot be evaluated concretely"
                if pv is not True:
                    return False, f"postcondition {k.label or cases.index(k)} is false on the returned value"
            return True, "ok"
        et = type(value)
        cases = [k for k in c.cases if k.kind == "raise" and any(issubclass(et, e) for e in k.exc)]
        if any((k.when(a) if k.when is not None else True) is True for k in cases):
            return True, "ok"
        return False, f"raised {et.__name__}: {value} where the contract does not allow it"
    except Exception as ex:  # noqa: BLE001
        return True, f"contract evaluation error on concrete values: {type(ex).__name__}: {ex}"


def replay_concrete(c: Contract, vals: dict[str, Any], model: Any, choice: dict[str, int]) -> dict[str, Any]:
    ev = _mk_eval(model)
    if c.replay_hook is not None:
        try:
            return c.replay_hook({k: concretize(v, ev, live=False) for k, v in vals.items()})
        except Exception as ex:  # noqa: BLE001
            return {"confirmed": False, "note": f"replay hook error {type(ex).__name__}: {ex}"}
    if not c.replayable:
        return {"confirmed": False, "note": "the inputs of this contract are abstract models (no concrete realisation): the failed obligation and the solver model are the evidence"}
    if any(hasattr(x, "register") for x in vals.values()):
        return _replay_abstract(c, vals, ev)
    try:
        cvals = _enumify(c, {k: concretize(v, ev, live=True) for k, v in vals.items()})
        kind, value = call_real(c, cvals)
        # inputs may have been mutated by the call: rebuild for contract evaluation of `old` state
        cvals2 = _enumify(c, {k: concretize(v, ev, live=True) for k, v in vals.items()})
        ok, why = eval_cases_concrete(c, NS(cvals2), kind, value, ConcreteWriteView(cvals2, cvals))
        return {"confirmed": not ok, "observed": f"{kind}: {_short(value)}", "why": why}
    except Exception as ex:  # noqa: BLE001
        return {"confirmed": False, "note": f"replay error {type(ex).__name__}: {ex}"}


def _replay_abstract(c: Contract, vals: dict[str, Any], ev: Any) -> dict[str, Any]:
    """The failed VC is about a symbolic calendar.  Look for a real calendar and real dates on which the real code
    violates the contract: the model's calendar ordinal first, then every other calendar, with the model's field
    values clamped into that calendar's valid range."""
    gens = dict(c.ghosts + c.args + c.kwargs)
    cal_names = [n for n, g in gens.items() if hasattr(g, "realize") and hasattr(vals.get(n), "register")]
    if not all(hasattr(g, "realize") or not isinstance(vals.get(n), SObj) or hasattr(vals.get(n), "register") for n, g in gens.items()):
        return {"confirmed": False, "note": "inputs are abstract (symbolic calendar) and have no concrete realisation"}
    tried = 0
    last_err = ""
    first_ord = {n: ev(vals[n].ordinal) for n in cal_names}
    candidates = [dict(first_ord)] + [{n: o for n in cal_names} for o in range(19)]
    fixed = {n: g.fixed_ordinal for n, g in gens.items() if getattr(g, "fixed_ordinal", None) is not None}
    if fixed:
        candidates = [{n: (fixed[n] if n in fixed else o.get(n, 0)) for n in cal_names} for o in candidates]
        seen_c: list[dict] = []
        for o in candidates:
            if o not in seen_c:
                seen_c.append(o)
        candidates = seen_c
    import random as _random

    from .contracts import Int as _IntGen

    rng = _random.Random(12345)

    def rand_ev(x: Any) -> Any:
        if isinstance(x, SInt):
            return rng.choice([rng.randint(1, 31), rng.randint(-50, 3000), rng.randint(1, 13), rng.randint(1800, 2100)])
        if isinstance(x, SBool):
            return rng.random() < 0.5
        return x

    attempts: list[tuple[dict, Any, bool]] = [(over, ev, False) for over in candidates]
    for _ in range(120):
        attempts.append((rng.choice(candidates), rand_ev, True))
    for over, use_ev, randomised in attempts:
        ctx: dict[str, Any] = {"ordinal_override": dict(over), "randomised": randomised, "rng": rng}
        try:
            cvals: dict[str, Any] = {}
            for n, g in c.ghosts + c.args + c.kwargs:
                if hasattr(g, "realize"):
                    cvals[n] = g.realize(vals[n], use_ev, ctx)
                elif randomised and isinstance(g, _IntGen):
                    lo_ = g.lo if isinstance(g.lo, int) else -50
                    hi_ = g.hi if isinstance(g.hi, int) else 3000
                    cvals[n] = rng.randint(max(lo_, -10000), min(hi_, 10000)) if lo_ <= hi_ else use_ev(vals[n])
                else:
                    cvals[n] = concretize(vals[n], use_ev, live=True)
            cvals = _enumify(c, cvals)
            tried += 1
            kind, value = call_real(c, cvals)
            ok, why = eval_cases_concrete(c, NS(cvals), kind, value)
            if why.startswith("precondition not satisfied") or why.startswith("contract evaluation error"):
                last_err = why
                continue
            if not ok:
                return {"confirmed": True, "observed": f"{kind}: {_short(value)}", "why": why, "realised_inputs": {k: _short(v) for k, v in cvals.items()}, "calendar_ordinals": over, "found_by": "random search around the abstract counterexample" if randomised else "the solver's model"}
        except Exception as ex:  # noqa: BLE001
            last_err = f"{type(ex).__name__}: {ex}"
            continue
    return {"confirmed": False, "last_error": last_err, "note": f"symbolic-calendar counterexample did not reproduce on {tried} real calendars with the model's field values"}


def _enumify(c: Contract, cvals: dict[str, Any]) -> dict[str, Any]:
    from .contracts import EnumInt

    for n, g in c.ghosts + c.args + c.kwargs:
        if isinstance(g, EnumInt) and isinstance(cvals.get(n), int):
            cvals[n] = g.to_member(cvals[n])
    return cvals


def _short(v: Any) -> str:
    try:
        if type(v).__module__.startswith("pyoda_time") and type(v).__name__ in ("LocalDate", "LocalTime", "LocalDateTime", "Instant", "Duration", "Offset", "OffsetDateTime", "OffsetTime", "OffsetDate", "Period", "YearMonth", "Interval", "DateInterval", "AnnualDate", "CalendarSystem"):
            # the library's own rendering is the readable one (falls back to the field dump when it raises)
            try:
                cal = getattr(v, "calendar", None)
                extra = f" [{cal.id}]" if cal is not None and getattr(cal, "id", "ISO") != "ISO" else ""
                return f"{type(v).__name__}({v!r}){extra}"[:300]
            except Exception:  # noqa: BLE001
                pass
        if hasattr(v, "__dict__") and type(v).__module__.startswith("pyoda_time"):
            return f"{type(v).__name__}{ {k.split('__')[-1]: (x if isinstance(x, (int, str, bool, type(None))) else type(x).__name__) for k, x in vars(v).items()} }"
        s = repr(v)
    except Exception as ex:  # noqa: BLE001
        s = f"<unrepresentable {type(v).__name__}: {ex}>"
    return s[:300]


def plain_real(v: Any, depth: int = 0) -> Any:
    if depth > 6:
        return "..."
    if isinstance(v, (bool, int, str, type(None), float, bytes)):
        return v
    if isinstance(v, (list, tuple)):
        return [plain_real(x, depth + 1) for x in v]
    if isinstance(v, type):
        return v.__name__
    if type(v).__module__.startswith("pyoda_time") and hasattr(v, "__dict__"):
        return {"__class__": type(v).__name__, **{k: plain_real(x, depth + 1) for k, x in vars(v).items() if not k.startswith("$")}}
    if type(v).__module__.startswith("pyoda_time") and hasattr(type(v), "__slots__"):
        return {"__class__": type(v).__name__, **{("_" + type(v).__name__.lstrip("_") + k if k.startswith("__") else k): plain_real(getattr(v, "_" + type(v).__name__.lstrip("_") + k if k.startswith("__") else k, None), depth + 1) for k in type(v).__slots__ if "lock" not in k}}
    if isinstance(v, SObj):
        return {"__class__": v.cls.__name__, **{k: plain_real(x, depth + 1) for k, x in v.fields.items() if not k.startswith("$")}}
    from .values import SDict, SList

    if isinstance(v, SList):
        return [plain_real(x, depth + 1) for x in v.items]
    if isinstance(v, SDict):
        return {repr(k): plain_real(x, depth + 1) for k, x in v.items.items()}
    return repr(v)


class CheckerError(Exception):
    pass


def _crosscheck(c: Contract, vals: dict[str, Any], base: list[Any], choice: dict[str, int], res: Result, n: int) -> None:
    """Guard 5: run the interpreter on concrete inputs and compare with CPython running the real function."""
    leaves: list[Any] = []
    sampling.sym_leaves(list(vals.values()), leaves)
    seed = int(os.environ.get("VERIF_SEED", "0") or 0)
    models = sampling.sample_models(base, leaves, n, seed * 7919 + (hash(c.name) & 0xFFFF)) if leaves else []
    done = 0
    for m in models:
        ev = _mk_eval(m)
        sym_vals = _enumify(c, {k: concretize(v, ev, live=False) for k, v in vals.items()})
        live_vals = _enumify(c, {k: concretize(v, ev, live=True) for k, v in vals.items()})
        eng = Interp()
        eng.max_paths = 200
        eng.loop_specs = {}
        eng.default_unroll = 10**6
        eng.concrete_mode = True
        if c.setup is not None and c.setup_in_crosscheck:
            c.setup(eng)
        eng.allowed_mutation = c.allow_mutation if c.allow_mutation is not None else (lambda obj, name: True)
        a = NS(sym_vals)
        argv = [sym_vals[k] for k, _ in c.args if k != "cls"]
        kwv = {k: sym_vals[k] for k, _ in c.kwargs}
        try:
            outs = eng.explore(_bind_call(eng, c, a, argv, kwv))
        except (Unsupported, Budget):
            continue
        if len(outs) != 1:
            continue
        o = outs[0]
        kind, value = call_real(c, live_vals)
        if kind == "hang":
            continue
        done += 1
        if o.kind == "raise":
            if isinstance(o.value, ExcValue) and o.value.etype is DeadlockError:
                continue
            same = kind == "raise" and type(value).__name__ == o.value.etype.__name__
            if not same and kind == "raise" and o.value.etype.__module__ == "decimal":
                same = True
        else:
            same = kind == "ret" and plain_real(value) == plain_real(o.value)
        if not same:
            if eng.assumptions_used & {"A3", "A4"}:
                # the inputs lie outside the stated exactness range of an assumed contract
                res.stats["crosscheck_outside_assumption"] = res.stats.get("crosscheck_outside_assumption", 0) + 1
                continue
            raise CheckerError(
                f"encoder cross-check failed for {c.name} on {_model_inputs(m, vals)}: interpreter {o.kind} {plain_real(o.value)!r} vs CPython {kind} {plain_real(value) if kind == 'ret' else repr(value)!r}"
            )
    res.stats["crosscheck_runs"] = res.stats.get("crosscheck_runs", 0) + done


def _verify_ground(c: Contract, tier: str, res: Result, chunk: tuple[int, int]) -> None:
    """G-mode: the function's finite input domain is enumerated completely.  Every instance is a ground VC:
    the real function (identity-checked against the source text) is evaluated by CPython and the contract's
    Python rendering is checked on the outcome; every `interp_stride`-th instance is additionally executed by the
    symbolic interpreter on the extracted AST and the two outcomes must agree (guard A2).  A proof by exhaustive
    cases over the stated finite domain, reported with backend `ground`."""
    insts = list(c.ground())  # type: ignore[misc]
    total = len(insts)
    i, n = chunk
    insts = insts[i::n]
    if len(insts) == 0:
        raise Unsupported("empty ground domain (vacuity guard)")
    raw = resolve(c.target)
    fn = extract.unwrap(raw)
    if isinstance(fn, types.FunctionType) and not extract.identity_check(fn):
        raise Unsupported(f"identity check failed for {c.target}")
    eng = Interp()
    eng.max_paths = 10**9
    eng.default_unroll = 10**6
    eng.concrete_mode = True
    eng.allowed_mutation = c.allow_mutation if c.allow_mutation is not None else (lambda obj, name: True)
    if c.setup is not None:
        c.setup(eng)
    stride = max(1, c.ground_interp_stride)
    t_exec = 0.0
    fails = 0
    interp_runs = 0
    seed = int(os.environ.get("VERIF_SEED", "0") or 0)
    for idx, inst in enumerate(insts):
        vals = dict(inst)
        a = NS(vals)
        t1 = time.time()
        kind, value = call_real(c, vals, timeout_s=0) if False else _call_real_inline(c, raw, vals)
        t_exec += time.time() - t1
        res.n_obligations += 1
        ok, why = eval_cases_concrete(c, a, kind, value)
        if (idx + seed) % stride == 0:
            # same instance through the interpreter (VC generated from the AST, all values concrete)
            eng.memo.clear()
            eng.obligations.clear()
            argv = [vals[k] for k, _ in c.args if k != "cls"]
            kwv = {k: vals[k] for k, _ in c.kwargs}
            outs = eng.explore(_bind_call(eng, c, a, argv, kwv))
            interp_runs += 1
            if len(outs) != 1:
                raise Unsupported(f"ground instance {inst} produced {len(outs)} interpreter outcomes")
            o = outs[0]
            same = (o.kind == "ret" and kind == "ret" and plain_real(o.value) == plain_real(value)) or (
                o.kind == "raise" and kind == "raise" and o.value.etype.__name__ == type(value).__name__
            )
            if not same:
                raise CheckerError(f"ground cross-check failed for {c.name} on {_plain(vals)}: interpreter {o.kind} {plain_real(o.value)!r} vs CPython {kind} {plain_real(value) if kind == 'ret' else repr(value)!r}")
        if ok:
            res.n_discharged += 1
        else:
            fails += 1
            if len(res.failures) < 5:
                plain = {k: _plain(v) for k, v in vals.items()}
                res.failures.append({"name": f"{c.name}.ground{plain}", "kind": "ground", "status": "failed", "backend": "ground", "time_s": 0.0, "site": "", "detail": why, "inputs": plain, "replay": {"confirmed": True, "observed": f"{kind}: {_short(value)}", "why": why}})
    if fails > len(res.failures):
        res.failures.append({"name": f"{c.name}.ground(+{fails - len(res.failures)} more failing instances)", "kind": "ground", "status": "failed", "backend": "ground", "time_s": 0.0, "site": "", "detail": "further failing instances of the same contract", "inputs": None, "replay": {"confirmed": True, "note": "see the first instances"}})
    res.interpreted.update(eng.interpreted)
    if isinstance(fn, types.FunctionType):
        res.interpreted.setdefault(extract.describe(fn), extract.source_hash(fn))
    res.by_backend["ground"] = res.by_backend.get("ground", 0) + len(insts)
    res.solver_time_s += t_exec
    res.stats["ground_instances"] = res.stats.get("ground_instances", 0) + len(insts)
    res.stats["ground_domain_size"] = total
    res.stats["ground_interpreter_crosschecks"] = res.stats.get("ground_interpreter_crosschecks", 0) + interp_runs
    res.vcs.append({"name": f"{c.name}.ground[{i}/{n}]", "kind": "ground", "status": "proved" if not fails else "failed", "backend": "ground", "time_s": round(t_exec, 3), "site": "", "instances": len(insts), "exhaustive_over_domain_of": total, "sample_instance": {k: _plain(v) for k, v in insts[0].items()}})


def _call_real_inline(c: Contract, raw: Any, cvals: dict[str, Any]) -> tuple[str, Any]:
    argv = [cvals[n] for n, _ in c.args if n != "cls"]
    kwv = {n: cvals[n] for n, _ in c.kwargs}
    try:
        if isinstance(raw, property):
            return ("ret", raw.fget(*argv))
        if isinstance(raw, classmethod):
            modname, _, path = c.target.partition(":")
            owner = cvals.get("cls", resolve(modname + ":" + path.rsplit(".", 1)[0]))
            return ("ret", raw.__func__(owner, *argv, **kwv))
        if isinstance(raw, staticmethod):
            return ("ret", raw.__func__(*argv, **kwv))
        return ("ret", raw(*argv, **kwv))
    except Exception as ex:  # noqa: BLE001
        return ("raise", ex)


def _eval_raise_concrete(c: Contract, a: NS, ev: ExcValue) -> tuple[bool, str]:
    cases = [k for k in c.cases if k.kind == "raise" and any(issubclass(ev.etype, e) for e in k.exc)]
    if any((k.when(a) if k.when is not None else True) is True for k in cases):
        return True, "ok"
    return False, f"raised {ev.etype.__name__} at {ev.site} where the contract does not allow it"
