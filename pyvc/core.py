"""Engine core: path exploration by re-execution, path conditions, obligations, write log, summaries."""

from __future__ import annotations

import time
from dataclasses import dataclass, field
from typing import Any, Callable

import z3

from . import sym
from .sym import SBool, SInt, SOpaque, Unsupported
from .values import ExcValue, PyRaise, SDict, SList, SObj


class PathEnd(Exception):
    """The current path ends here without an outcome (loop body verified, assumption infeasible...)."""


class NoFork(Exception):
    """A fork was requested while evaluating an expression in merge-only mode."""


class Budget(Exception):
    """Exploration budget exhausted (undecided)."""


@dataclass
class Obligation:
    name: str
    kind: str
    site: str
    pc: list[Any]  # z3 bools
    cond: Any  # z3 bool
    meta: dict = field(default_factory=dict)


@dataclass
class Outcome:
    kind: str  # 'ret' | 'raise'
    value: Any
    pc: list[Any]
    writes: list[tuple]
    first_oid: int = 0
    dec_only: bool = False


CURRENT: list[Any] = [None]  # the engine whose exploration is running (for stdlib models that need to fork / raise)


class Engine:
    """State shared by the AST evaluator.  Subclassed in interp.py."""

    def __init__(self) -> None:
        self.solver = z3.Solver()
        self.solver.set("timeout", 5000)
        self.pc: list[Any] = []
        self.pc_dec: list[bool] = []
        self.obligations: list[Obligation] = []
        self.writes: list[tuple] = []  # (container, key, old, had_old)
        self.overlay: dict[tuple[int, Any], Any] = {}
        self._keep: list[Any] = []  # keeps live objects referenced by overlay keys alive
        self.run_counter = 0
        self.concrete_mode = False
        self.no_fork = 0
        self.last_dropped = 0
        self.active_runs: list[int] = [0]
        self.explorers: list[Explorer] = []
        self.memo: dict[Any, Any] = {}
        self.max_paths = 4000
        self.paths_run = 0
        self.feas_checks = 0
        self.feas_time = 0.0
        self.held_locks: list[int] = []
        self.trace: list[str] = []
        self.stats: dict[str, int] = {}
        sym._prover[0] = self.provable

    # ---------------------------------------------------------------- path condition
    def assume(self, cond: Any, decision: bool = False) -> None:
        if cond is True:
            return
        if cond is False:
            raise PathEnd()
        t = SBool.lift(cond)
        self.pc.append(t)
        self.pc_dec.append(decision)
        self.solver.add(t)

    def feasible(self, t: Any) -> bool:
        t0 = time.time()
        self.solver.push()
        self.solver.add(t)
        r = self.solver.check()
        self.solver.pop()
        self.feas_checks += 1
        self.feas_time += time.time() - t0
        return r != z3.unsat

    def provable(self, cond: Any) -> bool:
        if isinstance(cond, bool):
            return cond
        t0 = time.time()
        neg = z3.Not(SBool.lift(cond))
        self.solver.push()
        self.solver.add(neg)
        r = self.solver.check()
        self.solver.pop()
        if r == z3.unknown:
            # the answer decides which encoding rule applies: do not let a busy machine change it -- second attempt
            # with the other arithmetic core and a longer budget
            s2 = z3.Solver()
            s2.set("arith.solver", 2)
            s2.set("timeout", 20000)
            for a in self.solver.assertions():
                s2.add(a)
            s2.add(neg)
            r = s2.check()
            self.stats["provable_retries"] = self.stats.get("provable_retries", 0) + 1
        self.feas_checks += 1
        self.feas_time += time.time() - t0
        return r == z3.unsat

    def oblige(self, cond: Any, name: str, kind: str = "assert", site: str = "", assume_after: bool = True, **meta: Any) -> None:
        """Record the proof obligation  pc => cond  and continue under cond."""
        if cond is True:
            self.stats["trivial_obligations"] = self.stats.get("trivial_obligations", 0) + 1
            self.obligations.append(Obligation(name, kind, site, list(self.pc), z3.BoolVal(True), meta))
            return
        t = SBool.lift(cond)
        self.obligations.append(Obligation(name, kind, site, list(self.pc), t, meta))
        if assume_after:
            self.assume(cond)

    # ---------------------------------------------------------------- branching
    def choose(self, conds: list[Any], what: str = "") -> int:
        """Pick one of mutually exclusive, jointly exhaustive alternatives (z3 bools)."""
        if self.no_fork:
            raise NoFork()
        ex = self.explorers[-1]
        return ex.choose(conds, what)

    def branch(self, cond: Any, what: str = "") -> bool:
        if isinstance(cond, bool):
            return cond
        t = SBool.lift(cond)
        return self.choose([t, z3.Not(t)], what) == 0

    # ---------------------------------------------------------------- writes
    def log_write(self, container: Any, key: Any, old: Any, had_old: bool) -> None:
        self.writes.append((container, key, old, had_old))

    def is_fresh(self, obj: Any) -> bool:
        return getattr(obj, "owner", -1) == self.active_runs[-1]

    def set_field(self, obj: SObj, name: str, value: Any) -> None:
        if not self.is_fresh(obj):
            had = name in obj.fields
            self.log_write(obj, name, obj.fields.get(name), had)
        obj.fields[name] = value

    def set_overlay(self, live: Any, key: Any, value: Any) -> None:
        k = (id(live), key)
        had = k in self.overlay
        self.log_write(("overlay",), k, self.overlay.get(k), had)
        self.overlay[k] = value
        self._keep.append(live)

    def set_item(self, cont: Any, key: Any, value: Any) -> None:
        if not self.is_fresh(cont):
            if isinstance(cont, SList):
                self.log_write(cont, key, cont.items[key], True)
            else:
                had = key in cont.items
                self.log_write(cont, key, cont.items.get(key), had)
        cont.items[key] = value

    def _rollback(self, mark: int) -> list[tuple]:
        done = []
        while len(self.writes) > mark:
            container, key, old, had = self.writes.pop()
            if isinstance(container, tuple):
                new = self.overlay.get(key)
                if had:
                    self.overlay[key] = old
                else:
                    self.overlay.pop(key, None)
            elif isinstance(container, SObj):
                new = container.fields.get(key)
                if had:
                    container.fields[key] = old
                else:
                    container.fields.pop(key, None)
            elif isinstance(container, SList):
                if key == "__append__":
                    new = container.items.pop()
                elif key == "__all__":
                    new = list(container.items)
                    container.items[:] = old
                else:
                    new = container.items[key]
                    container.items[key] = old
            elif isinstance(container, SDict):
                new = container.items.get(key)
                if had:
                    container.items[key] = old
                else:
                    container.items.pop(key, None)
            else:
                raise AssertionError("bad write log entry")
            done.append((container, key, new))
        done.reverse()
        return done

    def _reapply(self, writes: list[tuple]) -> None:
        for container, key, new in writes:
            if isinstance(container, tuple):
                had = key in self.overlay
                self.log_write(container, key, self.overlay.get(key), had)
                self.overlay[key] = new
            elif isinstance(container, SObj):
                self.set_field(container, key, new)
            elif isinstance(container, SList):
                if key == "__append__":
                    self.log_write(container, "__append__", None, False)
                    container.items.append(new)
                elif key == "__all__":
                    self.log_write(container, "__all__", list(container.items), True)
                    container.items[:] = new
                else:
                    self.set_item(container, key, new)
            else:
                self.set_item(container, key, new)

    # ---------------------------------------------------------------- exploration
    def explore(self, thunk: Callable[[], Any]) -> list[Outcome]:
        ex = Explorer(self)
        self.explorers.append(ex)
        prev = CURRENT[0]
        CURRENT[0] = self
        try:
            outs = ex.run(thunk)
            self.last_dropped = ex.dropped
            return outs
        finally:
            self.explorers.pop()
            CURRENT[0] = prev

    def summarize(self, key: Any, thunk: Callable[[], Any], ident: Any = None) -> Any:
        """Explore `thunk` exhaustively under the current pc, merge the outcomes, and continue the current
        path with the merged result (forking only over outcome classes that cannot be merged).
        `key` is a structural memo key, `ident` an identity key used when outcomes alias pre-existing objects."""
        if self.concrete_mode:
            # all values are concrete: no forks, no merging -- run the callee directly
            return thunk()
        mkey = ikey = None
        if key is not None:
            try:
                ctx = (tuple(t.get_id() for t in self.pc), hash(tuple(sorted(((str(k), id(v)) for k, v in self.overlay.items())))), tuple(self.held_locks))
                mkey = (key, ctx)
                ikey = (key, ident, ctx)
            except TypeError:
                mkey = ikey = None
        hit = None
        if mkey is not None:
            hit = self.memo.get(mkey) or self.memo.get(ikey)
        if hit is None:
            first_oid = _next_oid()
            outcomes = self.explore(thunk)
            groups = _group(outcomes, first_oid, self.last_dropped > 0)
            if mkey is not None:
                ext = any(g.writes or _has_external(g.value, first_oid) for g in groups)
                self.memo[ikey if ext else mkey] = (groups, sym._counter[0])
        else:
            groups, cnt = hit
            sym._counter[0] = max(sym._counter[0], cnt)
        if not groups:
            raise PathEnd()
        if len(groups) == 1:
            g = groups[0]
        else:
            idx = self.choose([g.cond for g in groups], "outcome")
            g = groups[idx]
        if len(groups) > 1 or g.must_assume:
            self.assume(sym.mk_bool(g.cond))
        if g.writes:
            self._reapply(g.writes)
        val = _adopt(g.value, g.first_oid, self.active_runs[-1], {})
        if g.kind == "raise":
            raise PyRaise(val)
        return val


@dataclass
class Group:
    kind: str
    cond: Any
    value: Any
    writes: list[tuple]
    first_oid: int
    must_assume: bool = False


def _has_external(v: Any, first_oid: int, depth: int = 0) -> bool:
    if depth > 6:
        return True
    if isinstance(v, SObj):
        if v.oid < first_oid:
            return True
        return any(_has_external(x, first_oid, depth + 1) for x in v.fields.values())
    if isinstance(v, tuple):
        return any(_has_external(x, first_oid, depth + 1) for x in v)
    if isinstance(v, (SList, SDict)):
        return True
    if isinstance(v, ExcValue):
        return False
    return False


def _next_oid() -> int:
    from .values import _obj_counter

    return _obj_counter[0] + 1


def _shape(v: Any, first_oid: int | None = None) -> Any:
    if isinstance(v, (SInt, int)) and not isinstance(v, bool):
        return "int"
    if isinstance(v, (SBool, bool)):
        return "bool"
    if isinstance(v, tuple):
        return ("tuple",) + tuple(_shape(x, first_oid) for x in v)
    if isinstance(v, SObj):
        if first_oid is not None and v.oid < first_oid:
            # an object that existed before the call keeps its identity: outcomes returning different pre-existing
            # objects are never merged into a phantom copy (`x is y` must keep working on the result)
            return ("ext", v.oid)
        return ("obj", v.cls, tuple(sorted((k, _shape(x, first_oid)) for k, x in v.fields.items())))
    if isinstance(v, ExcValue):
        return ("exc", v.etype, v.site if v.etype in (AssertionError,) else "")
    if isinstance(v, SOpaque):
        return ("opaque", v.kind)
    if isinstance(v, (SList, SDict)):
        return ("id", id(v))
    if hasattr(v, "chars") and getattr(type(v), "pyvc_symbolic", False):
        return ("symstr", tuple(c if isinstance(c, str) else "?" for c in v.chars))
    if getattr(type(v), "pyvc_model", False):
        return ("id", id(v))
    try:
        hash(v)
        return ("const", type(v), v)
    except TypeError:
        return ("id", id(v))


def _pc_and(pc: list[Any]) -> Any:
    if not pc:
        return z3.BoolVal(True)
    if len(pc) == 1:
        return pc[0]
    return z3.And(*pc)


def _merge_values(pairs: list[tuple[Any, Any]]) -> Any:
    """pairs: [(cond z3 bool, value)] with identical shapes; returns the merged value."""
    v0 = pairs[0][1]
    if len(pairs) == 1:
        return v0
    if isinstance(v0, tuple):
        return tuple(_merge_values([(c, v[i]) for c, v in pairs]) for i in range(len(v0)))
    if isinstance(v0, SObj):
        if all(v is v0 for _, v in pairs):
            return v0
        fields = {k: _merge_values([(c, v.fields[k]) for c, v in pairs]) for k in v0.fields}
        return SObj(v0.cls, fields, owner=v0.owner, tag=v0.tag)
    if isinstance(v0, ExcValue):
        return v0
    if hasattr(v0, "chars") and getattr(type(v0), "pyvc_symbolic", False):
        return type(v0)(tuple(c if isinstance(c, str) else _merge_values([(cd, v.chars[i]) for cd, v in pairs]) for i, c in enumerate(v0.chars)))
    if isinstance(v0, (SInt, SBool, int, bool, SOpaque)):
        r = pairs[-1][1]
        for c, v in reversed(pairs[:-1]):
            r = sym.ite(sym.mk_bool(c), v, r)
        return r
    return v0


def _group(outcomes: list[Outcome], first_oid: int, dropped: bool = True) -> list[Group]:
    buckets: dict[Any, list[Outcome]] = {}
    order = []
    for i, o in enumerate(outcomes):
        if o.writes:
            k: Any = ("w", i)
        else:
            k = (o.kind, _shape(o.value, first_oid))
        if k not in buckets:
            buckets[k] = []
            order.append(k)
        buckets[k].append(o)
    groups = []
    for k in order:
        os_ = buckets[k]
        conds = [_pc_and(o.pc) for o in os_]
        cond = conds[0] if len(conds) == 1 else z3.Or(*conds)
        value = _merge_values(list(zip(conds, [o.value for o in os_])))
        # assumptions (assume()) inside a single outcome must be kept even when it is the only group
        must = dropped or any(not o.dec_only for o in os_)
        groups.append(Group(os_[0].kind, z3.simplify(cond), value, os_[0].writes, first_oid, must))
    return groups


def _adopt(v: Any, first_oid: int, owner: int, seen: dict) -> Any:
    """Copy objects created inside a finished sub-exploration so that the memoised summary stays pristine."""
    if isinstance(v, SObj):
        if v.oid < first_oid:
            return v
        if id(v) in seen:
            return seen[id(v)]
        n = SObj(v.cls, {}, owner=owner, tag=v.tag)
        seen[id(v)] = n
        for k, x in v.fields.items():
            n.fields[k] = _adopt(x, first_oid, owner, seen)
        return n
    if isinstance(v, tuple):
        return tuple(_adopt(x, first_oid, owner, seen) for x in v)
    if isinstance(v, SList):
        if v.owner < 0:
            return v
        if id(v) in seen:
            return seen[id(v)]
        n2 = SList([], owner=owner)
        seen[id(v)] = n2
        n2.items = [_adopt(x, first_oid, owner, seen) for x in v.items]
        return n2
    if isinstance(v, SDict):
        if id(v) in seen:
            return seen[id(v)]
        n3 = SDict({}, owner=owner)
        seen[id(v)] = n3
        n3.items = {k: _adopt(x, first_oid, owner, seen) for k, x in v.items.items()}
        return n3
    if isinstance(v, ExcValue):
        return v
    return v


class Explorer:
    def __init__(self, eng: Engine) -> None:
        self.eng = eng
        self.decisions: list[list[Any]] = []  # [idx_in_feasible, feasible_indices]
        self.pos = 0
        self.dropped = 0

    def choose(self, conds: list[Any], what: str) -> int:
        eng = self.eng
        if self.pos < len(self.decisions):
            d = self.decisions[self.pos]
            self.pos += 1
            idx = d[1][d[0]]
            if idx >= len(conds):
                raise AssertionError("non-deterministic re-execution")
            eng.assume(sym.mk_bool(conds[idx]), decision=True)
            return idx
        feas = []
        for i, c in enumerate(conds):
            c = z3.simplify(c)
            if z3.is_false(c):
                continue
            if z3.is_true(c) or eng.feasible(c):
                feas.append(i)
        if not feas:
            raise PathEnd()
        self.decisions.append([0, feas])
        self.pos += 1
        idx = feas[0]
        eng.assume(sym.mk_bool(conds[idx]), decision=True)
        return idx

    def run(self, thunk: Callable[[], Any]) -> list[Outcome]:
        eng = self.eng
        outcomes: list[Outcome] = []
        base_counter = sym._counter[0]
        max_counter = base_counter
        saved_locks = list(eng.held_locks)
        saved_nf = eng.no_fork
        eng.no_fork = 0
        try:
            return self._run(thunk, outcomes, base_counter, max_counter, saved_locks)
        finally:
            eng.no_fork = saved_nf

    def _run(self, thunk: Callable[[], Any], outcomes: list[Outcome], base_counter: int, max_counter: int, saved_locks: list[int]) -> list[Outcome]:
        eng = self.eng
        while True:
            eng.paths_run += 1
            if eng.paths_run > eng.max_paths:
                raise Budget(f"more than {eng.max_paths} paths")
            self.pos = 0
            sym._counter[0] = base_counter
            eng.run_counter += 1
            rid = eng.run_counter
            eng.active_runs.append(rid)
            eng.solver.push()
            pc_len = len(eng.pc)
            wmark = len(eng.writes)
            first_oid = _next_oid()
            out: Outcome | None
            try:
                v = thunk()
                out = Outcome("ret", v, [], [])
            except PyRaise as r:
                out = Outcome("raise", r.exc, [], [])
            except PathEnd:
                out = None
            finally:
                pass
            if out is not None:
                out.pc = eng.pc[pc_len:]
                out.first_oid = first_oid
                out.dec_only = all(eng.pc_dec[pc_len:])
            else:
                self.dropped += 1
            w = eng._rollback(wmark)
            if out is not None:
                out.writes = w
                outcomes.append(out)
            del eng.pc[pc_len:]
            del eng.pc_dec[pc_len:]
            eng.solver.pop()
            eng.active_runs.pop()
            eng.held_locks[:] = saved_locks
            max_counter = max(max_counter, sym._counter[0])
            while self.decisions and self.decisions[-1][0] + 1 >= len(self.decisions[-1][1]):
                self.decisions.pop()
            if not self.decisions:
                break
            self.decisions[-1][0] += 1
        sym._counter[0] = max_counter
        return outcomes
