"""Contract DSL (sidecar: the repository is never edited).

A contract names a real function, describes its symbolic inputs (`args`), a precondition, and a list of
*cases*: `returns(post, when=...)` and `raises(Exc, when=...)`.  Meaning:

  * every normal return must fall in some `returns` case region and satisfy that case's postcondition;
  * every raised exception must be of a declared type in whose region the inputs lie;

so complementary regions give "raises iff".  Contract expressions are Python callables over a namespace
`a` of the inputs (and `r`, the result); they are evaluated on symbolic values to build VCs and on concrete
values to replay counterexamples, therefore they must use the helpers in pyvc.sym (And/Or/Not/ite/...) and
the view functions in specs/.
"""

from __future__ import annotations

import importlib
import types
from dataclasses import dataclass, field
from typing import Any, Callable

from . import sym
from .sym import SBool, SInt
from .values import SObj

REGISTRY: dict[str, "Contract"] = {}


class NS:
    """Attribute namespace for inputs."""

    def __init__(self, d: dict[str, Any]) -> None:
        self.__dict__.update(d)

    def __repr__(self) -> str:
        return f"NS({self.__dict__})"


# ------------------------------------------------------------------------------------- input generators


class Gen:
    def make(self, name: str, b: "Builder") -> Any:
        raise NotImplementedError

    def concretize(self, v: Any, ev: Callable[[Any], Any], live: bool) -> Any:
        """Turn the symbolic value produced by make() into a concrete one using a model evaluator."""
        return concretize(v, ev, live)


@dataclass
class Int(Gen):
    lo: Any = None
    hi: Any = None

    def make(self, name: str, b: "Builder") -> Any:
        v = sym.var_int(name)
        if self.lo is not None:
            b.assume(v >= self.lo)
        if self.hi is not None:
            b.assume(v <= self.hi)
        return v


class EnumInt(Gen):
    """A symbolic member of an int-valued Enum/Flag class (integer value in [lo, hi])."""

    def __init__(self, cls: Any, lo: int, hi: int, scale: int = 1) -> None:
        self.cls, self.lo, self.hi, self.scale = cls, lo, hi, scale

    def make(self, name: str, b: "Builder") -> Any:
        v = sym.var_int(name)
        b.assume(v >= self.lo)
        b.assume(v <= self.hi)
        return v * self.scale if self.scale != 1 else v

    def to_member(self, value: int) -> Any:
        cls = resolve(self.cls) if isinstance(self.cls, str) else self.cls
        return cls(value)


@dataclass
class Bool(Gen):
    def make(self, name: str, b: "Builder") -> Any:
        return sym.var_bool(name)


@dataclass
class Const(Gen):
    value: Any

    def make(self, name: str, b: "Builder") -> Any:
        return self.value() if isinstance(self.value, types.FunctionType) else self.value


@dataclass
class OneOf(Gen):
    """Finite choice among concrete values (forks the verification into one run per value)."""

    values: Any

    def make(self, name: str, b: "Builder") -> Any:
        vals = self.values() if callable(self.values) else self.values
        return b.pick(name, list(vals))


class Obj(Gen):
    """A symbolic instance of a real class: fields by (mangled) attribute name -> Gen, plus an invariant."""

    def __init__(self, cls: Any, fields: dict[str, Gen], inv: Callable[[Any], Any] | None = None) -> None:
        self.cls = cls
        self.fields = fields
        self.inv = inv

    def make(self, name: str, b: "Builder") -> Any:
        cls = resolve(self.cls) if isinstance(self.cls, str) else self.cls
        o = SObj(cls, {}, owner=-1, tag=name)
        for k, g in self.fields.items():
            o.fields[k] = g.make(f"{name}.{k.split('__')[-1]}", b)
        if self.inv is not None:
            b.assume(self.inv(o))
        return o

    def realize(self, v: Any, ev: Any, ctx: dict) -> Any:
        return concretize(v, ev, True)


class Builder:
    def __init__(self, choice: dict[str, int] | None = None) -> None:
        self.assumptions: list[Any] = []
        self.choice = choice or {}
        self.choice_space: dict[str, int] = {}
        self.named: dict[str, Any] = {}

    def assume(self, c: Any) -> None:
        self.assumptions.append(c)

    def pick(self, name: str, vals: list[Any]) -> Any:
        self.choice_space[name] = len(vals)
        return vals[self.choice.get(name, 0)]


def concretize(v: Any, ev: Callable[[Any], Any], live: bool) -> Any:
    if isinstance(v, (SInt,)):
        return ev(v)
    if isinstance(v, SBool):
        return ev(v)
    if isinstance(v, SObj):
        if not live:
            return SObj(v.cls, {k: concretize(x, ev, live) for k, x in v.fields.items()}, owner=-1, tag=v.tag)
        o = object.__new__(v.cls)
        for k, x in v.fields.items():
            if not k.startswith("$"):
                object.__setattr__(o, k, concretize(x, ev, live))
        return o
    if isinstance(v, tuple):
        return tuple(concretize(x, ev, live) for x in v)
    if hasattr(v, "pyvc_concretize"):
        return v.pyvc_concretize(ev, live)
    from .values import SList

    if isinstance(v, SList):
        return [concretize(x, ev, live) for x in v.items]
    return v


# ------------------------------------------------------------------------------------- contracts


@dataclass
class Case:
    kind: str  # 'ret' | 'raise'
    exc: tuple[type, ...] = ()
    when: Callable[[Any], Any] | None = None
    post: Callable[[Any, Any], Any] | None = None
    label: str = ""


@dataclass
class LoopSpec:
    invariant: Callable[[Any], Any]
    variant: Callable[[Any], Any] | None = None
    havoc: dict | None = None  # non-integer loop variables: name -> (eng, name) -> an arbitrary value of its type


@dataclass
class Contract:
    target: str
    props: list[str] = field(default_factory=list)
    name: str = ""
    args: list[tuple[str, Gen]] = field(default_factory=list)
    kwargs: list[tuple[str, Gen]] = field(default_factory=list)
    ghosts: list[tuple[str, Gen]] = field(default_factory=list)
    pre: list[Callable[[Any], Any]] = field(default_factory=list)
    cases: list[Case] = field(default_factory=list)
    loops: dict[tuple[str, int], LoopSpec] = field(default_factory=dict)
    unroll: dict[str, int] = field(default_factory=dict)
    pure: bool = True  # frame condition: no writes to pre-existing objects
    allow_mutation: Callable[[Any, str], bool] | None = None
    setup: Callable[[Any], None] | None = None  # hook to install extra models on the engine
    canary: bool = False  # deliberately false contract: must FAIL
    max_paths: int = 4000
    timeout_s: float = 60.0
    notes: str = ""
    min_obligations: int = 1
    bind: str = "auto"  # how the target is called: 'auto' resolves attribute on class / module
    post_writes: Callable[[Any, Any], Any] | None = None
    known: str = ""
    ground: Callable[[], Any] | None = None  # G-mode: finite domain enumerated completely (list of input dicts)
    ground_chunks: int = 1
    ground_interp_stride: int = 101
    vc_chunks: int = 1  # symbolic contracts: discharge the VCs in this many parallel jobs (each re-explores the paths)
    crosscheck: int = 12
    replayable: bool = True  # False: inputs are abstract models with no concrete realisation (no native replay)
    setup_in_crosscheck: bool = False
    tiers: tuple = ("quick", "thorough")  # ("thorough",): too heavy for the every-change tier
    weight: int = 0  # scheduling hint: heavier jobs are started first
    lemmas: list[Callable[[Any], Any]] = field(default_factory=list)  # proved from the precondition first, then assumed by every other obligation
    replay_hook: Callable[[dict], dict] | None = None  # custom native replay: model-evaluated inputs -> {"confirmed": bool, ...}

    # -- fluent helpers
    def arg(self, name: str, gen: Gen) -> "Contract":
        self.args.append((name, gen))
        return self

    def kwarg(self, name: str, gen: Gen) -> "Contract":
        self.kwargs.append((name, gen))
        return self

    def ghost(self, name: str, gen: Gen) -> "Contract":
        """An input that only the contract sees (not passed to the function)."""
        self.ghosts.append((name, gen))
        return self

    def lemma(self, f: Callable[[Any], Any]) -> "Contract":
        """A fact about the inputs that is PROVED as its own obligation (from the preconditions only) and then
        handed to every other obligation of the contract as a hypothesis."""
        self.lemmas.append(f)
        return self

    def requires(self, f: Callable[[Any], Any]) -> "Contract":
        self.pre.append(f)
        return self

    def returns(self, post: Callable[[Any, Any], Any], when: Callable[[Any], Any] | None = None, label: str = "") -> "Contract":
        self.cases.append(Case("ret", (), when, post, label))
        return self

    def raises(self, *exc: type, when: Callable[[Any], Any] | None = None, label: str = "") -> "Contract":
        self.cases.append(Case("raise", tuple(exc), when, None, label))
        return self

    def loop(self, func_qualname: str, ordinal: int, invariant: Callable[[Any], Any], variant: Callable[[Any], Any] | None = None, havoc: dict | None = None) -> "Contract":
        self.loops[(func_qualname, ordinal)] = LoopSpec(invariant, variant, havoc)
        return self


def contract(target: str, *props: str, name: str = "", **kw: Any) -> Callable[[Callable[[Contract], None]], Contract]:
    def deco(f: Callable[[Contract], None]) -> Contract:
        c = Contract(target=target, props=list(props), name=name or f"{target}{'#' + f.__name__ if f.__name__ != '_' else ''}", **kw)
        f(c)
        n = c.name
        i = 2
        while n in REGISTRY:
            n = f"{c.name}~{i}"
            i += 1
        c.name = n
        REGISTRY[n] = c
        return c

    return deco


def resolve(target: str) -> Any:
    """'pkg.mod:Class.attr' -> the raw attribute as stored in the class dict (function/property/classmethod)."""
    modname, _, path = target.partition(":")
    obj: Any = importlib.import_module(modname)
    if not path:
        return obj
    parts = path.split(".")
    for i, p in enumerate(parts):
        if isinstance(obj, type):
            # private names
            if p.startswith("__") and not p.endswith("__"):
                p = "_" + obj.__name__.lstrip("_") + p
            found = None
            for k in obj.__mro__:
                if p in vars(k):
                    found = vars(k)[p]
                    break
            if found is None:
                for k in type(obj).__mro__:
                    if p in vars(k):
                        found = vars(k)[p]
                        break
            if found is None:
                raise AttributeError(f"{target}: {p}")
            obj = found
        else:
            obj = getattr(obj, p)
    return obj
