"""Models (assumed contracts) for the few repository functions whose bodies are outside the integer subset.

Each entry is an *assumption* listed in evidence (`assumptions`), never a proved fact:
  A3  _towards_zero_division(x, y) == trunc(x / y) for ints with |x| < 10**27 (Decimal, 28 digits).
"""

from __future__ import annotations

import decimal
from typing import Any

from . import sym
from .sym import SInt, Unsupported
from .values import ExcValue, PyRaise

A3_BOUND = 10**27


def _tzd(eng: Any, x: Any, y: Any) -> Any:
    from .evalast import SymRatio

    if isinstance(x, (float, decimal.Decimal)) or isinstance(y, (float, decimal.Decimal)):
        if eng.all_concrete([x, y]):
            return eng.call_native(eng.live_tzd, [x, y], {})
        raise Unsupported("_towards_zero_division on float/Decimal with symbolic operand")
    if isinstance(x, SymRatio) or isinstance(y, SymRatio):
        raise Unsupported("_towards_zero_division on float ratio")
    if isinstance(x, int) and isinstance(y, int):
        return eng.call_native(eng.live_tzd, [x, y], {})
    eng.assumptions_used.add("A3")
    if eng.truth(y == 0):
        raise PyRaise(ExcValue(decimal.DivisionByZero, (), eng.cur_site()))
    inr = abs(x) < A3_BOUND
    if eng.provable(inr):
        eng.stats["A3.sites_in_range"] = eng.stats.get("A3.sites_in_range", 0) + 1
        return sym.trunc_div(x, y)
    if eng.truth(inr):
        return sym.trunc_div(x, y)
    # beyond 27 digits the Decimal quotient is rounded to 28 significant digits, or quantize() raises
    if not isinstance(y, int):
        raise Unsupported("_towards_zero_division: huge dividend with symbolic divisor")
    ax, ay = abs(x), abs(y)
    q = sym.floordiv(ax, ay)
    # quantize() raises InvalidOperation when the (rounded) quotient needs more than 28 digits
    undet = sym.fresh_bool("tzd_boundary")
    raises = sym.Or(q >= 10**28, sym.And(q == 10**28 - 1, undet))
    if eng.truth(raises):
        raise PyRaise(ExcValue(decimal.InvalidOperation, (), eng.cur_site()))
    r = sym.fresh_int("tzd")
    slack = sym.floordiv(ax, ay * 10**26) + 1
    eng.assume(sym.And(abs(r) >= q - slack, abs(r) <= q + slack, sym.Implies(r > 0, (x > 0) == (y > 0)), sym.Implies(r < 0, (x > 0) != (y > 0))))
    return r


def install(eng: Any) -> None:
    from pyoda_time.utility import _csharp_compatibility as cc

    eng.live_tzd = cc._towards_zero_division
    eng.func_models[cc._towards_zero_division] = _tzd
