"""Symbolic value layer.

Python `int` -> SMT Int (mathematical; Python ints are unbounded so no machine-arithmetic assumption).
The classes overload the Python operators with *Python* semantics (floor division, sign-of-divisor
modulo, arithmetic shifts, infinite two's-complement bit operations), so the same contract lambda can be
evaluated on symbolic terms (to build VCs) and on concrete ints (to replay counterexamples).
"""

from __future__ import annotations

from typing import Any

import z3

# ----------------------------------------------------------------------------------------------------
# terms


class SymBoolUse(Exception):
    """A symbolic Bool was used where Python needs a concrete truth value (contract bug or missing fork)."""


def _is_pow2(n: int) -> bool:
    return n > 0 and (n & (n - 1)) == 0


class SInt:
    __slots__ = ("t",)

    def __init__(self, t: z3.ArithRef) -> None:
        self.t = t

    # -- helpers
    @staticmethod
    def lift(v: Any) -> z3.ArithRef:
        if isinstance(v, SInt):
            return v.t
        if isinstance(v, SBool):
            return z3.If(v.t, z3.IntVal(1), z3.IntVal(0))
        if isinstance(v, bool):
            return z3.IntVal(1 if v else 0)
        if isinstance(v, int):
            return z3.IntVal(int(v))
        raise TypeError(f"cannot lift {type(v).__name__} to Int")

    def __repr__(self) -> str:
        return f"SInt({self.t})"

    def __hash__(self) -> int:
        return hash(self.t)

    def __bool__(self) -> bool:
        raise SymBoolUse(f"truth value of symbolic int {self.t}")

    def __index__(self) -> int:
        raise SymBoolUse(f"symbolic int used as index: {self.t}")

    # -- arithmetic
    def __add__(self, o: Any) -> Any:
        if not _intlike(o):
            return NotImplemented
        return mk_int(self.t + SInt.lift(o))

    __radd__ = __add__

    def __sub__(self, o: Any) -> Any:
        if not _intlike(o):
            return NotImplemented
        return mk_int(self.t - SInt.lift(o))

    def __rsub__(self, o: Any) -> Any:
        if not _intlike(o):
            return NotImplemented
        return mk_int(SInt.lift(o) - self.t)

    def __mul__(self, o: Any) -> Any:
        if not _intlike(o):
            return NotImplemented
        return mk_int(self.t * SInt.lift(o))

    __rmul__ = __mul__

    def __neg__(self) -> Any:
        return mk_int(-self.t)

    def __pos__(self) -> Any:
        return self

    def __abs__(self) -> Any:
        return mk_int(z3.If(self.t >= 0, self.t, -self.t))

    def __invert__(self) -> Any:
        return mk_int(-self.t - 1)

    def __floordiv__(self, o: Any) -> Any:
        if not _intlike(o):
            return NotImplemented
        return floordiv(self, o)

    def __rfloordiv__(self, o: Any) -> Any:
        if not _intlike(o):
            return NotImplemented
        return floordiv(o, self)

    def __mod__(self, o: Any) -> Any:
        if not _intlike(o):
            return NotImplemented
        return mod(self, o)

    def __rmod__(self, o: Any) -> Any:
        if not _intlike(o):
            return NotImplemented
        return mod(o, self)

    def __divmod__(self, o: Any) -> Any:
        return (floordiv(self, o), mod(self, o))

    def __rdivmod__(self, o: Any) -> Any:
        return (floordiv(o, self), mod(o, self))

    def __pow__(self, o: Any) -> Any:
        if isinstance(o, int) and not isinstance(o, bool) and 0 <= o <= 8:
            r: Any = 1
            for _ in range(o):
                r = self * r
            return r
        raise Unsupported(f"** with exponent {o!r}")

    def __rpow__(self, o: Any) -> Any:
        raise Unsupported("constant ** symbolic")

    def __lshift__(self, o: Any) -> Any:
        return lshift(self, o)

    def __rlshift__(self, o: Any) -> Any:
        return lshift(o, self)

    def __rshift__(self, o: Any) -> Any:
        return rshift(self, o)

    def __rrshift__(self, o: Any) -> Any:
        return rshift(o, self)

    def __and__(self, o: Any) -> Any:
        return bitand(self, o)

    __rand__ = __and__

    def __or__(self, o: Any) -> Any:
        return bitor(self, o)

    __ror__ = __or__

    def __xor__(self, o: Any) -> Any:
        return bitxor(self, o)

    __rxor__ = __xor__

    # -- comparisons
    def __lt__(self, o: Any) -> Any:
        if not _intlike(o):
            return NotImplemented
        return mk_bool(self.t < SInt.lift(o))

    def __le__(self, o: Any) -> Any:
        if not _intlike(o):
            return NotImplemented
        return mk_bool(self.t <= SInt.lift(o))

    def __gt__(self, o: Any) -> Any:
        if not _intlike(o):
            return NotImplemented
        return mk_bool(self.t > SInt.lift(o))

    def __ge__(self, o: Any) -> Any:
        if not _intlike(o):
            return NotImplemented
        return mk_bool(self.t >= SInt.lift(o))

    def __eq__(self, o: Any) -> Any:  # type: ignore[override]
        if not _intlike(o):
            return False
        return mk_bool(self.t == SInt.lift(o))

    def __ne__(self, o: Any) -> Any:  # type: ignore[override]
        if not _intlike(o):
            return True
        return mk_bool(self.t != SInt.lift(o))


class SBool:
    __slots__ = ("t",)

    def __init__(self, t: z3.BoolRef) -> None:
        self.t = t

    @staticmethod
    def lift(v: Any) -> z3.BoolRef:
        if isinstance(v, SBool):
            return v.t
        if isinstance(v, bool):
            return z3.BoolVal(v)
        if isinstance(v, SInt):
            return v.t != 0
        if isinstance(v, int):
            return z3.BoolVal(v != 0)
        if v is None:
            return z3.BoolVal(False)
        raise TypeError(f"cannot lift {type(v).__name__} to Bool")

    def __repr__(self) -> str:
        return f"SBool({self.t})"

    def __hash__(self) -> int:
        return hash(self.t)

    def __bool__(self) -> bool:
        raise SymBoolUse(f"truth value of symbolic bool {self.t}")

    # logical connectives for contract lambdas
    def __and__(self, o: Any) -> Any:
        return mk_bool(z3.And(self.t, SBool.lift(o)))

    __rand__ = __and__

    def __or__(self, o: Any) -> Any:
        return mk_bool(z3.Or(self.t, SBool.lift(o)))

    __ror__ = __or__

    def __invert__(self) -> Any:
        return mk_bool(z3.Not(self.t))

    def __xor__(self, o: Any) -> Any:
        return mk_bool(z3.Xor(self.t, SBool.lift(o)))

    __rxor__ = __xor__

    def __eq__(self, o: Any) -> Any:  # type: ignore[override]
        if isinstance(o, (SBool, bool)):
            return mk_bool(self.t == SBool.lift(o))
        if _intlike(o):
            return mk_bool(SInt.lift(self) == SInt.lift(o))
        return False

    def __ne__(self, o: Any) -> Any:  # type: ignore[override]
        r = self.__eq__(o)
        return Not(r)

    # bool is an int in Python
    def __add__(self, o: Any) -> Any:
        return mk_int(SInt.lift(self)) + o

    __radd__ = __add__

    def __sub__(self, o: Any) -> Any:
        return mk_int(SInt.lift(self)) - o

    def __rsub__(self, o: Any) -> Any:
        return o - mk_int(SInt.lift(self))

    def __mul__(self, o: Any) -> Any:
        return mk_int(SInt.lift(self)) * o

    __rmul__ = __mul__

    def __lt__(self, o: Any) -> Any:
        return mk_int(SInt.lift(self)) < o

    def __le__(self, o: Any) -> Any:
        return mk_int(SInt.lift(self)) <= o

    def __gt__(self, o: Any) -> Any:
        return mk_int(SInt.lift(self)) > o

    def __ge__(self, o: Any) -> Any:
        return mk_int(SInt.lift(self)) >= o


class SOpaque:
    """A symbolic value of an uninterpreted sort (strings used as names/ids, unknown objects)."""

    __slots__ = ("t", "kind")

    def __init__(self, t: z3.ExprRef, kind: str) -> None:
        self.t = t
        self.kind = kind

    def __repr__(self) -> str:
        return f"SOpaque[{self.kind}]({self.t})"

    def __hash__(self) -> int:
        return hash(self.t)

    def __eq__(self, o: Any) -> Any:  # type: ignore[override]
        if isinstance(o, SOpaque) and o.kind == self.kind:
            return mk_bool(self.t == o.t)
        return NotImplemented

    def __ne__(self, o: Any) -> Any:  # type: ignore[override]
        r = self.__eq__(o)
        if r is NotImplemented:
            return r
        return Not(r)


class Unsupported(Exception):
    """Construct outside the encoded subset: extraction fails loudly (undecided, never a violation)."""


def _intlike(v: Any) -> bool:
    return isinstance(v, (SInt, SBool, int))  # bool is int


def is_sym(v: Any) -> bool:
    return isinstance(v, (SInt, SBool, SOpaque))


def mk_int(t: Any) -> Any:
    t = z3.simplify(t) if not z3.is_int_value(t) else t
    if z3.is_int_value(t):
        return t.as_long()
    return SInt(t)


def mk_bool(t: Any) -> Any:
    t = z3.simplify(t)
    if z3.is_true(t):
        return True
    if z3.is_false(t):
        return False
    return SBool(t)


# ----------------------------------------------------------------------------------------------------
# Python integer semantics


def floordiv(a: Any, b: Any) -> Any:
    if isinstance(a, int) and isinstance(b, int):
        return a // b
    ta, tb = SInt.lift(a), SInt.lift(b)
    if isinstance(b, int) and not isinstance(b, bool):
        if b > 0:
            return mk_int(ta / tb)  # z3 Int '/' is div: floor for positive divisor
        if b < 0:
            # floor(a / b) = floor(-a / -b)
            return mk_int((-ta) / z3.IntVal(-b))
        raise ZeroDivisionError
    q = ta / tb
    r = ta % tb
    return mk_int(z3.If(tb > 0, q, z3.If(r == 0, q, q - 1)))


def mod(a: Any, b: Any) -> Any:
    if isinstance(a, int) and isinstance(b, int):
        return a % b
    ta, tb = SInt.lift(a), SInt.lift(b)
    if isinstance(b, int) and not isinstance(b, bool):
        if b > 0:
            return mk_int(ta % tb)
        if b < 0:
            # python: result has sign of divisor: a - b*floor(a/b)
            return mk_int(-((-ta) % z3.IntVal(-b)))
        raise ZeroDivisionError
    fd = floordiv(a, b)
    return mk_int(ta - tb * SInt.lift(fd))


def _small_range(k: Any, limit: int = 64) -> tuple[int, int] | None:
    """(lo, hi) with hi - lo < limit such that lo <= k <= hi is provable under the current path condition."""
    for lo, hi in ((0, 7), (0, 15), (0, 31), (0, 63)):
        if hi - lo < limit and _provable(And(k >= lo, k <= hi)):
            return lo, hi
    return None


def _shift_sym(a: Any, k: Any, left: bool) -> Any:
    r = _small_range(k)
    if r is None:
        raise Unsupported("shift by a symbolic amount that is not provably within 0..63")
    lo, hi = r
    f = (lambda j: lshift(a, j)) if left else (lambda j: rshift(a, j))
    res = f(hi)
    for j in range(hi - 1, lo - 1, -1):
        res = ite(k == j, f(j), res)
    return res


def lshift(a: Any, k: Any) -> Any:
    if isinstance(a, int) and isinstance(k, int):
        return a << k
    if isinstance(k, int):
        if k < 0:
            raise ValueError("negative shift count")
        return mk_int(SInt.lift(a) * (1 << k))
    return _shift_sym(a, k, True)


def rshift(a: Any, k: Any) -> Any:
    if isinstance(a, int) and isinstance(k, int):
        return a >> k
    if isinstance(k, int):
        if k < 0:
            raise ValueError("negative shift count")
        return mk_int(SInt.lift(a) / z3.IntVal(1 << k))
    return _shift_sym(a, k, False)


def _ite_leaves_map(t: Any, f: Any, budget: list[int]) -> Any:
    """Rebuild an if-then-else tree with integer-constant leaves, applying f to each leaf; None if t is not one."""
    if z3.is_int_value(t):
        budget[0] -= 1
        if budget[0] < 0:
            return None
        return z3.IntVal(f(t.as_long()))
    if z3.is_app_of(t, z3.Z3_OP_ITE):
        c, x, y = t.children()
        xx = _ite_leaves_map(x, f, budget)
        if xx is None:
            return None
        yy = _ite_leaves_map(y, f, budget)
        if yy is None:
            return None
        return z3.If(c, xx, yy)
    return None


def _map_const_op(a: Any, b: Any, op: Any) -> Any:
    """op(const, ite-tree-of-consts) computed leaf-wise."""
    for x, y in ((a, b), (b, a)):
        if isinstance(x, int) and isinstance(y, SInt):
            r = _ite_leaves_map(y.t, lambda v, x=x: op(x, v), [256])
            if r is not None:
                return mk_int(r)
    return None


POW2 = z3.Function("py_pow2", z3.IntSort(), z3.IntSort())
SHR = z3.Function("py_shr", z3.IntSort(), z3.IntSort(), z3.IntSort())
_BITAND = z3.Function("py_bitand", z3.IntSort(), z3.IntSort(), z3.IntSort())
_BITOR = z3.Function("py_bitor", z3.IntSort(), z3.IntSort(), z3.IntSort())
_BITXOR = z3.Function("py_bitxor", z3.IntSort(), z3.IntSort(), z3.IntSort())

# hook set by the interpreter: prove(cond) -> bool under the current path condition
_prover: list[Any] = [None]


def _provable(cond: Any) -> bool:
    if isinstance(cond, bool):
        return cond
    p = _prover[0]
    if p is None:
        return False
    return bool(p(cond))


def _mask_runs(m: int) -> list[tuple[int, int]]:
    """Decompose a non-negative mask into (shift, width) runs of consecutive one bits."""
    runs = []
    i = 0
    while m >> i:
        if (m >> i) & 1:
            j = i
            while (m >> j) & 1:
                j += 1
            runs.append((i, j - i))
            i = j
        else:
            i += 1
    return runs


def _small_width(v: Any) -> int | None:
    """k <= 8 such that 0 <= v < 2**k is provable under the current path condition."""
    if isinstance(v, int):
        if 0 <= v < 256:
            return max(1, v.bit_length())
        return None
    for k in (1, 2, 3, 4, 8):
        if _provable(And(v >= 0, v < (1 << k))):
            return k
    return None


def _bit(v: Any, j: int) -> Any:
    return mod(floordiv(v, 1 << j), 2)


def _and_small(x: Any, y: Any, k: int) -> Any:
    """x & y where 0 <= y < 2**k: sum over the k low bits (x may be any integer: infinite two's complement)."""
    total: Any = 0
    for j in range(k):
        total = total + ite(And(_bit(x, j) == 1, _bit(y, j) == 1), 1 << j, 0)
    return total


def bitand(a: Any, b: Any) -> Any:
    if isinstance(a, int) and isinstance(b, int):
        return a & b
    if isinstance(a, SBool) or isinstance(b, SBool):
        if isinstance(a, (SBool, bool)) and isinstance(b, (SBool, bool)):
            return mk_bool(z3.And(SBool.lift(a), SBool.lift(b)))
    m = _map_const_op(a, b, lambda p, q: p & q)
    if m is not None:
        return m
    if isinstance(a, int):
        a, b = b, a
    if isinstance(b, int) and not isinstance(b, bool):
        ta = SInt.lift(a)
        if b >= 0:
            total: Any = 0
            for s, w in _mask_runs(b):
                total = total + mk_int(((ta / z3.IntVal(1 << s)) % z3.IntVal(1 << w)) * (1 << s))
            return total
        # negative constant mask: a & b = a - (a & ~b), with ~b >= 0
        return a - bitand(a, ~b)
    for x, y in ((a, b), (b, a)):
        if not isinstance(y, SBool):
            k = _small_width(y)
            if k is not None:
                return _and_small(x, y, k)
    return mk_int(_BITAND(SInt.lift(a), SInt.lift(b)))


def _low_zero_bits(v: Any) -> int:
    """Largest k (<= 64) such that v is provably a multiple of 2**k (syntactic)."""
    if isinstance(v, int):
        if v == 0:
            return 64
        k = 0
        while k < 64 and (v >> k) & 1 == 0:
            k += 1
        return k
    t = v.t if isinstance(v, SInt) else None
    if t is None:
        return 0
    if z3.is_mul(t):
        best = 0
        for ch in t.children():
            if z3.is_int_value(ch):
                best += _low_zero_bits(ch.as_long())
        return min(best, 64)
    if z3.is_add(t):
        return min(_low_zero_bits(mk_int(ch)) for ch in t.children())
    if z3.is_app_of(t, z3.Z3_OP_ITE):
        return min(_low_zero_bits(mk_int(t.arg(1))), _low_zero_bits(mk_int(t.arg(2))))
    return 0


def bitor(a: Any, b: Any) -> Any:
    if isinstance(a, int) and isinstance(b, int):
        return a | b
    if isinstance(a, (SBool, bool)) and isinstance(b, (SBool, bool)):
        return mk_bool(z3.Or(SBool.lift(a), SBool.lift(b)))
    # disjoint-bits rule: a multiple of 2^k, 0 <= b < 2^k  =>  a | b == a + b
    for x, y in ((a, b), (b, a)):
        k = _low_zero_bits(x)
        if k > 0:
            for kk in range(k, 0, -1):
                if isinstance(y, int):
                    ok = 0 <= y < (1 << kk)
                else:
                    ok = _provable(And(y >= 0, y < (1 << kk)))
                if ok:
                    return x + y
                if not isinstance(y, int):
                    break
    for x, y in ((a, b), (b, a)):
        if not isinstance(y, (SBool, bool)) and not isinstance(x, (SBool, bool)):
            k = _small_width(y)
            if k is not None:
                return x + y - _and_small(x, y, k)
    return mk_int(_BITOR(SInt.lift(a), SInt.lift(b)))


def bitxor(a: Any, b: Any) -> Any:
    if isinstance(a, int) and isinstance(b, int):
        return a ^ b
    if isinstance(a, (SBool, bool)) and isinstance(b, (SBool, bool)):
        return mk_bool(z3.Xor(SBool.lift(a), SBool.lift(b)))
    # x ^ s with s in {0,-1}: ite(s == 0, x, ~x)
    for x, y in ((a, b), (b, a)):
        if not isinstance(y, int) and _provable(Or(y == 0, y == -1)):
            return ite(y == 0, x, -x - 1)
    if isinstance(a, int) and a == 0:
        return b
    if isinstance(b, int) and b == 0:
        return a
    for x, y in ((a, b), (b, a)):
        k = _small_width(y)
        if k is not None:
            return x + y - 2 * _and_small(x, y, k)
    return mk_int(_BITXOR(SInt.lift(a), SInt.lift(b)))


# ----------------------------------------------------------------------------------------------------
# logical helpers usable on concrete and symbolic operands


def And(*xs: Any) -> Any:
    if all(isinstance(x, bool) for x in xs):
        return all(xs)
    if any(x is False for x in xs):
        return False
    return mk_bool(z3.And(*[SBool.lift(x) for x in xs]))


def Or(*xs: Any) -> Any:
    if all(isinstance(x, bool) for x in xs):
        return any(xs)
    if any(x is True for x in xs):
        return True
    return mk_bool(z3.Or(*[SBool.lift(x) for x in xs]))


def Not(x: Any) -> Any:
    if isinstance(x, bool):
        return not x
    return mk_bool(z3.Not(SBool.lift(x)))


def Implies(a: Any, b: Any) -> Any:
    return Or(Not(a), b)


def Iff(a: Any, b: Any) -> Any:
    if isinstance(a, bool) and isinstance(b, bool):
        return a == b
    return mk_bool(SBool.lift(a) == SBool.lift(b))


def ite(c: Any, a: Any, b: Any) -> Any:
    if isinstance(c, bool):
        return a if c else b
    if a is b:
        return a
    ct = SBool.lift(c)
    if isinstance(a, (SBool, bool)) and isinstance(b, (SBool, bool)):
        return mk_bool(z3.If(ct, SBool.lift(a), SBool.lift(b)))
    if _intlike(a) and _intlike(b):
        return mk_int(z3.If(ct, SInt.lift(a), SInt.lift(b)))
    if isinstance(a, tuple) and isinstance(b, tuple) and len(a) == len(b):
        return tuple(ite(c, x, y) for x, y in zip(a, b))
    if isinstance(a, SOpaque) and isinstance(b, SOpaque) and a.kind == b.kind:
        return SOpaque(z3.If(ct, a.t, b.t), a.kind)
    raise Unsupported(f"ite over {type(a).__name__}/{type(b).__name__}")


def trunc_div(a: Any, b: Any) -> Any:
    """Division truncating towards zero (C#-style)."""
    if isinstance(a, int) and isinstance(b, int):
        q = abs(a) // abs(b)
        return q if (a >= 0) == (b >= 0) else -q
    if isinstance(b, int):
        if b > 0:
            return ite(a >= 0, floordiv(a, b), -floordiv(-a, b))
        return ite(a >= 0, -floordiv(a, -b), floordiv(-a, -b))
    return ite(
        b > 0,
        ite(a >= 0, floordiv(a, b), -floordiv(-a, b)),
        ite(a >= 0, -floordiv(a, -b), floordiv(-a, -b)),
    )


def trunc_mod(a: Any, b: Any) -> Any:
    return a - b * trunc_div(a, b)


def pymin(*xs: Any) -> Any:
    r = xs[0]
    for x in xs[1:]:
        r = ite(x < r, x, r)
    return r


def pymax(*xs: Any) -> Any:
    r = xs[0]
    for x in xs[1:]:
        r = ite(x > r, x, r)
    return r


def pyabs(x: Any) -> Any:
    return abs(x)


_counter = [0]


def fresh_int(name: str) -> SInt:
    _counter[0] += 1
    return SInt(z3.Int(f"{name}!{_counter[0]}"))


def fresh_bool(name: str) -> SBool:
    _counter[0] += 1
    return SBool(z3.Bool(f"{name}!{_counter[0]}"))


def var_int(name: str) -> SInt:
    return SInt(z3.Int(name))


def var_bool(name: str) -> SBool:
    return SBool(z3.Bool(name))
