"""Run-time value representations of the symbolic interpreter (besides plain Python objects)."""

from __future__ import annotations

import ast
from typing import Any

_obj_counter = [0]


class SObj:
    """An instance of a (real) class whose fields may hold symbolic values."""

    __slots__ = ("cls", "fields", "owner", "oid", "tag")

    def __init__(self, cls: type, fields: dict[str, Any] | None = None, owner: int = 0, tag: str = "") -> None:
        self.cls = cls
        self.fields = fields if fields is not None else {}
        self.owner = owner
        _obj_counter[0] += 1
        self.oid = _obj_counter[0]
        self.tag = tag

    def __repr__(self) -> str:
        return f"SObj<{self.cls.__name__}#{self.oid}>({self.fields})"


class BoundMethod:
    __slots__ = ("func", "self_", "defcls")

    def __init__(self, func: Any, self_: Any, defcls: type | None = None) -> None:
        self.func = func
        self.self_ = self_
        self.defcls = defcls

    def __repr__(self) -> str:
        return f"BoundMethod({getattr(self.func, '__qualname__', self.func)}, {self.self_!r})"


class Closure:
    """A function or lambda defined inside interpreted code."""

    __slots__ = ("node", "env", "fctx", "name")

    def __init__(self, node: ast.AST, env: Any, fctx: Any, name: str) -> None:
        self.node = node
        self.env = env
        self.fctx = fctx
        self.name = name

    def __repr__(self) -> str:
        return f"Closure({self.name})"


class SuperProxy:
    __slots__ = ("defcls", "obj", "is_cls")

    def __init__(self, defcls: type, obj: Any, is_cls: bool) -> None:
        self.defcls = defcls
        self.obj = obj
        self.is_cls = is_cls


class ExcValue:
    """An exception instance created by interpreted code."""

    __slots__ = ("etype", "args", "site", "cause")

    def __init__(self, etype: type, args: tuple = (), site: str = "") -> None:
        self.etype = etype
        self.args = args
        self.site = site
        self.cause = None

    def __repr__(self) -> str:
        return f"ExcValue({self.etype.__name__} @ {self.site})"


class PyRaise(Exception):
    """Propagation of an interpreted exception through the interpreter's own frames."""

    def __init__(self, exc: ExcValue) -> None:
        super().__init__(exc.etype.__name__)
        self.exc = exc


class SStr:
    """A string with symbolic content that is never inspected (messages)."""

    __slots__ = ()

    def __repr__(self) -> str:
        return "SStr(?)"

    def format(self, *a: Any, **k: Any) -> "SStr":
        return self


OPAQUE_STR = SStr()


class SList:
    """A Python list whose elements are interpreter values (length concrete)."""

    __slots__ = ("items", "owner")

    def __init__(self, items: list[Any], owner: int = 0) -> None:
        self.items = items
        self.owner = owner

    def __repr__(self) -> str:
        return f"SList({self.items})"


class SDict:
    __slots__ = ("items", "owner")

    def __init__(self, items: dict[Any, Any], owner: int = 0) -> None:
        self.items = items
        self.owner = owner

    def __repr__(self) -> str:
        return f"SDict({self.items})"

MISSING = object()
