"""Strings with symbolic characters (C07 / C08 / C17).

A SymStr has a CONCRETE length; each character is either a concrete 1-character str or a symbolic code point
(SInt).  This is what the text code of the repository needs: digits rendered from symbolic integers, and input texts
whose characters are unknown.  All operators go through the interpreter (pyvc_model hooks); any accidental native
use (hashing, ==, str methods that are not modelled) raises Unsupported instead of silently computing on a wrong
value.

Assumed semantics of the Python string operations that are modelled (assumption A10):
  format(int, '0N' / '0Nd' / 'N' / '0>N' / '' / 'd'), str(int)   decimal digits, '-' sign, zero padding as documented
  s[i], s[a:b], s + t, len(s), s == t, single-character ordering by code point, lexicographic ordering
  c.isdigit()   exactly the code points for which the running interpreter's str.isdigit is true (table computed at
                import from the interpreter itself: '0'..'9' and the Unicode No/Nd digit ranges above U+0080)
  int(digits)   positional value of ASCII digits; int(c) of ONE character: its decimal value when c.isdecimal()
                (same kind of table), ValueError otherwise
  s.lower()/upper() on ASCII (characters >= U+0080: Unsupported)
"""

from __future__ import annotations

from typing import Any

import z3

from . import sym
from .sym import And, Not, Or, SBool, SInt, Unsupported

UNI_DIGIT = z3.Function("UNI_DIGIT", z3.IntSort(), z3.BoolSort())
UNI_DECIMAL = z3.Function("UNI_DECIMAL", z3.IntSort(), z3.BoolSort())
UNI_DECVAL = z3.Function("UNI_DECVAL", z3.IntSort(), z3.IntSort())
MAX_CP = 0x10FFFF


def _ranges(pred: Any) -> list[tuple[int, int]]:
    out, start = [], None
    for cp in range(128, MAX_CP + 2):
        if cp <= MAX_CP and pred(chr(cp)):
            if start is None:
                start = cp
        elif start is not None:
            out.append((start, cp - 1))
            start = None
    return out


_TABLES: dict[str, Any] = {}


def _tables() -> dict[str, Any]:
    """The interpreter's own isdigit / isdecimal tables above U+0080, as code point ranges; decimal ranges are cut
    into blocks whose first character has value 0 so that the value is (cp - start) % 10 (checked here)."""
    if not _TABLES:
        _TABLES["digit"] = _ranges(str.isdigit)
        dec = _ranges(str.isdecimal)
        for a, b in dec:
            for cp in range(a, b + 1):
                if int(chr(cp)) != (cp - a) % 10:
                    raise Unsupported(f"decimal digit block U+{a:04X}..U+{b:04X} is not a run of 0..9")
        _TABLES["decimal"] = dec
    return _TABLES


def _define(c: Any) -> None:
    """State, for the character term c, what the three tables say (added to the path at most once)."""
    e = _eng()
    if e is None or not isinstance(c, SInt):
        return
    t = c.t
    d = _DEFNS.get(t.get_id())
    if d is None:
        tb = _tables()
        dig = z3.Or(*[z3.And(t >= a, t <= b) for a, b in tb["digit"]])
        dec = z3.Or(*[z3.And(t >= a, t <= b) for a, b in tb["decimal"]])
        val = z3.And(*[z3.Implies(z3.And(t >= a, t <= b), UNI_DECVAL(t) == (t - a) % 10) for a, b in tb["decimal"]])
        d = z3.And(UNI_DIGIT(t) == dig, UNI_DECIMAL(t) == dec, val)
        _DEFNS[t.get_id()] = d
        _KEEP.append(t)
    did = d.get_id()
    if any(p.get_id() == did for p in e.pc):
        return
    e.assume(SBool(d))


def unicode_definitions(goal: list[Any]) -> list[Any]:
    """Exact tables for every UNI_DIGIT / UNI_DECIMAL / UNI_DECVAL application occurring in a VC."""
    found: dict[int, tuple[Any, set[str]]] = {}
    seen: set[int] = set()
    stack = list(goal)
    while stack:
        x = stack.pop()
        i = x.get_id()
        if i in seen:
            continue
        seen.add(i)
        if z3.is_app(x):
            if x.num_args() == 1 and x.decl().name() in ("UNI_DIGIT", "UNI_DECIMAL", "UNI_DECVAL"):
                a = x.arg(0)
                found.setdefault(a.get_id(), (a, set()))[1].add(x.decl().name())
            stack.extend(x.children())
        elif z3.is_quantifier(x):
            stack.append(x.body())
    out = []
    if found:
        tb = _tables()
        for t, names in found.values():
            if "UNI_DIGIT" in names:
                out.append(UNI_DIGIT(t) == z3.Or(*[z3.And(t >= a, t <= b) for a, b in tb["digit"]]))
            if "UNI_DECIMAL" in names:
                out.append(UNI_DECIMAL(t) == z3.Or(*[z3.And(t >= a, t <= b) for a, b in tb["decimal"]]))
            if "UNI_DECVAL" in names:
                out.append(z3.And(*[z3.Implies(z3.And(t >= a, t <= b), UNI_DECVAL(t) == (t - a) % 10) for a, b in tb["decimal"]]))
    return out


_DEFNS: dict[int, Any] = {}
_KEEP: list[Any] = []  # keeps the terms alive so that ids are not reused


def _eng() -> Any:
    from . import core

    return core.CURRENT[0]


def code(c: Any) -> Any:
    return ord(c) if isinstance(c, str) else c


def mk(chars: Any) -> Any:
    chars = tuple(chars)
    if all(isinstance(c, str) for c in chars):
        return "".join(chars)
    return SymStr(chars)


def chars_of(s: Any) -> tuple:
    if isinstance(s, SymStr):
        return s.chars
    if isinstance(s, str):
        return tuple(s)
    raise Unsupported(f"string operation on {type(s).__name__}")


def is_strlike(s: Any) -> bool:
    return isinstance(s, (str, SymStr))


class SymStr:
    pyvc_model = True
    pyvc_symbolic = True
    pyvc_pytype = str
    __slots__ = ("chars",)

    def __init__(self, chars: tuple) -> None:
        self.chars = tuple(c if isinstance(c, (str, SInt)) else (sym.mk_int(c) if isinstance(c, z3.ExprRef) else SInt.lift(c)) for c in chars)
        # a symbolic character that is in fact a numeral is a concrete character
        self.chars = tuple(chr(c) if isinstance(c, int) and not isinstance(c, bool) else c for c in self.chars)

    # ---- anything native is an error
    def __hash__(self) -> int:
        raise Unsupported("hash of a symbolic string")

    def __eq__(self, other: Any) -> Any:  # pragma: no cover
        raise Unsupported("native == on a symbolic string")

    def __repr__(self) -> str:
        return "SymStr(" + "".join(c if isinstance(c, str) else "?" for c in self.chars) + ")"

    def __len__(self) -> int:
        return len(self.chars)

    def __iter__(self) -> Any:
        return iter([mk((c,)) for c in self.chars])

    def __getitem__(self, i: Any) -> Any:
        if isinstance(i, slice):
            if any(isinstance(x, (SInt, SBool)) for x in (i.start, i.stop, i.step)):
                raise Unsupported("symbolic slice bounds on a symbolic string")
            return mk(self.chars[i])
        if isinstance(i, SInt):
            return self.pyvc_getitem(_eng(), i)
        try:
            return mk((self.chars[i],))
        except IndexError:
            e = _eng()
            if e is None:
                raise
            e.raise_(IndexError, "string index out of range")

    def pyvc_getitem(self, eng: Any, i: Any) -> Any:
        if isinstance(i, slice):
            return self[i]
        if isinstance(i, SInt):
            n = len(self.chars)
            for k in range(-n, n):
                if eng.truth(i == k):
                    return mk((self.chars[k],))
            eng.raise_(IndexError, "string index out of range")
        return self[i]

    # ---- str methods
    def isdigit(self) -> Any:
        if not self.chars:
            return False
        return And(*[is_digit_char(c) for c in self.chars])

    def _case(self, lower: bool) -> Any:
        e = _eng()
        out = []
        for c in self.chars:
            if isinstance(c, str):
                out.append(c.lower() if lower else c.upper())
                if len(out[-1]) != 1:
                    raise Unsupported("case mapping changes the length")
                continue
            if e is None or not e.truth(c < 128):
                raise Unsupported("case mapping of a possibly non-ASCII symbolic character")
            if lower:
                out.append(sym.ite(And(c >= 65, c <= 90), c + 32, c))
            else:
                out.append(sym.ite(And(c >= 97, c <= 122), c - 32, c))
        return mk(out)

    def lower(self) -> Any:
        return self._case(True)

    def upper(self) -> Any:
        return self._case(False)

    def startswith(self, prefix: Any) -> Any:
        p = chars_of(prefix)
        if len(p) > len(self.chars):
            return False
        return str_eq(mk(self.chars[: len(p)]), prefix)

    def endswith(self, suffix: Any) -> Any:
        p = chars_of(suffix)
        if len(p) > len(self.chars):
            return False
        return str_eq(mk(self.chars[len(self.chars) - len(p) :]), suffix)

    def pyvc_int(self, eng: Any) -> Any:
        if not self.chars:
            eng.raise_(ValueError, "invalid literal for int()")
        v: Any = 0
        for c in self.chars:
            cc = code(c)
            if not eng.truth(And(cc >= 48, cc <= 57)):
                if len(self.chars) != 1:
                    raise Unsupported("int() of several symbolic characters that are not provably ASCII digits")
                _define(cc)
                if eng.truth(And(cc >= 128, sym.mk_bool(UNI_DECIMAL(cc.t)))):
                    return SInt(UNI_DECVAL(cc.t))
                eng.raise_(ValueError, "invalid literal for int() with base 10")
            v = v * 10 + (cc - 48)
        return v

    def pyvc_concretize(self, ev: Any, live: bool) -> str:
        return "".join(c if isinstance(c, str) else chr(ev(c)) for c in self.chars)

    # ---- operators
    def pyvc_binop(self, eng: Any, dn: str, other: Any, reflected: bool) -> Any:
        if dn == "__add__" and is_strlike(other):
            a, b = (chars_of(other), self.chars) if reflected else (self.chars, chars_of(other))
            return mk(a + b)
        if dn == "__mul__" and isinstance(other, int):
            return mk(self.chars * other)
        if dn == "__mod__":
            raise Unsupported("% formatting with a symbolic string")
        return NotImplemented

    def pyvc_compare(self, eng: Any, dn: str, other: Any, reflected: bool) -> Any:
        if not is_strlike(other):
            if dn == "__eq__":
                return False
            if dn == "__ne__":
                return True
            return NotImplemented
        a, b = (other, self) if reflected else (self, other)
        if dn == "__eq__":
            return str_eq(a, b)
        if dn == "__ne__":
            return Not(str_eq(a, b))
        lt = str_lt(a, b)
        eq = str_eq(a, b)
        return {"__lt__": lt, "__le__": Or(lt, eq), "__gt__": Not(Or(lt, eq)), "__ge__": Not(lt)}[dn]

    def pyvc_contains(self, eng: Any, x: Any) -> Any:
        p = chars_of(x)
        n, k = len(self.chars), len(p)
        if k > n:
            return False
        return Or(*[str_eq(mk(self.chars[i : i + k]), x) for i in range(n - k + 1)])


def is_digit_char(c: Any) -> Any:
    if isinstance(c, str):
        return c.isdigit()
    # UNI_DIGIT stays uninterpreted while paths are explored (an over-approximation: more paths, never fewer); every
    # VC that mentions it is discharged with its exact table (unicode_definitions, called from verify.discharge)
    return Or(And(c >= 48, c <= 57), And(c >= 128, sym.mk_bool(UNI_DIGIT(c.t))))


def str_eq(a: Any, b: Any) -> Any:
    ca, cb = chars_of(a), chars_of(b)
    if len(ca) != len(cb):
        return False
    parts = []
    for x, y in zip(ca, cb):
        if isinstance(x, str) and isinstance(y, str):
            if x != y:
                return False
            continue
        parts.append(code(x) == code(y))
    return And(*parts) if parts else True


def str_lt(a: Any, b: Any) -> Any:
    ca, cb = chars_of(a), chars_of(b)
    # lexicographic by code point
    res: Any = len(ca) < len(cb)
    for x, y in reversed(list(zip(ca, cb))):
        cx, cy = code(x), code(y)
        res = Or(cx < cy, And(cx == cy, res))
    return res


def fresh_text(name: str, length: int, b: Any = None) -> SymStr:
    """`length` unknown characters (any code point)."""
    cs = []
    for i in range(length):
        v = sym.var_int(f"{name}[{i}]")
        (b.assume if b is not None else _eng().assume)(And(v >= 0, v <= MAX_CP))
        cs.append(v)
    return SymStr(tuple(cs))


# ------------------------------------------------------------------------------------------------- formatting of integers
def _parse_spec(spec: str) -> dict:
    """The subset of the format mini-language used by the repository: [[fill]align][0][width][d]"""
    s = spec
    out = {"fill": " ", "align": None, "zero": False, "width": 0}
    if len(s) >= 2 and s[1] in "<>=^":
        out["fill"], out["align"] = s[0], s[1]
        s = s[2:]
    elif s[:1] in ("<", ">", "=", "^"):
        out["align"] = s[0]
        s = s[1:]
    if s[:1] == "0":
        out["zero"] = True
        s = s[1:]
    digits = ""
    while s[:1].isdigit():
        digits += s[0]
        s = s[1:]
    out["width"] = int(digits) if digits else 0
    if s not in ("", "d"):
        raise Unsupported(f"format spec {spec!r}")
    return out


def digits_of(eng: Any, mag: Any, min_digits: int, max_digits: int = 40) -> tuple:
    """Decimal digits (most significant first) of the non-negative integer `mag`, at least `min_digits` of them
    (zero padded).  Forks over the number of digits when it is not determined by the path condition."""
    nd = None
    lo = max(min_digits, 1)
    if eng.provable(mag < 10**lo):
        nd = lo
    else:
        for k in range(lo, max_digits + 1):
            if eng.truth(mag < 10**k):
                nd = k
                break
        if nd is None:
            raise Unsupported("integer with more than 40 digits in a format operation")
    # digits by repeated division by ten (least significant first), which keeps every constraint linear
    out = []
    q = mag
    for _ in range(nd):
        out.append(sym.mod(q, 10) + 48)
        q = sym.floordiv(q, 10)
    ds = tuple(reversed(out))
    if isinstance(mag, SInt) and nd > 1 and getattr(eng, "decimal_lemmas", False):
        # lemma (proved here as its own obligation, then available to later obligations): Horner evaluation of the
        # digits gives the number back -- the form in which the scanners rebuild it
        h: Any = 0
        for d in ds:
            h = h * 10 + (d - 48)
        fact = sym.Implies(And(mag >= 0, mag < 10**nd), h == mag)
        eng.oblige(fact, f"lemma.decimal-digits({nd})", kind="lemma", site=eng.cur_site())
        eng.assume(fact)
    return ds


def format_int(eng: Any, v: Any, spec: str) -> Any:
    eng.assumptions_used.add("A10")
    sp = _parse_spec(spec)
    neg = eng.truth(v < 0)
    mag = -v if neg else v
    width = sp["width"]
    if sp["zero"] and sp["align"] in (None, "="):
        # sign-aware zero padding: total width includes the sign
        ds = digits_of(eng, mag, max(width - (1 if neg else 0), 1))
        return mk((("-",) if neg else ()) + ds)
    ds = digits_of(eng, mag, 1)
    body = (("-",) if neg else ()) + ds
    pad = max(0, width - len(body))
    fill = sp["fill"] if sp["align"] is not None else " "
    align = sp["align"] or ">"
    if sp["zero"] and sp["align"] is not None:
        fill = sp["fill"]
    if align == ">":
        return mk((fill,) * pad + body)
    if align == "<":
        return mk(body + (fill,) * pad)
    if align == "=":
        return mk((("-",) if neg else ()) + (fill,) * pad + ds)
    left = pad // 2
    return mk((fill,) * left + body + (fill,) * (pad - left))
