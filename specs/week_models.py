"""Spec functions of _SimpleWeekYearRule over the calendar contract CAL, and their modular use at call sites.

Each model below is the contract proved for the real method in contracts/c16_weeks.py:
  __get_week_year_days_since_epoch(calc, y)  == W(rule, y)
  get_weeks_in_week_year(y, cal)             == WEEKS(rule, y)      (ValueError outside the rule's week-year range)
  get_week_year(date)                        == WY(rule, date)
  get_week_of_week_year(date)                == (n - W(WY)) // 7 + 1
"""

from __future__ import annotations

from typing import Any

from pyvc import sym
from pyvc.sym import And, Implies, Not, Or, ite

from . import cal_abs as CA
from . import views as V


def mind(r: Any) -> Any:
    return V.fld(r, "_SimpleWeekYearRule__min_days_in_first_week")


def first(r: Any) -> Any:
    return V.fld(r, "_SimpleWeekYearRule__first_day_of_week")


def irregular(r: Any) -> Any:
    return V.fld(r, "_SimpleWeekYearRule__irregular_weeks")


def dow(n: Any) -> Any:
    """ISO weekday of day number n (1970-01-01 = day 0 = Thursday)."""
    return (n + 3) % 7 + 1


def W(rule: Any, cid: Any, y: Any) -> Any:
    """Start of week-year y by the rule's *definition*: the week (starting on first_day) containing the first day of
    calendar year y is week 1 iff at least min_days of its days fall in year y; otherwise week 1 is the next week."""
    s = CA.soy(cid, y)
    back = (dow(s) - first(rule)) % 7
    w0 = s - back
    return ite(7 - back >= mind(rule), w0, w0 + 7)


def WEEKS(rule: Any, cid: Any, y: Any) -> Any:
    """Number of weeks of week-year y: the days of calendar year y plus the days of week 1 that precede the year
    start, plus (regular rules) the min_days-1 days the last week may borrow from the next year / (irregular rules) a
    full 6 so that the short last week is counted -- divided into whole weeks.  That regular week-years tile the day
    line (W(y) + 7*WEEKS(y) == W(y+1)) and irregular ones end with the week containing the last day of the year is the
    separate contract `weeks_tile`."""
    start = W(rule, cid, y)
    extra_start = CA.soy(cid, y) - start
    extra_end = ite(irregular(rule), 6, mind(rule) - 1)
    return (CA.diy(cid, y) + extra_start + extra_end) // 7


def WY(rule: Any, cid: Any, y: Any, n: Any) -> Any:
    """Week-year of day number n lying in calendar year y."""
    return ite(n < W(rule, cid, y), y - 1, ite(irregular(rule), y, ite(n < W(rule, cid, y + 1), y, y + 1)))


def wy_range(rule: Any, ac: Any) -> tuple[Any, Any]:
    """[min, max] week-year accepted by the rule for calendar `ac` (as documented in __validate_week_year)."""
    c = ac.cid
    lo = ite(W(rule, c, ac.min_year) > CA.soy(c, ac.min_year), ac.min_year - 1, ac.min_year)
    hi = ite(Or(irregular(rule), W(rule, c, ac.max_year + 1) > CA.soy(c, ac.max_year + 1) - 1), ac.max_year, ac.max_year + 1)
    return lo, hi


def install(eng: Any, which: set[str]) -> None:
    from pyoda_time.calendars._simple_week_year_rule import _SimpleWeekYearRule as R

    def ac_of_calc(calc: Any) -> Any:
        for ac in eng.abs_cals:
            if ac.calc is calc:
                return ac
        raise sym.Unsupported("week model: unknown calculator")

    def ac_of_system(system: Any) -> Any:
        for ac in eng.abs_cals:
            if ac.system is system:
                return ac
        raise sym.Unsupported("week model: unknown calendar system")

    def ac_of_date(date: Any) -> Any:
        o = V.ld_ord(date)
        for ac in eng.abs_cals:
            if eng.provable(o == ac.ordinal):
                return ac
        raise sym.Unsupported("week model: date of unknown calendar")

    def touch(ac: Any, *years: Any) -> None:
        for y in years:
            ac.touch_year(eng, y)
            ac.touch_year(eng, y + 1)

    if "W" in which:
        def m_w(eng: Any, self_: Any, calc: Any, week_year: Any) -> Any:
            ac = ac_of_calc(calc)
            eng.oblige(And(week_year >= ac.min_year - 1, week_year <= ac.max_year + 1), "CAL.pre: week-year start needs the year within one year of the range", kind="callee-pre", site=eng.cur_site())
            touch(ac, week_year)
            return W(self_, ac.cid, week_year)

        eng.func_models[vars(R)["_SimpleWeekYearRule__get_week_year_days_since_epoch"]] = m_w

    if "WEEKS" in which:
        def m_weeks(eng: Any, self_: Any, week_year: Any, calendar: Any = None) -> Any:
            ac = ac_of_system(calendar)
            lo, hi = wy_range(self_, ac)
            touch(ac, ac.min_year, ac.max_year, week_year)
            if not eng.truth(And(week_year >= lo, week_year <= hi)):
                eng.raise_(ValueError, "week_year out of range")
            return WEEKS(self_, ac.cid, week_year)

        eng.func_models[vars(R)["get_weeks_in_week_year"]] = m_weeks

    if "WY" in which:
        def m_wy(eng: Any, self_: Any, date: Any) -> Any:
            ac = ac_of_date(date)
            y = V.ld_y(date)
            touch(ac, y, y - 1)
            n = CA.dse(ac.cid, y, V.ld_m(date), V.ld_d(date))
            return WY(self_, ac.cid, y, n)

        eng.func_models[vars(R)["get_week_year"]] = m_wy
