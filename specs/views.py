"""Abstract views and invariants of the value types (DESIGN.md §3.2).

Every function works on symbolic objects (pyvc.values.SObj) and on real instances alike, so that a
counterexample can be re-evaluated concretely on the real code's result.
"""

from __future__ import annotations

from typing import Any

from pyvc.sym import And, Iff, Implies, Not, Or, ite, trunc_div, trunc_mod  # noqa: F401
from pyvc.values import SObj

NPD = 86_400_000_000_000
NPH = 3_600_000_000_000
NPM = 60_000_000_000
NPS = 1_000_000_000
NPMS = 1_000_000
NPUS = 1_000
NPT = 100
TPD = NPD // NPT

DUR_MAX_DAYS = (1 << 30) - 1
DUR_MIN_DAYS = -(1 << 30)
DUR_MIN_NS = DUR_MIN_DAYS * NPD
DUR_MAX_NS = (DUR_MAX_DAYS + 1) * NPD - 1

INSTANT_MIN_DAYS = -4371222
INSTANT_MAX_DAYS = 2932896
OFFSET_MAX_SECONDS = 18 * 3600


def fld(o: Any, name: str) -> Any:
    """Field access by mangled name on SObj or real object."""
    if isinstance(o, SObj):
        return o.fields[name]
    if name.startswith("$"):
        # ghost components of packed words: on real objects read them through the real accessors
        try:
            return object.__getattribute__(o, name)
        except AttributeError:
            return int(getattr(o, {"$y": "_year", "$m": "_month", "$d": "_day", "$o": "_calendar_ordinal"}[name]))
    return object.__getattribute__(o, name)


def isinst(o: Any, clsname: str) -> bool:
    cls = o.cls if isinstance(o, SObj) else type(o)
    return any(k.__name__ == clsname for k in cls.__mro__)


# ---- Duration
def d_days(d: Any) -> Any:
    return fld(d, "_Duration__days")


def d_nano(d: Any) -> Any:
    return fld(d, "_Duration__nano_of_day")


def ns(d: Any) -> Any:
    return d_days(d) * NPD + d_nano(d)


def inv_duration(d: Any) -> Any:
    return And(isinst(d, "Duration"), d_days(d) >= DUR_MIN_DAYS, d_days(d) <= DUR_MAX_DAYS, d_nano(d) >= 0, d_nano(d) < NPD)


def dur_in_range(n: Any) -> Any:
    return And(n >= DUR_MIN_NS, n <= DUR_MAX_NS)


def is_duration_of(r: Any, n: Any) -> Any:
    """r is a normalised Duration whose exact value is n nanoseconds."""
    return And(inv_duration(r), ns(r) == n)


# ---- Offset
def off_seconds(o: Any) -> Any:
    return fld(o, "_Offset__seconds")


def inv_offset(o: Any) -> Any:
    return And(isinst(o, "Offset"), off_seconds(o) >= -OFFSET_MAX_SECONDS, off_seconds(o) <= OFFSET_MAX_SECONDS)


# ---- Instant / _LocalInstant
def inst_duration(i: Any) -> Any:
    return fld(i, "_Instant__duration")


def inst_ns(i: Any) -> Any:
    return ns(inst_duration(i))


def inv_instant_valid(i: Any) -> Any:
    d = inst_duration(i)
    return And(isinst(i, "Instant"), inv_duration(d), d_days(d) >= INSTANT_MIN_DAYS, d_days(d) <= INSTANT_MAX_DAYS)


def linst_duration(i: Any) -> Any:
    return fld(i, "_LocalInstant__duration")


# ---- LocalTime
def lt_nanos(t: Any) -> Any:
    return fld(t, "_LocalTime__nanoseconds")


def inv_local_time(t: Any) -> Any:
    return And(isinst(t, "LocalTime"), lt_nanos(t) >= 0, lt_nanos(t) < NPD)


INSTANT_MIN_NS = INSTANT_MIN_DAYS * NPD
INSTANT_MAX_NS = (INSTANT_MAX_DAYS + 1) * NPD - 1


def inst_in_range(n: Any) -> Any:
    return And(n >= INSTANT_MIN_NS, n <= INSTANT_MAX_NS)


def is_instant_of(r: Any, n: Any) -> Any:
    return And(inv_instant_valid(r), inst_ns(r) == n)


def is_before_min(i: Any, cls: str = "Instant") -> Any:
    d = fld(i, f"_{cls.lstrip('_')}__duration")
    return And(isinst(i, cls), d_days(d) == DUR_MIN_DAYS, d_nano(d) == 0)


def is_after_max(i: Any, cls: str = "Instant") -> Any:
    d = fld(i, f"_{cls.lstrip('_')}__duration")
    return And(isinst(i, cls), d_days(d) == DUR_MAX_DAYS, d_nano(d) == 0)


def inv_instant_any(i: Any) -> Any:
    """Valid instant or one of the two sentinels."""
    return And(inv_duration(inst_duration(i)), Or(inv_instant_valid(i), is_before_min(i), is_after_max(i)))


def linst_ns(i: Any) -> Any:
    return ns(linst_duration(i))


def inv_linstant_valid(i: Any) -> Any:
    d = linst_duration(i)
    return And(isinst(i, "_LocalInstant"), inv_duration(d), d_days(d) >= INSTANT_MIN_DAYS, d_days(d) <= INSTANT_MAX_DAYS)


def inv_linstant_any(i: Any) -> Any:
    return And(inv_duration(linst_duration(i)), Or(inv_linstant_valid(i), is_before_min(i, "_LocalInstant"), is_after_max(i, "_LocalInstant")))


def is_linstant_of(r: Any, n: Any) -> Any:
    return And(inv_linstant_valid(r), linst_ns(r) == n)


def floor_div(a: Any, b: int) -> Any:
    return a // b


def sign_agrees(r: Any, diff: Any) -> Any:
    """sign(r) == sign(diff)"""
    return And(Iff(r < 0, diff < 0), Iff(r == 0, diff == 0), Iff(r > 0, diff > 0))


# ---- dates (ghost components of packed words; see specs/packmodel.py)
def ld_ymdc(d: Any) -> Any:
    return fld(d, "_LocalDate__year_month_day_calendar")


def ld_y(d: Any) -> Any:
    return fld(ld_ymdc(d), "$y")


def ld_m(d: Any) -> Any:
    return fld(ld_ymdc(d), "$m")


def ld_d(d: Any) -> Any:
    return fld(ld_ymdc(d), "$d")


def ld_ord(d: Any) -> Any:
    return fld(ld_ymdc(d), "$o")


def ymd_y(o: Any) -> Any:
    return fld(o, "$y")


def ymd_m(o: Any) -> Any:
    return fld(o, "$m")


def ymd_d(o: Any) -> Any:
    return fld(o, "$d")


# ---- LocalDateTime
def ldt_date(x: Any) -> Any:
    return fld(x, "_LocalDateTime__date")


def ldt_time(x: Any) -> Any:
    return fld(x, "_LocalDateTime__time")


def per(p: Any, name: str) -> Any:
    return fld(p, f"_Period__{name}")


def period_time_ns(p: Any) -> Any:
    return per(p, "hours") * NPH + per(p, "minutes") * NPM + per(p, "seconds") * NPS + per(p, "milliseconds") * NPMS + per(p, "ticks") * NPT + per(p, "nanoseconds")


# ---- OffsetTime / OffsetDateTime
OT_SHIFT = 1 << 47


def ot_word(t: Any) -> Any:
    return fld(t, "_OffsetTime__nanoseconds_and_offset")


def ot_n(t: Any) -> Any:
    return ot_word(t) % OT_SHIFT


def ot_off(t: Any) -> Any:
    return ot_word(t) // OT_SHIFT


def inv_offset_time(t: Any) -> Any:
    return And(isinst(t, "OffsetTime"), ot_n(t) >= 0, ot_n(t) < NPD, ot_off(t) >= -OFFSET_MAX_SECONDS, ot_off(t) <= OFFSET_MAX_SECONDS)


def odt_date(x: Any) -> Any:
    return fld(x, "_OffsetDateTime__local_date")


def odt_ot(x: Any) -> Any:
    return fld(x, "_OffsetDateTime__offset_time")
