"""Assumed contracts (models) of the standard library's datetime types, for C15.

The bridge functions of the repository hand integers to `datetime.date/time/datetime/timedelta/timezone` and read
integers back.  The verifier does not look inside the C implementation of those types; it uses the following
*abstract views* and the documented behaviour of the operations on them (assumption A5, cross-checked against
CPython on every run through the encoder cross-check, which runs the same contracts on real stdlib values):

  timedelta  ~ total microseconds  (an integer with |days| <= 999_999_999, else OverflowError)
  date       ~ day number relative to 1970-01-01 within [0001-01-01, 9999-12-31], else OverflowError / ValueError
  time       ~ (hour, minute, second, microsecond[, tzinfo]) each in range, else ValueError
  datetime   ~ (day number, microsecond of day, tzinfo)
  tzinfo     ~ fixed utcoffset in microseconds, strictly between -24 h and +24 h

`datetime(year, month, day, ...)` is the proleptic Gregorian calendar: its day number is the day number the calendar
interface contract CAL assigns to (year, month, day) of the abstract calendar standing for `CalendarSystem.gregorian`
(C02 proves the real Gregorian calculator equal to the published algorithm and compares every year start with
datetime.date on each run).

The model classes subclass the real types so that `isinstance` in the repository code behaves; all operators are
dispatched by the interpreter to `pyvc_binop` / `pyvc_compare` before Python's own protocol is consulted."""

from __future__ import annotations

import datetime as _dt
from typing import Any

from pyvc import sym
from pyvc.sym import And, Or, SInt, Unsupported

ENG: list[Any] = [None]
GREG: list[Any] = [None]  # the abstract calendar standing for the proleptic Gregorian calendar of the stdlib

EPOCH = _dt.date(1970, 1, 1).toordinal()
MIN_ORD = _dt.date.min.toordinal() - EPOCH
MAX_ORD = _dt.date.max.toordinal() - EPOCH
US_DAY = 86_400_000_000
TD_MAX_DAYS = 999_999_999


def _eng() -> Any:
    from pyvc import core

    return core.CURRENT[0]


def _symbolic(*vs: Any) -> bool:
    return any(isinstance(v, (SInt, sym.SBool)) for v in vs)


def _check(cond: Any, exc: type, msg: str) -> None:
    """Raise `exc` unless cond."""
    e = _eng()
    if e is None:
        if cond is not True:
            raise exc(msg)
        return
    if not e.truth(cond):
        e.raise_(exc, msg)


# ------------------------------------------------------------------------------------------------- timedelta
class MDelta(_dt.timedelta):
    pyvc_model = True

    def __new__(cls, us: Any) -> "MDelta":
        o = _dt.timedelta.__new__(cls)
        o.us = us
        return o

    @property
    def days(self) -> Any:  # type: ignore[override]
        return sym.floordiv(self.us, US_DAY)

    @property
    def seconds(self) -> Any:  # type: ignore[override]
        return sym.floordiv(sym.mod(self.us, US_DAY), 1_000_000)

    @property
    def microseconds(self) -> Any:  # type: ignore[override]
        return sym.mod(self.us, 1_000_000)

    def total_seconds(self) -> Any:  # type: ignore[override]
        return MFloatSeconds(self.us)

    def __repr__(self) -> str:
        return f"MDelta(us={self.us})"

    def pyvc_concretize(self, ev: Any, live: bool) -> Any:
        return _dt.timedelta(microseconds=ev(self.us))

    def pyvc_binop(self, eng: Any, dn: str, other: Any, reflected: bool) -> Any:
        if dn == "__add__":
            if isinstance(other, _dt.timedelta):
                return make_delta(self.us + delta_us(other))
            if isinstance(other, _dt.datetime):
                return shift_datetime(other, self.us)
            if isinstance(other, _dt.date):
                return shift_date(other, self.us)
        if dn == "__sub__":
            if isinstance(other, _dt.timedelta):
                return make_delta(delta_us(other) - self.us if reflected else self.us - delta_us(other))
            if reflected and isinstance(other, _dt.datetime):
                return shift_datetime(other, -self.us)
            if reflected and isinstance(other, _dt.date):
                return shift_date(other, -self.us)
        if dn == "__neg__":
            return make_delta(-self.us)
        raise Unsupported(f"timedelta model: operator {dn}")

    def pyvc_compare(self, eng: Any, dn: str, other: Any, reflected: bool) -> Any:
        if not isinstance(other, _dt.timedelta):
            return NotImplemented
        a, b = (delta_us(other), self.us) if reflected else (self.us, delta_us(other))
        return _cmp(dn, a, b)


def _cmp(dn: str, a: Any, b: Any) -> Any:
    return {"__eq__": lambda: a == b, "__ne__": lambda: a != b, "__lt__": lambda: a < b, "__le__": lambda: a <= b, "__gt__": lambda: a > b, "__ge__": lambda: a >= b}[dn]()


def delta_us(td: Any) -> Any:
    """View: total microseconds of a timedelta (model or real)."""
    if isinstance(td, MDelta):
        return td.us
    return (td.days * 86400 + td.seconds) * 1_000_000 + td.microseconds


def make_delta(us: Any) -> Any:
    _check(And(us >= -TD_MAX_DAYS * US_DAY, us < (TD_MAX_DAYS + 1) * US_DAY), OverflowError, "days out of range for timedelta")
    if not _symbolic(us):
        return _dt.timedelta(microseconds=us)
    return MDelta(us)


def timedelta_model(eng: Any, days: Any = 0, seconds: Any = 0, microseconds: Any = 0, milliseconds: Any = 0, minutes: Any = 0, hours: Any = 0, weeks: Any = 0) -> Any:
    parts = (days, seconds, microseconds, milliseconds, minutes, hours, weeks)
    if any(isinstance(p, float) for p in parts) or any(type(p).__name__ in ("SymRatio", "MFloatSeconds") for p in parts):
        raise Unsupported("timedelta() with float arguments")
    if not _symbolic(*parts):
        return eng.call_native_raw(_dt.timedelta, list(parts), {})
    us = ((weeks * 7 + days) * 86400 + hours * 3600 + minutes * 60 + seconds) * 1_000_000 + milliseconds * 1000 + microseconds
    return make_delta(us)


class MFloatSeconds:
    """The float returned by timedelta.total_seconds(): only its use as `x * 10_000_000` followed by truncation
    through _towards_zero_division(x, 1) is modelled (see tzd_float)."""

    def __init__(self, us: Any, scale: int = 1) -> None:
        self.us, self.scale = us, scale

    pyvc_model = True

    def pyvc_binop(self, eng: Any, dn: str, other: Any, reflected: bool) -> Any:
        if dn == "__mul__" and isinstance(other, int) and not isinstance(other, bool) and self.scale == 1:
            return MFloatSeconds(self.us, other)
        raise Unsupported("float arithmetic on total_seconds()")

    def pyvc_compare(self, eng: Any, dn: str, other: Any, reflected: bool) -> Any:
        raise Unsupported("float comparison on total_seconds()")


def tzd_float(eng: Any, x: MFloatSeconds, y: Any) -> Any:
    """_towards_zero_division(td.total_seconds() * k, 1) (assumption A13, IEEE-754 double arithmetic):
    total_seconds() = fl(us / 10**6) and the product fl(. * k) are correctly rounded, so the product differs from the
    exact value q = us*k/10**6 by at most |q| * 2**-51; Decimal(float) is exact and 28 digits hold any double below
    10**17 exactly to 1e-11.  When us is a whole number of seconds and |q| < 2**53 both operations are exact.
    Result t = trunc(product), hence: exact case t == q; otherwise |t - q| <= 1 + |q| * 2**-51 (stated with the
    integer bound 10**15 * |10**6 * t - us*k| <= 10**21 + 10 * |us*k|)."""
    if y != 1:
        raise Unsupported("_towards_zero_division(float, y != 1)")
    eng.assumptions_used.add("A13")
    us, k = x.us, x.scale
    exact_q = sym.trunc_div(us * k, 1_000_000)
    whole = And(sym.mod(us, 1_000_000) == 0, abs(us) * k < 2**53 * 1_000_000)
    if eng.truth(whole):
        return exact_q
    t = sym.fresh_int("tzd_float")
    err = abs(t * 1_000_000 - us * k)
    eng.assume(err * 10**15 <= 10**21 + 10**6 * 10**15 + 10 * abs(us * k))
    # sign: a non-zero double never truncates across zero
    eng.assume(sym.Implies(us > 0, t >= 0))
    eng.assume(sym.Implies(us < 0, t <= 0))
    return t


# ------------------------------------------------------------------------------------------------- date
class MDate(_dt.date):
    pyvc_model = True

    def __new__(cls, ord_: Any) -> "MDate":
        o = _dt.date.__new__(cls, 1, 1, 1)
        o.ord = ord_
        return o

    def __repr__(self) -> str:
        return f"MDate(ord={self.ord})"

    @property
    def year(self) -> Any:  # type: ignore[override]
        raise Unsupported("date.year on the abstract date")

    month = day = year

    def pyvc_concretize(self, ev: Any, live: bool) -> Any:
        return _dt.date.fromordinal(ev(self.ord) + EPOCH)

    def pyvc_binop(self, eng: Any, dn: str, other: Any, reflected: bool) -> Any:
        if dn == "__sub__" and isinstance(other, _dt.date) and not isinstance(other, _dt.datetime):
            d = date_ord(other) - self.ord if reflected else self.ord - date_ord(other)
            return make_delta(d * US_DAY)
        if dn == "__add__" and isinstance(other, _dt.timedelta):
            return shift_date(self, delta_us(other))
        if dn == "__sub__" and not reflected and isinstance(other, _dt.timedelta):
            return shift_date(self, -delta_us(other))
        raise Unsupported(f"date model: operator {dn}")

    def pyvc_compare(self, eng: Any, dn: str, other: Any, reflected: bool) -> Any:
        if not isinstance(other, _dt.date) or isinstance(other, _dt.datetime):
            return NotImplemented
        a, b = (date_ord(other), self.ord) if reflected else (self.ord, date_ord(other))
        return _cmp(dn, a, b)


def date_ord(d: Any) -> Any:
    """View: day number relative to 1970-01-01 of a date / datetime (model or real)."""
    if isinstance(d, (MDate, MDateTime)):
        return d.ord
    return d.toordinal() - EPOCH


def make_date(ord_: Any, exc: type = OverflowError) -> Any:
    _check(And(ord_ >= MIN_ORD, ord_ <= MAX_ORD), exc, "date value out of range")
    if not _symbolic(ord_):
        return _dt.date.fromordinal(ord_ + EPOCH)
    return MDate(ord_)


def shift_date(d: Any, us: Any) -> Any:
    # date + timedelta ignores the sub-day part of the timedelta (uses timedelta.days)
    return make_date(date_ord(d) + sym.floordiv(us, US_DAY))


def _greg_ord(y: Any, m: Any, d: Any) -> Any:
    """Day number of proleptic-Gregorian (y, m, d); ValueError outside year 1..9999 / invalid month or day."""
    g = GREG[0]
    if g is None or not _symbolic(y, m, d):
        if _symbolic(y, m, d):
            raise Unsupported("datetime(year, month, day) with symbolic fields needs the abstract Gregorian calendar")
        try:
            return _dt.date(y, m, d).toordinal() - EPOCH
        except ValueError as ex:
            _check(False, ValueError, str(ex))
    from specs import cal_abs

    eng = _eng()
    if eng is not None:
        eng.assume(cal_abs.miy(g.cid, y) == 12)  # Gregorian years have 12 months (ground obligation in contracts/c15_bridge.py)
        g.touch_month(eng, y, m)
    _check(And(y >= 1, y <= 9999), ValueError, "year is out of range")
    _check(And(m >= 1, m <= 12), ValueError, "month must be in 1..12")
    _check(And(d >= 1, d <= cal_abs.dim(g.cid, y, m)), ValueError, "day is out of range for month")
    return cal_abs.dse(g.cid, y, m, d)


def date_model(eng: Any, year: Any, month: Any, day: Any) -> Any:
    if not _symbolic(year, month, day):
        return eng.call_native_raw(_dt.date, [year, month, day], {})
    return MDate(_greg_ord(year, month, day))


# ------------------------------------------------------------------------------------------------- time
class MTime(_dt.time):
    pyvc_model = True

    def __new__(cls, h: Any, mi: Any, s: Any, us: Any, tz: Any = None) -> "MTime":
        o = _dt.time.__new__(cls)
        o.h, o.mi, o.s, o.usec, o.tz = h, mi, s, us, tz
        return o

    hour = property(lambda self: self.h)  # type: ignore[assignment]
    minute = property(lambda self: self.mi)  # type: ignore[assignment]
    second = property(lambda self: self.s)  # type: ignore[assignment]
    microsecond = property(lambda self: self.usec)  # type: ignore[assignment]
    tzinfo = property(lambda self: self.tz)  # type: ignore[assignment]
    fold = property(lambda self: 0)  # type: ignore[assignment]

    def __repr__(self) -> str:
        return f"MTime({self.h}, {self.mi}, {self.s}, {self.usec}, tz={self.tz})"

    def pyvc_concretize(self, ev: Any, live: bool) -> Any:
        return _dt.time(ev(self.h), ev(self.mi), ev(self.s), ev(self.usec), tzinfo=_conc_tz(self.tz, ev))

    def pyvc_binop(self, eng: Any, dn: str, other: Any, reflected: bool) -> Any:
        raise Unsupported("time model: operators")

    def pyvc_compare(self, eng: Any, dn: str, other: Any, reflected: bool) -> Any:
        if not isinstance(other, _dt.time):
            return NotImplemented
        a, b = time_us(self), time_us(other)
        if reflected:
            a, b = b, a
        return _cmp(dn, a, b)


def time_us(t: Any) -> Any:
    """View: microsecond of day of a time / datetime."""
    if isinstance(t, MDateTime):
        return t.us
    return ((t.hour * 60 + t.minute) * 60 + t.second) * 1_000_000 + t.microsecond


def _check_hmsu(h: Any, mi: Any, s: Any, us: Any) -> None:
    _check(And(h >= 0, h <= 23), ValueError, "hour must be in 0..23")
    _check(And(mi >= 0, mi <= 59), ValueError, "minute must be in 0..59")
    _check(And(s >= 0, s <= 59), ValueError, "second must be in 0..59")
    _check(And(us >= 0, us <= 999_999), ValueError, "microsecond must be in 0..999999")


def time_model(eng: Any, hour: Any = 0, minute: Any = 0, second: Any = 0, microsecond: Any = 0, tzinfo: Any = None, *, fold: Any = 0) -> Any:
    if not _symbolic(hour, minute, second, microsecond) and not getattr(type(tzinfo), "pyvc_model", False):
        return eng.call_native_raw(_dt.time, [hour, minute, second, microsecond, tzinfo], {"fold": fold})
    _check_hmsu(hour, minute, second, microsecond)
    return MTime(hour, minute, second, microsecond, tzinfo)


# ------------------------------------------------------------------------------------------------- tzinfo
class MTz(_dt.tzinfo):
    pyvc_model = True

    def __init__(self, off_us: Any) -> None:
        self.off_us = off_us

    def utcoffset(self, dt: Any) -> Any:  # noqa: ARG002
        return MDelta(self.off_us) if _symbolic(self.off_us) else _dt.timedelta(microseconds=self.off_us)

    def __repr__(self) -> str:
        return f"MTz({self.off_us})"

    def pyvc_concretize(self, ev: Any, live: bool) -> Any:
        return _dt.timezone(_dt.timedelta(microseconds=ev(self.off_us)))

    def pyvc_binop(self, eng: Any, dn: str, other: Any, reflected: bool) -> Any:
        raise Unsupported("tzinfo model: operators")

    def pyvc_compare(self, eng: Any, dn: str, other: Any, reflected: bool) -> Any:
        return NotImplemented


def _conc_tz(tz: Any, ev: Any) -> Any:
    return tz.pyvc_concretize(ev, True) if isinstance(tz, MTz) else tz


def tz_us(tz: Any, dt: Any = None) -> Any:
    """View: utcoffset in microseconds of a tzinfo (model or real fixed-offset)."""
    if tz is None:
        return None
    if isinstance(tz, MTz):
        return tz.off_us
    return delta_us(tz.utcoffset(dt))


def timezone_model(eng: Any, offset: Any, name: Any = None) -> Any:
    if not isinstance(offset, MDelta):
        return eng.call_native_raw(_dt.timezone, [offset] + ([name] if name is not None else []), {})
    _check(And(offset.us > -US_DAY, offset.us < US_DAY), ValueError, "offset must be a timedelta strictly between -timedelta(hours=24) and timedelta(hours=24)")
    return MTz(offset.us)


# ------------------------------------------------------------------------------------------------- datetime
class MDateTime(_dt.datetime):
    pyvc_model = True

    def __new__(cls, ord_: Any, us: Any, tz: Any = None, ymd: Any = None) -> "MDateTime":
        o = _dt.datetime.__new__(cls, 1, 1, 1)
        o.ord, o.us, o.tz, o.ymd = ord_, us, tz, ymd
        return o

    tzinfo = property(lambda self: self.tz)  # type: ignore[assignment]
    hour = property(lambda self: sym.floordiv(self.us, 3_600_000_000))  # type: ignore[assignment]
    minute = property(lambda self: sym.mod(sym.floordiv(self.us, 60_000_000), 60))  # type: ignore[assignment]
    second = property(lambda self: sym.mod(sym.floordiv(self.us, 1_000_000), 60))  # type: ignore[assignment]
    microsecond = property(lambda self: sym.mod(self.us, 1_000_000))  # type: ignore[assignment]
    fold = property(lambda self: 0)  # type: ignore[assignment]

    @property
    def year(self) -> Any:  # type: ignore[override]
        raise Unsupported("datetime.year on the abstract datetime")

    month = day = year

    def __repr__(self) -> str:
        return f"MDateTime(ord={self.ord}, us={self.us}, tz={self.tz})"

    def replace(self, **kw: Any) -> Any:  # type: ignore[override]
        if set(kw) - {"tzinfo"}:
            raise Unsupported("datetime.replace of fields other than tzinfo")
        return MDateTime(self.ord, self.us, kw["tzinfo"], self.ymd)

    def utcoffset(self) -> Any:  # type: ignore[override]
        return None if self.tz is None else self.tz.utcoffset(self)

    def date(self) -> Any:  # type: ignore[override]
        return MDate(self.ord)

    def pyvc_concretize(self, ev: Any, live: bool) -> Any:
        d = _dt.date.fromordinal(ev(self.ord) + EPOCH)
        us = ev(self.us)
        return _dt.datetime(d.year, d.month, d.day, us // 3_600_000_000, us // 60_000_000 % 60, us // 1_000_000 % 60, us % 1_000_000, tzinfo=_conc_tz(self.tz, ev))

    def pyvc_binop(self, eng: Any, dn: str, other: Any, reflected: bool) -> Any:
        if dn == "__sub__" and isinstance(other, _dt.datetime):
            a_tz, b_tz = self.tz, other.tzinfo
            if (a_tz is None) != (b_tz is None):
                eng.raise_(TypeError, "can't subtract offset-naive and offset-aware datetimes")
            a = self.ord * US_DAY + self.us
            b = date_ord(other) * US_DAY + time_us(other)
            if a_tz is not None:
                a, b = a - tz_us(a_tz, self), b - tz_us(b_tz, other)
            return make_delta(b - a if reflected else a - b)
        if dn == "__add__" and isinstance(other, _dt.timedelta):
            return shift_datetime(self, delta_us(other))
        if dn == "__sub__" and not reflected and isinstance(other, _dt.timedelta):
            return shift_datetime(self, -delta_us(other))
        raise Unsupported(f"datetime model: operator {dn}")

    def pyvc_compare(self, eng: Any, dn: str, other: Any, reflected: bool) -> Any:
        raise Unsupported("datetime model: comparison")


def shift_datetime(d: Any, us: Any) -> Any:
    total = date_ord(d) * US_DAY + time_us(d) + us
    o = sym.floordiv(total, US_DAY)
    _check(And(o >= MIN_ORD, o <= MAX_ORD), OverflowError, "date value out of range")
    return _mk_datetime(o, sym.mod(total, US_DAY), d.tzinfo)


def _mk_datetime(o: Any, us: Any, tz: Any) -> Any:
    if not _symbolic(o, us) and not isinstance(tz, MTz):
        dd = _dt.date.fromordinal(o + EPOCH)
        return _dt.datetime(dd.year, dd.month, dd.day, tzinfo=tz) + _dt.timedelta(microseconds=us) if tz is None else _dt.datetime(dd.year, dd.month, dd.day, us // 3_600_000_000, us // 60_000_000 % 60, us // 1_000_000 % 60, us % 1_000_000, tzinfo=tz)
    return MDateTime(o, us, tz)


def datetime_model(eng: Any, year: Any, month: Any = None, day: Any = None, hour: Any = 0, minute: Any = 0, second: Any = 0, microsecond: Any = 0, tzinfo: Any = None, *, fold: Any = 0) -> Any:
    if not _symbolic(year, month, day, hour, minute, second, microsecond) and not isinstance(tzinfo, MTz):
        return eng.call_native_raw(_dt.datetime, [year, month, day, hour, minute, second, microsecond, tzinfo], {"fold": fold})
    o = _greg_ord(year, month, day)
    _check_hmsu(hour, minute, second, microsecond)
    us = ((hour * 60 + minute) * 60 + second) * 1_000_000 + microsecond
    return MDateTime(o, us, tzinfo, (year, month, day))


# ------------------------------------------------------------------------------------------------- installation
def install(eng: Any, greg: Any = None) -> None:
    GREG[0] = greg
    eng.assumptions_used.add("A5")
    eng.models[_dt.timedelta] = timedelta_model
    eng.models[_dt.date] = date_model
    eng.models[_dt.time] = time_model
    eng.models[_dt.datetime] = datetime_model
    eng.models[_dt.timezone] = timezone_model
    from pyvc import repo_models

    prev = eng.func_models[eng.live_tzd.__wrapped__ if hasattr(eng.live_tzd, "__wrapped__") else eng.live_tzd]

    def tzd(e: Any, x: Any, y: Any) -> Any:
        if isinstance(x, MFloatSeconds):
            return tzd_float(e, x, y)
        return prev(e, x, y)

    eng.func_models[eng.live_tzd] = tzd
    _ = repo_models


def uninstall() -> None:
    ENG[0] = None
    GREG[0] = None
