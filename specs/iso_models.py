"""Modular use of the Gregorian fast path through the calendar interface contract.

_GregorianYearMonthDayCalculator._get_gregorian_year_month_day_calendar_from_days_since_epoch(days) is proved (on the
real Gregorian tables, contracts/c01_calendars.py: "[ISO] Gregorian fast-path day -> date", a ground obligation over every day of the range) to return the ISO date of day number `days`
and to raise ValueError outside the ISO range.  In proofs over CAL the ISO calendar is an abstract calendar with
ordinal 0 (gens.IsoAbsCalG); this model states that contract in terms of that abstract calendar."""

from __future__ import annotations

from typing import Any

from pyvc import sym
from pyvc.sym import And

from . import cal_abs as CA
from . import packmodel


def install(eng: Any, iso_ac: Any) -> None:
    from pyoda_time.calendars._gregorian_year_month_day_calculator import _GregorianYearMonthDayCalculator as G

    real = vars(G)["_get_gregorian_year_month_day_calendar_from_days_since_epoch"].__func__

    def model(eng: Any, cls: Any, days: Any) -> Any:
        c = iso_ac.cid
        inr = And(days >= CA.soy(c, iso_ac.min_year), days <= CA.soy(c, iso_ac.max_year + 1) - 1)
        if not eng.truth(inr):
            eng.raise_(ValueError, "days_since_epoch out of range")
        y, m, d = sym.fresh_int("iso_y"), sym.fresh_int("iso_m"), sym.fresh_int("iso_d")
        iso_ac.touch_month(eng, y, m)
        iso_ac.touch_year(eng, y + 1)
        eng.assume(And(iso_ac.valid_date(y, m, d), CA.dse(c, y, m, d) == days))
        return packmodel.mk_ymdc(eng, y, m, d, 0)

    eng.func_models[real] = model
