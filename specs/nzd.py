"""An independent interpretation of the .nzd time-zone database format (C06), written from the format notes in
_tzdb_stream_field_id.py / the writer's docstrings, sharing NO code with /repo: plain Python ints, bytes and
datetime.date arithmetic only.

decode_file(bytes) -> {"pool", "zones": {id: Zone}, "id_map", "version"}
Zone = {"periods": [(start_ticks|-inf|+inf, name, wall_s, savings_s)], "tail_start": ticks, "tail": None | AltMap}
AltMap = {"standard_offset_s", "std": Rule, "dst": Rule, "dst_savings_s"};  Rule = (name, mode, month, dom, dow, advance, add_day, millis)
Instants are in ticks (100 ns) since the Unix epoch; +-inf mark the ends of time."""

from __future__ import annotations

import datetime
import struct
from typing import Any

INF = float("inf")
TICKS_PER_SECOND = 10_000_000
TICKS_PER_HOUR = 3600 * TICKS_PER_SECOND
TICKS_PER_MINUTE = 60 * TICKS_PER_SECOND
EPOCH_1800_TICKS = (datetime.date(1800, 1, 1).toordinal() - datetime.date(1970, 1, 1).toordinal()) * 86400 * TICKS_PER_SECOND
MS_PER_DAY = 86_400_000


class Cur:
    def __init__(self, data: bytes, pool: list[str] | None = None) -> None:
        self.d, self.p, self.pool = data, 0, pool

    def byte(self) -> int:
        b = self.d[self.p]
        self.p += 1
        return b

    def more(self) -> bool:
        return self.p < len(self.d)

    def varint(self) -> int:
        r = s = 0
        while True:
            b = self.byte()
            r |= (b & 0x7F) << s
            s += 7
            if b < 0x80:
                return r

    def count(self) -> int:
        return self.varint()

    def signed(self) -> int:
        v = self.varint()
        return (v >> 1) if v % 2 == 0 else -((v + 1) >> 1)

    def millis(self) -> int:
        b = self.byte()
        if b < 0x80:
            m = b * 30 * 60_000
        elif b >> 5 == 0b100:
            m = (((b & 0x1F) << 8) | self.byte()) * 60_000
        elif b >> 5 == 0b101:
            m = (((b & 0x1F) << 16) | (self.byte() << 8) | self.byte()) * 1000
        elif b >> 5 == 0b110:
            m = ((b & 0x1F) << 24) | (self.byte() << 16) | (self.byte() << 8) | self.byte()
        else:
            raise ValueError("bad offset flag")
        return m - MS_PER_DAY

    def offset_seconds(self) -> int:
        m = self.millis()
        assert m % 1000 == 0
        return m // 1000

    def string(self) -> str:
        if self.pool is None:
            n = self.count()
            s = self.d[self.p : self.p + n].decode("utf-8")
            self.p += n
            return s
        return self.pool[self.count()]

    def transition(self, previous: Any) -> Any:
        v = self.count()
        if v < 128:
            if v == 0:
                return -INF
            if v == 1:
                return INF
            if v == 2:
                return struct.unpack(">q", bytes(self.byte() for _ in range(8)))[0]
            raise ValueError("bad marker")
        if v < (1 << 21):
            return previous + v * TICKS_PER_HOUR
        return EPOCH_1800_TICKS + v * TICKS_PER_MINUTE

    def rule(self) -> tuple:
        flags = self.byte()
        mode, dow, advance, add_day = flags >> 5, (flags >> 2) & 7, bool(flags & 2), bool(flags & 1)
        month = self.count()
        dom = self.signed()
        ms = self.millis()
        return (mode, month, dom, dow, advance, add_day, ms)


def decode_zone(cur: Cur) -> dict:
    kind = cur.byte()
    if kind == 1:  # fixed
        off = cur.offset_seconds()
        name = cur.string() if cur.more() else None
        return {"fixed": off, "name": name}
    assert kind == 2
    n = cur.count()
    periods = []
    start = cur.transition(None)
    for _ in range(n):
        name = cur.string()
        wall = cur.offset_seconds()
        savings = cur.offset_seconds()
        nxt = cur.transition(start)
        periods.append((start, nxt, name, wall, savings))
        start = nxt
    tail = None
    if cur.byte() == 1:
        std_off = cur.offset_seconds()
        std_name = cur.string()
        std_rule = cur.rule()
        dst_name = cur.string()
        dst_rule = cur.rule()
        dst_savings = cur.offset_seconds()
        tail = {"standard_offset": std_off, "std": (std_name,) + std_rule, "dst": (dst_name,) + dst_rule, "dst_savings": dst_savings}
    return {"periods": periods, "tail_start": start, "tail": tail}


def decode_file(data: bytes) -> dict:
    assert struct.unpack("<i", data[:4])[0] == 0
    cur = Cur(data)
    cur.p = 4
    fields = []
    while cur.more():
        fid = cur.byte()
        n = cur.count()
        fields.append((fid, data[cur.p : cur.p + n]))
        cur.p += n
    pool: list[str] = []
    out: dict[str, Any] = {"zones": {}, "id_map": {}, "version": None}
    for fid, payload in fields:
        if fid == 0:
            c = Cur(payload)
            pool = [c.string() for _ in range(c.count())]
    for fid, payload in fields:
        c = Cur(payload, pool)
        if fid == 1:
            zid = c.string()
            out["zones"][zid] = decode_zone(c)
        elif fid == 2:
            out["version"] = Cur(payload).string()
        elif fid == 3:
            out["id_map"] = {c.string(): c.string() for _ in range(c.count())}
    out["pool"] = pool
    return out


# ---------------------------------------------------------------------------------------------- yearly rules by plain calendar arithmetic
UNIX_ORD = datetime.date(1970, 1, 1).toordinal()


def _days_in_month(y: int, m: int) -> int:
    return (datetime.date(y + (m == 12), m % 12 + 1, 1) - datetime.date(y, m, 1)).days


def rule_local_ticks(rule: tuple, year: int) -> Any:
    """Local time (ticks since the epoch, no offset applied) at which the yearly rule fires in `year`; INF when the
    occurrence falls after the last representable local day."""
    _name, mode, month, dom, dow, advance, add_day, ms = rule
    if dom > 0:
        day = dom
    else:
        day = _days_in_month(year, month) + dom + 1
    if month == 2 and dom == 29 and _days_in_month(year, 2) == 28:
        day = 28
    d = datetime.date(year, month, day).toordinal()
    if dow != 0:
        cur = datetime.date.fromordinal(d).isoweekday()
        if cur != dow:
            diff = dow - cur
            if diff > 0:
                if not advance:
                    diff -= 7
            elif advance:
                diff += 7
            d += diff
    if add_day:
        if d == datetime.date(9999, 12, 31).toordinal():
            return INF
        d += 1
    return (d - UNIX_ORD) * 86400 * TICKS_PER_SECOND + ms * 10_000


def rule_instant_ticks(rule: tuple, year: int, standard_s: int, savings_s: int) -> Any:
    local = rule_local_ticks(rule, year)
    if local == INF:
        return INF
    mode = rule[1]
    off = {0: 0, 1: standard_s + savings_s, 2: standard_s}[mode]
    return local - off * TICKS_PER_SECOND


def tail_transitions(tail: dict, first_year: int, last_year: int) -> list[tuple]:
    """(instant ticks, name, wall seconds, savings seconds) of every transition of the alternating tail whose rule year
    lies in [first_year, last_year], in order.  The DST rule is evaluated with the standard offset and zero savings in
    force, the standard rule with the DST savings in force."""
    so, sv = tail["standard_offset"], tail["dst_savings"]
    ev = []
    for y in range(first_year, last_year + 1):
        t_dst = rule_instant_ticks(tail["dst"], y, so, 0)
        t_std = rule_instant_ticks(tail["std"], y, so, sv)
        if t_dst != INF:
            ev.append((t_dst, tail["dst"][0], so + sv, sv))
        if t_std != INF:
            ev.append((t_std, tail["std"][0], so, 0))
    ev.sort(key=lambda e: e[0])
    return ev
