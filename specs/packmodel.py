"""Modular use of the packing contracts (C01 layer D) at call sites.

`_YearMonthDay` / `_YearMonthDayCalendar` objects created through their `_ctor` carry the components as ghost
fields ($y, $m, $d, $o) next to the real packed word; the accessor properties return the ghost component.  This is
exactly the contract pair proved in contracts/c01_packing.py (accessor(ctor(y, m, d[, o])) == component for
-16383 <= y <= 16384, 1 <= m <= 32, 1 <= d <= 64, 0 <= o <= 63), whose range preconditions are emitted here as
proof obligations at every constructor call."""

from __future__ import annotations

from typing import Any

from pyvc import sym
from pyvc.sym import And
from pyvc.values import SObj


def pack_ymd(y: Any, m: Any, d: Any) -> Any:
    return ((y - 1) * 32 + (m - 1)) * 64 + (d - 1)


def _ranges(y: Any, m: Any, d: Any) -> Any:
    return And(y >= -16383, y <= 16384, m >= 1, m <= 32, d >= 1, d <= 64)


def mk_ymd(eng: Any, y: Any, m: Any, d: Any) -> SObj:
    from pyoda_time._year_month_day import _YearMonthDay

    return SObj(_YearMonthDay, {"_YearMonthDay__value": pack_ymd(y, m, d), "$y": y, "$m": m, "$d": d}, owner=eng.active_runs[-1])


def mk_ymdc(eng: Any, y: Any, m: Any, d: Any, o: Any) -> SObj:
    from pyoda_time._year_month_day_calendar import _YearMonthDayCalendar

    return SObj(_YearMonthDayCalendar, {"_YearMonthDayCalendar__value": pack_ymd(y, m, d) * 64 + o, "$y": y, "$m": m, "$d": d, "$o": o}, owner=eng.active_runs[-1])


def install(eng: Any) -> None:
    from pyoda_time._year_month_day import _YearMonthDay as YMD
    from pyoda_time._year_month_day_calendar import _YearMonthDayCalendar as YMDC

    def raw(cls: type, name: str) -> Any:
        v = vars(cls)[name]
        return v.__func__ if isinstance(v, (classmethod, staticmethod)) else v.fget if isinstance(v, property) else v

    real_ymd_ctor = raw(YMD, "_ctor")
    real_ymdc_ctor = raw(YMDC, "_ctor")

    def ymd_ctor(eng: Any, cls: Any, *, raw_value: Any = None, year: Any = None, month: Any = None, day: Any = None) -> Any:
        if raw_value is None and year is not None and month is not None and day is not None:
            eng.oblige(_ranges(year, month, day), "pack._YearMonthDay._ctor.component-ranges", kind="callee-pre", site=eng.cur_site())
            return mk_ymd(eng, year, month, day)
        return eng.run_function(eng.fctx_for(real_ymd_ctor), None, [cls], {"raw_value": raw_value, "year": year, "month": month, "day": day}, key=None)

    def ymdc_ctor(eng: Any, cls: Any, *, year_month_day: Any = None, calendar_ordinal: Any = None, year: Any = None, month: Any = None, day: Any = None) -> Any:
        if year is not None and month is not None and day is not None and calendar_ordinal is not None:
            eng.oblige(And(_ranges(year, month, day), calendar_ordinal >= 0, calendar_ordinal <= 63), "pack._YearMonthDayCalendar._ctor.component-ranges", kind="callee-pre", site=eng.cur_site())
            return mk_ymdc(eng, year, month, day, calendar_ordinal)
        return eng.run_function(eng.fctx_for(real_ymdc_ctor), None, [cls], {"year_month_day": year_month_day, "calendar_ordinal": calendar_ordinal, "year": year, "month": month, "day": day}, key=None)

    eng.func_models[real_ymd_ctor] = ymd_ctor
    eng.func_models[real_ymdc_ctor] = ymdc_ctor

    def accessor(cls: type, name: str, ghost: str) -> None:
        real = raw(cls, name)

        def model(eng: Any, self_: Any) -> Any:
            if isinstance(self_, SObj) and ghost in self_.fields:
                return self_.fields[ghost]
            return eng.run_function(eng.fctx_for(real), None, [self_], {}, key=None)

        eng.func_models[real] = model

    for n, g in (("_year", "$y"), ("_month", "$m"), ("_day", "$d")):
        accessor(YMD, n, g)
        accessor(YMDC, n, g)
    real_ord = raw(YMDC, "_calendar_ordinal")

    def ord_model(eng: Any, self_: Any) -> Any:
        if isinstance(self_, SObj) and "$o" in self_.fields:
            return self_.fields["$o"]
        return eng.run_function(eng.fctx_for(real_ord), None, [self_], {}, key=None)

    eng.func_models[real_ord] = ord_model

    real_to_ymd = raw(YMDC, "_to_year_month_day")

    def to_ymd(eng: Any, self_: Any) -> Any:
        if isinstance(self_, SObj) and "$y" in self_.fields:
            f = self_.fields
            return mk_ymd(eng, f["$y"], f["$m"], f["$d"])
        return eng.run_function(eng.fctx_for(real_to_ymd), None, [self_], {}, key=None)

    eng.func_models[real_to_ymd] = to_ymd

    real_wco = raw(YMD, "_with_calendar_ordinal")

    def wco(eng: Any, self_: Any, calendar_ordinal: Any) -> Any:
        if isinstance(self_, SObj) and "$y" in self_.fields:
            f = self_.fields
            eng.oblige(And(calendar_ordinal >= 0, calendar_ordinal <= 63), "pack.ordinal-range", kind="callee-pre", site=eng.cur_site())
            return mk_ymdc(eng, f["$y"], f["$m"], f["$d"], calendar_ordinal)
        return eng.run_function(eng.fctx_for(real_wco), None, [self_, calendar_ordinal], {}, key=None)

    eng.func_models[real_wco] = wco

    real_wc = raw(YMD, "_with_calendar")

    def wc(eng: Any, self_: Any, calendar: Any) -> Any:
        if isinstance(self_, SObj) and "$y" in self_.fields:
            return wco(eng, self_, eng.get_attr(calendar, "_ordinal"))
        return eng.run_function(eng.fctx_for(real_wc), None, [self_, calendar], {}, key=None)

    eng.func_models[real_wc] = wc
