"""Modular use of the date-period-field contracts at call sites (symbolic calendar only).

Each model is the contract proved for the real function in contracts/c09_date_fields.py / c09_period.py:
  _FixedLengthDatePeriodField.add / units_between   exact day arithmetic, OverflowError|ValueError outside the range
  _YearsPeriodField.add                             valid date in year y+n (month/day by the calendar's _set_year)
  _YearsPeriodField.units_between                   n with: sign towards end, start+n between start and end, n within one of the year difference
  _MonthsPeriodField.add / units_between            the calculator's _add_months / _months_between (interface contract, AX-MB)
"""

from __future__ import annotations

from typing import Any

import z3

from pyvc import sym
from pyvc.sym import And, Implies, Not, Or, SInt
from pyvc.values import SObj

from . import cal_abs as CA
from . import packmodel
from . import views as V

I = z3.IntSort()
YB = z3.Function("YEARSBETWEEN", I, I, I, I, I, I, I, I)


def _comps(d: Any) -> tuple[Any, Any, Any]:
    return V.ld_y(d), V.ld_m(d), V.ld_d(d)


def _mk_date(eng: Any, ac: Any, y: Any, m: Any, d: Any) -> SObj:
    from pyoda_time._local_date import LocalDate

    ymdc = packmodel.mk_ymdc(eng, y, m, d, ac.ordinal)
    return SObj(LocalDate, {"_LocalDate__year_month_day_calendar": ymdc}, owner=eng.active_runs[-1])


def _cal_of(eng: Any, date: Any) -> Any:
    o = V.ld_ord(date)
    for ac in eng.abs_cals:
        if eng.provable(o == ac.ordinal):
            return ac
    raise sym.Unsupported("date of an unknown calendar")


def install(eng: Any) -> None:
    from pyoda_time.fields._fixed_length_date_period_field import _FixedLengthDatePeriodField as FL
    from pyoda_time.fields._months_period_field import _MonthsPeriodField as MF
    from pyoda_time.fields._years_period_field import _YearsPeriodField as YF

    def dse(ac: Any, d: Any) -> Any:
        y, m, dd = _comps(d)
        return CA.dse(ac.cid, y, m, dd)

    def fl_add(eng: Any, self_: Any, local_date: Any, value: Any) -> Any:
        if not sym.is_sym(value) and value == 0:
            return local_date
        ac = _cal_of(eng, local_date)
        unit = eng.get_attr(self_, "_FixedLengthDatePeriodField__unit_days")
        target = dse(ac, local_date) + value * unit
        inr = And(target >= CA.soy(ac.cid, ac.min_year), target <= CA.soy(ac.cid, ac.max_year + 1) - 1)
        if not eng.truth(inr):
            eng.raise_(OverflowError, "date arithmetic left the calendar range")
        y, m, d = sym.fresh_int("fl_y"), sym.fresh_int("fl_m"), sym.fresh_int("fl_d")
        ac.touch_month(eng, y, m)
        eng.assume(And(ac.valid_date(y, m, d), CA.dse(ac.cid, y, m, d) == target, Implies(value == 0, And(y == V.ld_y(local_date), m == V.ld_m(local_date), d == V.ld_d(local_date)))))
        return _mk_date(eng, ac, y, m, d)

    def fl_between(eng: Any, self_: Any, start: Any, end: Any) -> Any:
        ac = _cal_of(eng, start)
        unit = eng.get_attr(self_, "_FixedLengthDatePeriodField__unit_days")
        return sym.trunc_div(dse(ac, end) - dse(ac, start), unit)

    def y_add(eng: Any, self_: Any, local_date: Any, value: Any) -> Any:
        if not sym.is_sym(value) and value == 0:
            return local_date
        ac = _cal_of(eng, local_date)
        y, m, d = _comps(local_date)
        ty = y + value
        if not eng.truth(And(ty >= ac.min_year, ty <= ac.max_year)):
            eng.raise_(ValueError, "year out of range")
        SY = eng.cal_funcs["SETYEAR"]
        args = [SInt.lift(x) for x in (ac.cid, y, m, d, ty)]
        m2, d2 = sym.mk_int(SY[0](*args)), sym.mk_int(SY[1](*args))
        ac.touch_month(eng, ty, m2)
        eng.assume(And(ac.valid_date(ty, m2, d2), Implies(value == 0, And(m2 == m, d2 == d))))
        return _mk_date(eng, ac, ty, m2, d2)

    def y_between(eng: Any, self_: Any, start: Any, end: Any) -> Any:
        ac = _cal_of(eng, start)
        y1, m1, d1 = _comps(start)
        y2, m2, d2 = _comps(end)
        n = sym.mk_int(YB(*[SInt.lift(x) for x in (ac.cid, y1, m1, d1, y2, m2, d2)]))
        SY = eng.cal_funcs["SETYEAR"]
        args = [SInt.lift(x) for x in (ac.cid, y1, m1, d1, y1 + n)]
        lm, ld = sym.mk_int(SY[0](*args)), sym.mk_int(SY[1](*args))
        ac.touch_month(eng, y1 + n, lm)
        s, e = CA.dse(ac.cid, y1, m1, d1), CA.dse(ac.cid, y2, m2, d2)
        here = CA.dse(ac.cid, y1 + n, lm, ld)
        # contract "_YearsPeriodField.units_between: greatest year count ..." (contracts/c09_period.py)
        eng.assume(And(
            y1 + n >= ac.min_year, y1 + n <= ac.max_year,
            Implies(s <= e, And(n >= 0, s <= here, here <= e, n >= y2 - y1 - 1, n <= y2 - y1)),
            Implies(s >= e, And(n <= 0, e <= here, here <= s, n <= y2 - y1 + 1, n >= y2 - y1)),
            Implies(n == 0, And(lm == m1, ld == d1)),
            Implies(s == e, n == 0),
        ))
        return n

    def m_add(eng: Any, self_: Any, local_date: Any, value: Any) -> Any:
        ac = _cal_of(eng, local_date)
        calc = ac.calc
        ymd = eng.call_value(eng.get_attr(calc, "_add_months"), [eng.get_attr(local_date, "_year_month_day"), value], {})
        return _mk_date(eng, ac, V.ymd_y(ymd), V.ymd_m(ymd), V.ymd_d(ymd))

    def m_between(eng: Any, self_: Any, start: Any, end: Any) -> Any:
        ac = _cal_of(eng, start)
        return eng.call_value(eng.get_attr(ac.calc, "_months_between"), [eng.get_attr(start, "_year_month_day"), eng.get_attr(end, "_year_month_day")], {})

    eng.func_models[vars(FL)["add"]] = fl_add
    eng.func_models[vars(FL)["units_between"]] = fl_between
    eng.func_models[vars(YF)["add"]] = y_add
    eng.func_models[vars(YF)["units_between"]] = y_between
    eng.func_models[vars(MF)["add"]] = m_add
    eng.func_models[vars(MF)["units_between"]] = m_between
