"""Models used when *concrete* calendars are symbolically executed (year/day symbolic, calculator real).

  cache transparency   _YearMonthDayCalculator._get_start_of_year_in_days(y) == self._calculate_start_of_year_days(y)
                       (the year-start cache is proved transparent in contracts/c13_caches.py)
  packing              specs/packmodel.py (proved in contracts/c01_packing.py)
"""

from __future__ import annotations

from typing import Any

from . import packmodel


def install(eng: Any) -> None:
    from pyoda_time.calendars._year_month_day_calculator import _YearMonthDayCalculator as Base

    packmodel.install(eng)
    real = vars(Base)["_get_start_of_year_in_days"]

    def m_soy(eng: Any, self_: Any, year: Any) -> Any:
        return eng.call_value(eng.get_attr(self_, "_calculate_start_of_year_days"), [year], {})

    eng.func_models[real] = m_soy
