"""The calendar interface contract CAL (DESIGN.md §3.3) as an *abstract calculator*.

Clients (generic base-class bodies, CalendarSystem, LocalDate, period fields, week-year rules, intervals...) are
verified once against a symbolic calendar whose abstract methods are replaced by their interface contracts:
uninterpreted spec functions SOY/DIY/MIY/DIM/DSM/LEAP of (calendar id, year[, month]) plus axioms that are
instantiated at the argument tuples that occur.  Every axiom used here is an obligation of each concrete
calculator class (contracts/c01_calendars.py: G-mode per year, S-mode per day-of-year):

  AX-DIY    DIY(c,y) = SOY(c,y+1) - SOY(c,y)  for minY-1 <= y <= maxY,  300 <= DIY <= 400
  AX-MONO   a < b  =>  300*(b-a) <= SOY(c,b) - SOY(c,a) <= 400*(b-a)      (telescoping sum of AX-DIY; induction on b-a)
  AX-MIY    1 <= MIY(c,y) <= 13
  AX-DIM    1 <= DIM(c,y,m) <= 31,  0 <= DSM(c,y,m),  DSM(c,y,m) + DIM(c,y,m) <= DIY(c,y)   for 1 <= m <= MIY
  AX-DISJ   m1 != m2  =>  month day-ranges [DSM+1, DSM+DIM] of m1 and m2 are disjoint      (running sums in some order)
  SPLIT     _get_year_month_day_from_year_and_day_of_year(y, doy) for 1 <= doy <= DIY returns (y, m, d) with
            1 <= m <= MIY, 1 <= d <= DIM, DSM + d = doy                                   (S-mode per class)
Interface preconditions (year within one year of the range, month within the year...) are emitted as proof
obligations at each call, so a client that leaves the interface's domain fails a named obligation.
"""

from __future__ import annotations

from typing import Any

import z3

from pyvc import sym
from pyvc.sym import And, Implies, Not, Or, SBool, SInt, ite
from pyvc.values import SObj

from . import packmodel

I = z3.IntSort()
SOY = z3.Function("SOY", I, I, I)
DIY = z3.Function("DIY", I, I, I)
MIY = z3.Function("MIY", I, I, I)
DIM = z3.Function("DIM", I, I, I, I)
DSM = z3.Function("DSM", I, I, I, I)
LEAP = z3.Function("LEAP", I, I, z3.BoolSort())
CMP = z3.Function("CMPORD", I, I, I, I)  # position of month m in year y (order of months within the year)


def _t(v: Any) -> Any:
    return SInt.lift(v)


def _conc(*a: Any) -> bool:
    return all(isinstance(x, int) and not isinstance(x, bool) for x in a)


def _total(f: Any) -> Any:
    """Concrete re-evaluation of a spec function outside its domain (e.g. month 13 of a 12-month year): NaN, so that
    every comparison involving it is false instead of aborting the evaluation of the whole contract."""
    try:
        return f()
    except Exception:  # noqa: BLE001
        return float("nan")


def real_calc(ordinal: int) -> Any:
    """The real calculator of a concrete calendar ordinal (used when a contract is re-evaluated on concrete inputs)."""
    from pyoda_time import CalendarSystem
    from pyoda_time._calendar_ordinal import _CalendarOrdinal

    return CalendarSystem._for_ordinal(_CalendarOrdinal(ordinal))._year_month_day_calculator


def soy(c: Any, y: Any) -> Any:
    if _conc(c, y):
        return _total(lambda: real_calc(c)._get_start_of_year_in_days(y))
    return sym.mk_int(SOY(_t(c), _t(y)))


def diy(c: Any, y: Any) -> Any:
    if _conc(c, y):
        return _total(lambda: real_calc(c)._get_days_in_year(y))
    return sym.mk_int(DIY(_t(c), _t(y)))


def miy(c: Any, y: Any) -> Any:
    if _conc(c, y):
        return _total(lambda: real_calc(c)._get_months_in_year(y))
    return sym.mk_int(MIY(_t(c), _t(y)))


def dim(c: Any, y: Any, m: Any) -> Any:
    if _conc(c, y, m):
        return _total(lambda: real_calc(c)._get_days_in_month(y, m))
    return sym.mk_int(DIM(_t(c), _t(y), _t(m)))


def dsm(c: Any, y: Any, m: Any) -> Any:
    if _conc(c, y, m):
        return _total(lambda: real_calc(c)._get_days_from_start_of_year_to_start_of_month(y, m))
    return sym.mk_int(DSM(_t(c), _t(y), _t(m)))


def leap(c: Any, y: Any) -> Any:
    if _conc(c, y):
        return bool(real_calc(c)._is_leap_year(y))
    return sym.mk_bool(LEAP(_t(c), _t(y)))


class ConcreteCal:
    """A real calendar standing in for an abstract one when a counterexample is replayed on the real code."""

    def __init__(self, ordinal: int) -> None:
        from pyoda_time import CalendarSystem
        from pyoda_time._calendar_ordinal import _CalendarOrdinal

        self.ordinal = ordinal
        self.cid = ordinal
        self.system = CalendarSystem._for_ordinal(_CalendarOrdinal(ordinal))
        self.calc = self.system._year_month_day_calculator
        self.min_year = self.system.min_year
        self.max_year = self.system.max_year

    def valid_date(self, y: Any, m: Any, d: Any) -> bool:
        return self.min_year <= y <= self.max_year and 1 <= m <= self.calc._get_months_in_year(y) and 1 <= d <= self.calc._get_days_in_month(y, m)

    def clamp(self, y: int, m: int, d: int) -> tuple[int, int, int]:
        y = min(max(y, self.min_year), self.max_year)
        m = min(max(m, 1), self.calc._get_months_in_year(y))
        d = min(max(d, 1), self.calc._get_days_in_month(y, m))
        return y, m, d


def dse(c: Any, y: Any, m: Any, d: Any) -> Any:
    """Day number of the date (y, m, d)."""
    return soy(c, y) + dsm(c, y, m) + d - 1


class AbsCal:
    """Book-keeping for one abstract calendar inside one engine."""

    def __init__(self, cid: Any, ordinal: Any, min_year: Any, max_year: Any) -> None:
        self.cid = cid
        self.ordinal = ordinal
        self.min_year = min_year
        self.max_year = max_year
        self.calc: SObj | None = None
        self.system: SObj | None = None
        self.fixed_miy: int | None = None  # calendars known to have a constant number of months (ISO/Gregorian: 12)
        self.min_dim: int = 1  # shortest month (ISO/Gregorian: 28)

    # ---- axiom instances
    def ax_year(self, y: Any) -> list[Any]:
        c = self.cid
        out = [
            Implies(And(y >= self.min_year - 1, y <= self.max_year), diy(c, y) == soy(c, y + 1) - soy(c, y)),
            And(diy(c, y) >= 300, diy(c, y) <= 400),
            And(miy(c, y) >= 1, miy(c, y) <= 13),
        ]
        if self.fixed_miy is not None:
            out.append(miy(c, y) == self.fixed_miy)
        return out

    def ax_mono(self, a: Any, b: Any) -> Any:
        c = self.cid
        return And(
            Implies(a < b, And(soy(c, b) - soy(c, a) >= 300 * (b - a), soy(c, b) - soy(c, a) <= 400 * (b - a))),
            Implies(b < a, And(soy(c, a) - soy(c, b) >= 300 * (a - b), soy(c, a) - soy(c, b) <= 400 * (a - b))),
        )

    def ax_month(self, y: Any, m: Any) -> Any:
        c = self.cid
        return Implies(
            And(m >= 1, m <= miy(c, y)),
            And(dim(c, y, m) >= self.min_dim, dim(c, y, m) <= 31, dsm(c, y, m) >= 0, dsm(c, y, m) + dim(c, y, m) <= diy(c, y)),
        )

    def ax_disj(self, y: Any, m1: Any, m2: Any, y2: Any = None) -> Any:
        c = self.cid
        if y2 is None:
            y2 = y
        return Implies(
            And(y == y2, m1 != m2, m1 >= 1, m1 <= miy(c, y), m2 >= 1, m2 <= miy(c, y)),
            Or(dsm(c, y, m1) + dim(c, y, m1) <= dsm(c, y2, m2), dsm(c, y2, m2) + dim(c, y2, m2) <= dsm(c, y, m1)),
        )

    def touch_year(self, eng: Any, y: Any) -> None:
        """Unary axiom instances are assumed where the term is created; the binary ones (AX-MONO, AX-DISJ) are
        instantiated over all ground terms of a query when it is discharged (see `instantiate`)."""
        for ax in self.ax_year(y):
            eng.assume(ax)

    def touch_month(self, eng: Any, y: Any, m: Any) -> None:
        self.touch_year(eng, y)
        eng.assume(self.ax_month(y, m))

    def register(self, eng: Any) -> None:
        install(eng)
        if self not in eng.abs_cals:
            eng.abs_cals.append(self)
        eng.axiom_instantiator = lambda goal: instantiate(eng.abs_cals, goal)

    def valid_date(self, y: Any, m: Any, d: Any) -> Any:
        c = self.cid
        return And(y >= self.min_year, y <= self.max_year, m >= 1, m <= miy(c, y), d >= 1, d <= dim(c, y, m))


def _key(v: Any) -> Any:
    return v.t.get_id() if isinstance(v, SInt) else ("c", v)


def _collect_apps(terms: list[Any], decls: set[str]) -> dict[str, list[tuple]]:
    out: dict[str, dict[tuple, tuple]] = {d: {} for d in decls}
    seen: set[int] = set()
    stack = list(terms)
    while stack:
        t = stack.pop()
        i = t.get_id()
        if i in seen:
            continue
        seen.add(i)
        if z3.is_app(t):
            n = t.decl().name()
            if n in decls and t.num_args() > 0:
                args = tuple(t.children())
                out[n][tuple(a.get_id() for a in args)] = args
            stack.extend(t.children())
    return {k: list(v.values()) for k, v in out.items()}


def instantiate(abs_cals: list["AbsCal"], formulas: list[Any], rounds: int = 2) -> list[Any]:
    """Ground instances of the CAL axioms for the SOY/DIY/DIM/DSM applications occurring in `formulas`."""
    if not abs_cals:
        return []
    extra: list[Any] = []
    have: set[int] = set()
    cur = list(formulas)
    for _ in range(rounds):
        apps = _collect_apps(cur + extra, {"SOY", "DIY", "MIY", "DIM", "DSM"})
        new: list[Any] = []
        for ac in abs_cals:
            cid = _t(ac.cid)
            years: dict[int, Any] = {}
            for name in ("SOY", "DIY", "MIY"):
                for args in apps[name]:
                    if args[0].get_id() == cid.get_id():
                        years[args[1].get_id()] = args[1]
            months: dict[tuple[int, int], tuple[Any, Any]] = {}
            for name in ("DIM", "DSM"):
                for args in apps[name]:
                    if args[0].get_id() == cid.get_id():
                        years[args[1].get_id()] = args[1]
                        months[(args[1].get_id(), args[2].get_id())] = (args[1], args[2])
            # the ends of the calendar range always take part (range guards compare against them)
            for yy in (ac.min_year, ac.max_year + 1):
                yt = _t(yy)
                years.setdefault(yt.get_id(), yt)
            # y + 1 is tied to y by AX-DIY (year axiom of y), so it need not take part in the quadratic AX-MONO pairing
            def _succ_of_known(t: Any) -> bool:
                if z3.is_add(t) and t.num_args() == 2:
                    x, k = t.arg(0), t.arg(1)
                    if z3.is_int_value(x):
                        x, k = k, x
                    return z3.is_int_value(k) and k.as_long() == 1 and x.get_id() in years
                return False

            everyone = [sym.mk_int(y) for y in years.values()]
            for y in everyone[:40]:
                new.extend(ac.ax_year(y))
            base_terms = [y for y in years.values() if not _succ_of_known(y)]
            # numerals and plain variables first: range ends and inputs matter most when the list has to be cut
            base_terms.sort(key=lambda t: 0 if z3.is_int_value(t) else (1 if z3.is_const(t) else 2))
            ylist = [sym.mk_int(y) for y in base_terms[:22]]
            for i in range(len(ylist)):
                for j in range(i + 1, len(ylist)):
                    new.append(ac.ax_mono(ylist[i], ylist[j]))
            mlist = [(sym.mk_int(y), sym.mk_int(m)) for y, m in months.values()]
            for y, m in mlist:
                new.append(ac.ax_month(y, m))
            for i in range(len(mlist)):
                for j in range(i + 1, len(mlist)):
                    new.append(ac.ax_disj(mlist[i][0], mlist[i][1], mlist[j][1], mlist[j][0]))
        for f in new:
            if f is True:
                continue
            t = SBool.lift(f)
            if t.get_id() not in have:
                have.add(t.get_id())
                extra.append(t)
    return extra


_abstract_cls: list[Any] = []


def abstract_calc_class() -> type:
    """A concrete (instantiable) subclass of the real _YearMonthDayCalculator whose abstract methods are stubs;
    the stubs are never executed -- the engine replaces them by the interface contract."""
    if _abstract_cls:
        return _abstract_cls[0]
    from pyoda_time.calendars._year_month_day_calculator import _YearMonthDayCalculator as Base

    def _stub(*a: Any, **k: Any) -> Any:  # pragma: no cover
        raise NotImplementedError("abstract calendar: interface contract only")

    ns = {n: (lambda *a, _n=n, **k: _stub()) for n in Base.__abstractmethods__}
    cls = type("AbstractCalculator", (Base,), dict(ns))
    cls.__module__ = "specs.cal_abs"
    _abstract_cls.append(cls)
    return cls


def install(eng: Any) -> None:
    """Install the CAL interface contract on the engine (idempotent)."""
    if getattr(eng, "_cal_abs_installed", False):
        return
    eng._cal_abs_installed = True
    eng.abs_cals = []
    packmodel.install(eng)
    from pyoda_time._calendar_system import CalendarSystem
    from pyoda_time.calendars._year_month_day_calculator import _YearMonthDayCalculator as Base

    cls = abstract_calc_class()

    def cal_of(self_: Any) -> AbsCal:
        for ac in eng.abs_cals:
            if ac.calc is self_:
                return ac
        raise sym.Unsupported("abstract calendar method called on an unknown calculator object")

    def is_abs(self_: Any) -> bool:
        return isinstance(self_, SObj) and self_.cls is cls

    def year_pre(ac: AbsCal, y: Any, what: str) -> None:
        eng.oblige(And(y >= ac.min_year - 1, y <= ac.max_year + 1), f"CAL.pre.{what}: year within one year of the calendar range", kind="callee-pre", site=eng.cur_site())

    def month_pre(ac: AbsCal, y: Any, m: Any, what: str) -> None:
        eng.oblige(And(m >= 1, m <= miy(ac.cid, y)), f"CAL.pre.{what}: month within the year", kind="callee-pre", site=eng.cur_site())

    # -- _get_start_of_year_in_days (real, cached, in the base class): for abstract calculators the contract
    real_soy = vars(Base)["_get_start_of_year_in_days"]

    def m_soy(eng: Any, self_: Any, year: Any) -> Any:
        if not is_abs(self_):
            return eng.run_function(eng.fctx_for(real_soy), None, [self_, year], {}, key=real_soy)
        ac = cal_of(self_)
        year_pre(ac, year, "_get_start_of_year_in_days")
        ac.touch_year(eng, year)
        return soy(ac.cid, year)

    eng.func_models[real_soy] = m_soy

    def m_diy(eng: Any, self_: Any, year: Any) -> Any:
        ac = cal_of(self_)
        year_pre(ac, year, "_get_days_in_year")
        ac.touch_year(eng, year)
        ac.touch_year(eng, year + 1)
        return diy(ac.cid, year)

    def m_miy(eng: Any, self_: Any, year: Any) -> Any:
        ac = cal_of(self_)
        year_pre(ac, year, "_get_months_in_year")
        ac.touch_year(eng, year)
        return miy(ac.cid, year)

    def m_leap(eng: Any, self_: Any, year: Any) -> Any:
        ac = cal_of(self_)
        year_pre(ac, year, "_is_leap_year")
        return leap(ac.cid, year)

    def m_dim(eng: Any, self_: Any, year: Any, month: Any) -> Any:
        ac = cal_of(self_)
        year_pre(ac, year, "_get_days_in_month")
        month_pre(ac, year, month, "_get_days_in_month")
        ac.touch_month(eng, year, month)
        return dim(ac.cid, year, month)

    def m_dsm(eng: Any, self_: Any, year: Any, month: Any) -> Any:
        ac = cal_of(self_)
        year_pre(ac, year, "_get_days_from_start_of_year_to_start_of_month")
        month_pre(ac, year, month, "_get_days_from_start_of_year_to_start_of_month")
        ac.touch_month(eng, year, month)
        return dsm(ac.cid, year, month)

    def m_split(eng: Any, self_: Any, year: Any, day_of_year: Any) -> Any:
        ac = cal_of(self_)
        year_pre(ac, year, "_get_year_month_day_from_year_and_day_of_year")
        ac.touch_year(eng, year)
        ac.touch_year(eng, year + 1)
        eng.oblige(And(day_of_year >= 1, day_of_year <= diy(ac.cid, year)), "CAL.pre.split: 1 <= day_of_year <= days in year", kind="callee-pre", site=eng.cur_site())
        m = sym.fresh_int("split_m")
        d = sym.fresh_int("split_d")
        ac.touch_month(eng, year, m)
        eng.assume(And(m >= 1, m <= miy(ac.cid, year), d >= 1, d <= dim(ac.cid, year, m), dsm(ac.cid, year, m) + d == day_of_year))
        return packmodel.mk_ymd(eng, year, m, d)

    def m_compare(eng: Any, self_: Any, lhs: Any, rhs: Any) -> Any:
        """Interface contract of compare: the sign of the result is the sign of the day-number difference (both
        operands valid dates of this calendar)."""
        ac = cal_of(self_)
        y1, m1, d1 = (eng.get_attr(lhs, n) for n in ("_year", "_month", "_day"))
        y2, m2, d2 = (eng.get_attr(rhs, n) for n in ("_year", "_month", "_day"))
        eng.oblige(And(ac.valid_date(y1, m1, d1), ac.valid_date(y2, m2, d2)), "CAL.pre.compare: both dates valid in this calendar", kind="callee-pre", site=eng.cur_site())
        ac.touch_month(eng, y1, m1)
        ac.touch_month(eng, y2, m2)
        r = sym.fresh_int("cmp")
        diff = dse(ac.cid, y1, m1, d1) - dse(ac.cid, y2, m2, d2)
        eng.assume(And((r < 0) == (diff < 0), (r == 0) == (diff == 0)))
        return r

    for name, mdl in (
        ("_get_days_in_year", m_diy),
        ("_get_months_in_year", m_miy),
        ("_is_leap_year", m_leap),
        ("_get_days_in_month", m_dim),
        ("_get_days_from_start_of_year_to_start_of_month", m_dsm),
        ("_get_year_month_day_from_year_and_day_of_year", m_split),
    ):
        eng.func_models[vars(cls)[name]] = mdl
    # _set_year / _add_months / _months_between: interface contracts (results are functions of the arguments)
    SY = [z3.Function(f"SETYEAR_{k}", I, I, I, I, I, I) for k in ("m", "d")]
    AM = [z3.Function(f"ADDMONTHS_{k}", I, I, I, I, I, I) for k in ("y", "m", "d")]
    AM_OK = z3.Function("ADDMONTHS_ok", I, I, I, I, I, z3.BoolSort())
    MB = z3.Function("MONTHSBETWEEN", I, I, I, I, I, I, I, I)

    def comps(o: Any) -> tuple[Any, Any, Any]:
        return tuple(eng.get_attr(o, n) for n in ("_year", "_month", "_day"))  # type: ignore[return-value]

    def m_set_year(eng: Any, self_: Any, ymd: Any, year: Any) -> Any:
        ac = cal_of(self_)
        y, m, d = comps(ymd)
        eng.oblige(And(ac.valid_date(y, m, d), year >= ac.min_year, year <= ac.max_year), "CAL.pre._set_year: valid date, target year in range", kind="callee-pre", site=eng.cur_site())
        args = [_t(ac.cid), _t(y), _t(m), _t(d), _t(year)]
        m2, d2 = sym.mk_int(SY[0](*args)), sym.mk_int(SY[1](*args))
        ac.touch_month(eng, year, m2)
        eng.assume(And(m2 >= 1, m2 <= miy(ac.cid, year), d2 >= 1, d2 <= dim(ac.cid, year, m2)))
        return packmodel.mk_ymd(eng, year, m2, d2)

    def m_add_months(eng: Any, self_: Any, ymd: Any, months: Any) -> Any:
        ac = cal_of(self_)
        y, m, d = comps(ymd)
        eng.oblige(ac.valid_date(y, m, d), "CAL.pre._add_months: valid date", kind="callee-pre", site=eng.cur_site())
        if not sym.is_sym(months) and months == 0:
            return ymd
        args = [_t(ac.cid), _t(y), _t(m), _t(d), _t(months)]
        ok = sym.mk_bool(AM_OK(*args))
        eng.assume(Implies(months == 0, And(ok, sym.mk_int(AM[0](*args)) == y, sym.mk_int(AM[1](*args)) == m, sym.mk_int(AM[2](*args)) == d)))
        if not eng.truth(ok):
            eng.raise_(OverflowError, "Date computation would overflow calendar bounds.")
        y2, m2, d2 = (sym.mk_int(f(*args)) for f in AM)
        ac.touch_month(eng, y2, m2)
        eng.assume(ac.valid_date(y2, m2, d2))
        return packmodel.mk_ymd(eng, y2, m2, d2)

    def m_months_between(eng: Any, self_: Any, start: Any, end: Any) -> Any:
        ac = cal_of(self_)
        y1, m1, d1 = comps(start)
        y2, m2, d2 = comps(end)
        eng.oblige(And(ac.valid_date(y1, m1, d1), ac.valid_date(y2, m2, d2)), "CAL.pre._months_between: valid dates", kind="callee-pre", site=eng.cur_site())
        r = sym.mk_int(MB(_t(ac.cid), _t(y1), _t(m1), _t(d1), _t(y2), _t(m2), _t(d2)))
        # AX-MB (obligation of every calculator class, contracts/c09_calculators.py): adding the result to `start`
        # succeeds and lands between start and end; the sign of the result points towards `end`
        args = [_t(ac.cid), _t(y1), _t(m1), _t(d1), _t(r)]
        ay, am, ad = (sym.mk_int(f(*args)) for f in AM)
        ac.touch_month(eng, ay, am)
        s, e, at = dse(ac.cid, y1, m1, d1), dse(ac.cid, y2, m2, d2), dse(ac.cid, ay, am, ad)
        eng.assume(And(
            sym.mk_bool(AM_OK(*args)),
            ac.valid_date(ay, am, ad),
            Implies(s <= e, And(r >= 0, s <= at, at <= e)),
            Implies(s > e, And(r <= 0, e <= at, at <= s)),
            Implies(r == 0, And(ay == y1, am == m1, ad == d1)),
            Implies(s == e, r == 0),
        ))
        return r

    eng.func_models[vars(cls)["_set_year"]] = m_set_year
    eng.func_models[vars(cls)["_add_months"]] = m_add_months
    eng.func_models[vars(cls)["_months_between"]] = m_months_between
    eng.cal_funcs = {"SETYEAR": SY, "ADDMONTHS": AM, "ADDMONTHS_ok": AM_OK, "MONTHSBETWEEN": MB}

    # compare: the base class body is real code; the abstract calculator overrides it with the contract
    if "compare" not in vars(cls):
        def compare(self, lhs, rhs):  # pragma: no cover - never executed
            raise NotImplementedError

        cls.compare = compare
    eng.func_models[vars(cls)["compare"]] = m_compare

    # _get_year: modular use of its contract (contracts/c01_generic.py) for abstract calculators
    real_get_year = vars(Base)["_get_year"]

    def m_get_year(eng: Any, self_: Any, days: Any) -> Any:
        if not is_abs(self_) or getattr(eng, "inline_get_year", False):
            return eng.run_function(eng.fctx_for(real_get_year), None, [self_, days], {}, key=real_get_year)
        ac = cal_of(self_)
        eng.oblige(And(days >= soy(ac.cid, ac.min_year), days <= soy(ac.cid, ac.max_year + 1) - 1), "CAL.pre._get_year: day number within the calendar range", kind="callee-pre", site=eng.cur_site())
        y = sym.fresh_int("year_of_days")
        ac.touch_year(eng, y)
        ac.touch_year(eng, y + 1)
        eng.assume(And(y >= ac.min_year, y <= ac.max_year, soy(ac.cid, y) <= days, days < soy(ac.cid, y + 1)))
        return (y, days - soy(ac.cid, y))

    eng.func_models[real_get_year] = m_get_year

    # CalendarSystem._for_ordinal: the registered abstract systems, by (provable) ordinal
    real_for_ordinal = vars(CalendarSystem)["_for_ordinal"].__func__

    def m_for_ordinal(eng: Any, kls: Any, ordinal: Any) -> Any:
        if not sym.is_sym(ordinal) and not any(sym.is_sym(ac.ordinal) for ac in eng.abs_cals):
            concrete = [ac for ac in eng.abs_cals if ac.ordinal == ordinal]
            if concrete:
                return concrete[0].system
            return eng.run_function(eng.fctx_for(real_for_ordinal), None, [kls, ordinal], {}, key=real_for_ordinal)
        for ac in eng.abs_cals:
            if eng.provable(ordinal == ac.ordinal):
                return ac.system
        if not sym.is_sym(ordinal):
            return eng.run_function(eng.fctx_for(real_for_ordinal), None, [kls, ordinal], {}, key=real_for_ordinal)
        raise sym.Unsupported("CalendarSystem._for_ordinal on an ordinal that is not provably one of the abstract calendars")

    eng.func_models[real_for_ordinal] = m_for_ordinal


def new_calendar(eng_or_builder: Any, name: str, eng: Any = None) -> AbsCal:
    """Create an abstract calendar (symbolic id, ordinal, year range) and its CalendarSystem / calculator objects.
    `eng_or_builder` collects the assumptions (a contracts.Builder during input generation)."""
    from pyoda_time._calendar_system import CalendarSystem

    b = eng_or_builder
    cid = sym.var_int(f"{name}.id")
    ordinal = sym.var_int(f"{name}.ordinal")
    min_year = sym.var_int(f"{name}.minY")
    max_year = sym.var_int(f"{name}.maxY")
    b.assume(And(ordinal >= 0, ordinal <= 18, cid == ordinal, min_year >= -9998, min_year <= 1, max_year >= 999, max_year <= 9999))
    ac = AbsCal(cid, ordinal, min_year, max_year)
    cls = abstract_calc_class()
    calc = SObj(
        cls,
        {
            "_YearMonthDayCalculator__min_year": min_year,
            "_YearMonthDayCalculator__max_year": max_year,
            "_YearMonthDayCalculator__average_days_per_10_years": sym.var_int(f"{name}.avg10"),
            "_YearMonthDayCalculator__days_at_start_of_year_1": sym.var_int(f"{name}.d1"),
        },
        owner=-1,
        tag=f"{name}.calc",
    )
    system = SObj(
        CalendarSystem,
        {
            "_CalendarSystem__ordinal": ordinal,
            "_CalendarSystem__year_month_day_calculator": calc,
            "_CalendarSystem__min_year": min_year,
            "_CalendarSystem__max_year": max_year,
            "_CalendarSystem__min_days": soy(cid, min_year),
            "_CalendarSystem__max_days": soy(cid, max_year + 1) - 1,
        },
        owner=-1,
        tag=f"{name}.system",
    )
    ac.calc = calc
    ac.system = system
    # the range ends are years the axioms must know about
    for ax in ac.ax_year(min_year) + ac.ax_year(max_year) + ac.ax_year(min_year - 1) + ac.ax_year(max_year + 1):
        b.assume(ax)
    b.assume(ac.ax_mono(min_year, max_year + 1))
    b.assume(ac.ax_mono(min_year - 1, min_year))
    b.assume(ac.ax_mono(max_year, max_year + 1))
    return ac
