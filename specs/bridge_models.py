"""Modular use of the two LocalDateTime bridge contracts proved in contracts/c15_bridge.py:

  LocalDateTime.from_naive_datetime(dt[, calendar])  valid date of the calendar with the day number of dt, time = us*1000;
                                                     ValueError for aware dt or a day outside the calendar
  LocalDateTime.to_naive_datetime()                  naive datetime with the same day number and ns // 1000;
                                                     RuntimeError before 0001-01-01; ValueError outside the Gregorian range
"""

from __future__ import annotations

from typing import Any

from pyvc import sym
from pyvc.sym import And
from pyvc.values import SObj

from . import cal_abs as CA
from . import dt_models as DT
from . import views as V
from .field_models import _cal_of, _mk_date


def install(eng: Any) -> None:
    from pyoda_time._local_date_time import LocalDateTime
    from pyoda_time._local_time import LocalTime

    def from_naive(eng: Any, cls: Any, dt: Any, calendar: Any = None) -> Any:
        if dt.tzinfo is not None:
            eng.raise_(ValueError, "aware datetime")
        if calendar is None:
            ac = next(a for a in eng.abs_cals if eng.provable(a.ordinal == 0))
        else:
            ac = next(a for a in eng.abs_cals if a.system is calendar or eng.alias.get(id(calendar)) is a.system)
        n = DT.date_ord(dt)
        if not eng.truth(And(n >= CA.soy(ac.cid, ac.min_year), n <= CA.soy(ac.cid, ac.max_year + 1) - 1)):
            eng.raise_(ValueError, "day outside the calendar")
        y, m, d = sym.fresh_int("fn_y"), sym.fresh_int("fn_m"), sym.fresh_int("fn_d")
        ac.touch_month(eng, y, m)
        eng.assume(And(ac.valid_date(y, m, d), CA.dse(ac.cid, y, m, d) == n))
        date = _mk_date(eng, ac, y, m, d)
        time = SObj(LocalTime, {"_LocalTime__nanoseconds": DT.time_us(dt) * 1000}, owner=eng.active_runs[-1])
        return SObj(LocalDateTime, {"_LocalDateTime__date": date, "_LocalDateTime__time": time}, owner=eng.active_runs[-1])

    def to_naive(eng: Any, self_: Any) -> Any:
        date = V.ldt_date(self_)
        ac = _cal_of(eng, date)
        n = CA.dse(ac.cid, V.ld_y(date), V.ld_m(date), V.ld_d(date))
        g = DT.GREG[0]
        if g is not None and g is not ac:
            if not eng.truth(And(n >= CA.soy(g.cid, g.min_year), n <= CA.soy(g.cid, g.max_year + 1) - 1)):
                eng.raise_(ValueError, "day outside the Gregorian calendar")
        if not eng.truth(n >= DT.MIN_ORD):
            eng.raise_(RuntimeError, "LocalDateTime out of range of datetime")
        return DT.MDateTime(n, sym.floordiv(V.lt_nanos(V.ldt_time(self_)), 1000), None)

    eng.func_models[vars(LocalDateTime)["from_naive_datetime"].__func__] = from_naive
    eng.func_models[vars(LocalDateTime)["to_naive_datetime"]] = to_naive
