"""Published calendar algorithms as spec functions (C02), written independently of the code under /repo.

Sources: Dershowitz & Reingold, *Calendrical Calculations* (3rd ed.) for Gregorian/Julian Rata Die, Coptic,
arithmetic Islamic, Hebrew (molad formulation) and arithmetic Persian; the leap-year lists in the docstring of
IslamicLeapYearPattern; the 33-year Persian cycle from the class documentation.  All functions take Python ints
or symbolic ints (pyvc.sym overloads) and return "days since 1970-01-01 (ISO)" where a day number is meant:
R.D. 719163 is 1970-01-01.

Each `CalSpec` gives, for a calendar: year range, months in year, leap rule, month lengths, year start, and the
order of months within the year (identity except Hebrew scriptural numbering, where Tishri = 7 comes first).
"""

from __future__ import annotations

from dataclasses import dataclass
from typing import Any, Callable

from pyvc.sym import And, Not, Or, ite

RD_UNIX = 719163


def _count_le(s: tuple[int, ...], k: Any) -> Any:
    """#{x in s : x <= k}"""
    r: Any = 0
    for x in s:
        r = r + ite(k >= x, 1, 0)
    return r


def _count_lt(s: tuple[int, ...], k: Any) -> Any:
    r: Any = 0
    for x in s:
        r = r + ite(k > x, 1, 0)
    return r


# ------------------------------------------------------------------------------------------ Gregorian / Julian
def gregorian_leap(y: Any) -> Any:
    return And(y % 4 == 0, Or(y % 100 != 0, y % 400 == 0))


def gregorian_soy(y: Any) -> Any:
    p = y - 1
    return 365 * p + p // 4 - p // 100 + p // 400 + 1 - RD_UNIX


def julian_leap(y: Any) -> Any:
    return y % 4 == 0


def julian_soy(y: Any) -> Any:
    p = y - 1
    # R.D. of 0001-01-01 (Julian) is -1
    return 365 * p + p // 4 - 1 - RD_UNIX


_GJ_DIM = (31, 28, 31, 30, 31, 30, 31, 31, 30, 31, 30, 31)


def gj_dim(leap: Callable[[Any], Any]) -> Callable[[Any, Any], Any]:
    def dim(y: Any, m: Any) -> Any:
        r: Any = ite(leap(y), 29, 28)
        for i in range(12, 0, -1):
            if i != 2:
                r = ite(m == i, _GJ_DIM[i - 1], r)
        return r

    return dim


# ------------------------------------------------------------------------------------------ Coptic
COPTIC_EPOCH_RD = 103605  # 0284-08-29 Julian


def coptic_leap(y: Any) -> Any:
    return y % 4 == 3


def coptic_soy(y: Any) -> Any:
    return COPTIC_EPOCH_RD - 1 + 365 * (y - 1) + y // 4 + 1 - RD_UNIX


def coptic_dim(y: Any, m: Any) -> Any:
    return ite(m == 13, ite(coptic_leap(y), 6, 5), 30)


# ------------------------------------------------------------------------------------------ Islamic (tabular)
ISLAMIC_LEAP_SETS = {
    "BASE15": (2, 5, 7, 10, 13, 15, 18, 21, 24, 26, 29),
    "BASE16": (2, 5, 7, 10, 13, 16, 18, 21, 24, 26, 29),
    "INDIAN": (2, 5, 8, 10, 13, 16, 19, 21, 24, 27, 29),
    "HABASH_AL_HASIB": (2, 5, 8, 11, 13, 16, 19, 21, 24, 27, 30),
}
ISLAMIC_EPOCH_RD = {"CIVIL": 227015, "ASTRONOMICAL": 227014}  # 0622-07-16 / 0622-07-15 Julian


def islamic(pattern: str, epoch: str) -> "CalSpec":
    s = ISLAMIC_LEAP_SETS[pattern]
    e = ISLAMIC_EPOCH_RD[epoch]

    def pos(y: Any) -> Any:  # position 1..30 in the 30-year cycle
        return (y - 1) % 30 + 1

    def leap(y: Any) -> Any:
        p = pos(y)
        return Or(*[p == x for x in s])

    def soy(y: Any) -> Any:
        n = y - 1  # completed years
        leaps = 11 * (n // 30) + _count_le(s, n % 30)
        return e + 354 * n + leaps - RD_UNIX

    def dim(y: Any, m: Any) -> Any:
        return ite(And(m == 12, leap(y)), 30, ite(m % 2 == 1, 30, 29))

    return CalSpec(f"Hijri {epoch}-{pattern}", 1, 9665, lambda y: 12, leap, dim, soy)


# ------------------------------------------------------------------------------------------ Hebrew
HEBREW_EPOCH_RD = -1373427  # R.D. of the day before 1 Tishri AM 1 in the elapsed-days convention of CC3


def hebrew_leap(y: Any) -> Any:
    return (7 * y + 1) % 19 < 7


def hebrew_elapsed_days(y: Any) -> Any:
    months = (235 * y - 234) // 19
    parts = 12084 + 13753 * months
    day = 29 * months + parts // 25920
    return ite((3 * (day + 1)) % 7 < 3, day + 1, day)


def hebrew_year_length_correction(y: Any) -> Any:
    ny0 = hebrew_elapsed_days(y - 1)
    ny1 = hebrew_elapsed_days(y)
    ny2 = hebrew_elapsed_days(y + 1)
    return ite(ny2 - ny1 == 356, 2, ite(ny1 - ny0 == 382, 1, 0))


def hebrew_new_year_rd(y: Any) -> Any:
    return HEBREW_EPOCH_RD + hebrew_elapsed_days(y) + hebrew_year_length_correction(y)


def hebrew_soy(y: Any) -> Any:
    return hebrew_new_year_rd(y) - RD_UNIX


def hebrew_diy(y: Any) -> Any:
    return hebrew_new_year_rd(y + 1) - hebrew_new_year_rd(y)


def hebrew_dim_scriptural(y: Any, m: Any) -> Any:
    diy = hebrew_diy(y)
    long_heshvan = diy % 10 == 5
    short_kislev = diy % 10 == 3
    r: Any = 30  # 1 Nisan, 3 Sivan, 5 Av, 7 Tishri, 11 Shevat
    r = ite(Or(m == 2, m == 4, m == 6, m == 10, m == 13), 29, r)
    r = ite(m == 8, ite(long_heshvan, 30, 29), r)
    r = ite(m == 9, ite(short_kislev, 29, 30), r)
    r = ite(m == 12, ite(hebrew_leap(y), 30, 29), r)
    return r


def hebrew_miy(y: Any) -> Any:
    return ite(hebrew_leap(y), 13, 12)


def hebrew_scriptural_order(y: Any, m: Any) -> Any:
    """Position (1-based) of scriptural month m within year y: Tishri (7) is first."""
    return ite(m >= 7, m - 6, m + ite(hebrew_leap(y), 7, 6))


def hebrew_civil_to_scriptural(y: Any, m: Any) -> Any:
    """Civil month k is the k-th month of the year (Tishri = 1)."""
    n = hebrew_miy(y)
    # k <= n-6 -> months 7..; else wraps to 1..6
    return ite(m <= n - 6, m + 6, m - (n - 6))


# ------------------------------------------------------------------------------------------ Persian
PERSIAN_SIMPLE_LEAPS = (1, 5, 9, 13, 17, 22, 26, 30)
PERSIAN_SIMPLE_EPOCH_RD = 226895  # proleptic Gregorian 0622-03-21
PERSIAN_ARITH_EPOCH_RD = 226896  # Julian 0622-03-19


def persian_simple_leap(y: Any) -> Any:
    p = y % 33
    return Or(*[p == x for x in PERSIAN_SIMPLE_LEAPS])


def persian_simple_soy(y: Any) -> Any:
    # leap years among 0..y-1 (year 0 is not leap)
    n = y  # number of years t in [0, y-1]
    leaps = 8 * (n // 33) + _count_lt(PERSIAN_SIMPLE_LEAPS, n % 33)
    return PERSIAN_SIMPLE_EPOCH_RD + 365 * (y - 1) + leaps - RD_UNIX


def persian_arith_leap(y: Any) -> Any:
    yy = ite(y > 0, y - 474, y - 473)
    year = yy % 2820 + 474
    return ((year + 38) * 31) % 128 < 31


def persian_arith_soy(y: Any) -> Any:
    """Birashk's arithmetic calendar, CC3 (15.3): fixed date of 1 Farvardin."""
    yy = ite(y > 0, y - 474, y - 473)
    year = yy % 2820 + 474
    return PERSIAN_ARITH_EPOCH_RD - 1 + 1029983 * (yy // 2820) + 365 * (year - 1) + (31 * year - 5) // 128 + 1 - RD_UNIX


def persian_dim(leap: Callable[[Any], Any]) -> Callable[[Any, Any], Any]:
    def dim(y: Any, m: Any) -> Any:
        return ite(m <= 6, 31, ite(m <= 11, 30, ite(leap(y), 30, 29)))

    return dim


# ------------------------------------------------------------------------------------------ the table


@dataclass
class CalSpec:
    name: str
    min_year: int
    max_year: int
    miy: Callable[[Any], Any]
    leap: Callable[[Any], Any]
    dim: Callable[[Any, Any], Any]
    soy: Callable[[Any], Any]
    order: Callable[[Any, Any], Any] | None = None  # position of month m in year y (None: identity)
    first_year_with_spec: int | None = None  # years below have no published arithmetic (Persian arithmetic < 475)

    def dsm(self, y: Any, m: Any, max_months: int = 13) -> Any:
        """Days from the start of year y to the start of month m: sum of the lengths of the months before m in
        the calendar's own order."""
        total: Any = 0
        for k in range(1, max_months + 1):
            if self.order is None:
                before = And(k < m, k <= self.miy(y))
            else:
                before = And(self.order(y, k) < self.order(y, m), k <= self.miy(y))
            total = total + ite(before, self.dim(y, k), 0)
        return total

    def diy(self, y: Any) -> Any:
        return self.soy(y + 1) - self.soy(y)


GREGORIAN = CalSpec("Gregorian", -9998, 9999, lambda y: 12, gregorian_leap, gj_dim(gregorian_leap), gregorian_soy)
JULIAN = CalSpec("Julian", -9997, 9998, lambda y: 12, julian_leap, gj_dim(julian_leap), julian_soy)
COPTIC = CalSpec("Coptic", 1, 9715, lambda y: 13, coptic_leap, coptic_dim, coptic_soy)
HEBREW_SCRIPTURAL = CalSpec("Hebrew Scriptural", 1, 9999, hebrew_miy, hebrew_leap, hebrew_dim_scriptural, hebrew_soy, order=hebrew_scriptural_order)
HEBREW_CIVIL = CalSpec(
    "Hebrew Civil", 1, 9999, hebrew_miy, hebrew_leap, lambda y, m: hebrew_dim_scriptural(y, hebrew_civil_to_scriptural(y, m)), hebrew_soy
)
PERSIAN_SIMPLE = CalSpec("Persian Simple", 1, 9377, lambda y: 12, persian_simple_leap, persian_dim(persian_simple_leap), persian_simple_soy)
PERSIAN_ARITHMETIC = CalSpec(
    "Persian Arithmetic", 1, 9377, lambda y: 12, persian_arith_leap, persian_dim(persian_arith_leap), persian_arith_soy, first_year_with_spec=475
)


def by_ordinal() -> dict[int, CalSpec]:
    """Published-arithmetic spec per calendar ordinal (17 ids; Persian astronomical, Um Al Qura, Badi have none)."""
    d = {0: GREGORIAN, 1: GREGORIAN, 2: JULIAN, 3: COPTIC, 4: HEBREW_CIVIL, 5: HEBREW_SCRIPTURAL, 6: PERSIAN_SIMPLE, 7: PERSIAN_ARITHMETIC}
    pats = ["BASE15", "BASE16", "INDIAN", "HABASH_AL_HASIB"]
    for i, p in enumerate(pats):
        d[9 + i] = islamic(p, "ASTRONOMICAL")
        d[13 + i] = islamic(p, "CIVIL")
    return d
