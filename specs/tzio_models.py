"""Token-level modular use of the codec primitive contracts.

contracts/c14_codec.py proves for every primitive pair (count, signed count, milliseconds, offset, byte, int16/32/64,
string) that reading what was written returns the value and consumes exactly the bytes written, and gives the
encoded size.  Composite writers/readers (transitions, yearly rules, recurrences, maps, zones) are then verified
with the primitives replaced by these contracts: the stream holds one token (kind, value) per primitive write, and a
primitive read consumes one token of its own kind.  Exact consumption of every primitive makes the concatenation
unambiguous, which is what lets tokens stand for byte runs."""

from __future__ import annotations

import z3

from typing import Any

from pyvc import sym
from pyvc.sym import And, Not, Or, Unsupported, ite
from pyvc.values import SList, SObj

INT_MAX = 2**31 - 1
MPD = 86_400_000


def varint_len(n: Any) -> Any:
    return ite(n < 2**7, 1, ite(n < 2**14, 2, ite(n < 2**21, 3, ite(n < 2**28, 4, 5))))


def millis_len(m: Any) -> Any:
    mm = m + MPD
    return ite(mm % 1_800_000 == 0, 1, ite(mm % 60_000 == 0, 2, ite(mm % 1000 == 0, 3, 4)))


def token_size(tok: tuple) -> Any:
    kind, v = tok[0], tok[1]
    if kind == "count":
        return varint_len(v)
    if kind == "scount":
        return varint_len(ite(v >= 0, 2 * v, -2 * v - 1))
    if kind == "millis":
        return millis_len(v)
    if kind == "byte":
        return 1
    if kind == "int64":
        return 8
    if kind == "str":
        return tok[2]
    raise Unsupported(f"token {kind}")


def stream_size(tokens: Any) -> Any:
    total: Any = 0
    for t in tokens:
        total = total + token_size(t)
    return total


def install(eng: Any) -> None:
    from pyoda_time.time_zones.io._date_time_zone_reader import _DateTimeZoneReader as R
    from pyoda_time.time_zones.io._date_time_zone_writer import _DateTimeZoneWriter as W
    from pyoda_time.utility import InvalidPyodaDataError

    def out(self_: Any) -> SList:
        s = eng.get_attr(self_, "_DateTimeZoneWriter__output")
        return s.fields["data"]

    def push(self_: Any, tok: tuple) -> None:
        lst = out(self_)
        if not eng.is_fresh(lst):
            eng.log_write(lst, "__append__", None, False)
        lst.items.append(tok)

    def pop(self_: Any, kind: str) -> Any:
        s = eng.get_attr(self_, "_DateTimeZoneReader__input")
        data, pos = s.fields["data"], s.fields["pos"]
        if sym.is_sym(pos):
            raise Unsupported("symbolic stream position")
        if pos >= len(data.items):
            eng.raise_(InvalidPyodaDataError, "Unexpected end of data stream")
        tok = data.items[pos]
        if tok[0] != kind:
            raise Unsupported(f"token model: reader asks for {kind} where the writer wrote {tok[0]}")
        eng.set_field(s, "pos", pos + 1)
        return tok

    def w_count(eng: Any, self_: Any, count: Any) -> Any:
        if not eng.truth(And(count >= 0, count <= INT_MAX)):
            eng.raise_(ValueError, "count out of range")
        push(self_, ("count", count))

    def r_count(eng: Any, self_: Any) -> Any:
        return pop(self_, "count")[1]

    def w_scount(eng: Any, self_: Any, count: Any) -> Any:
        eng.oblige(And(count >= -(2**31), count < 2**31), "pre.write_signed_count: 32-bit signed", kind="callee-pre", site=eng.cur_site())
        push(self_, ("scount", count))

    def r_scount(eng: Any, self_: Any) -> Any:
        return pop(self_, "scount")[1]

    def w_millis(eng: Any, self_: Any, millis: Any) -> Any:
        if not eng.truth(And(millis >= -MPD + 1, millis <= MPD - 1)):
            eng.raise_(ValueError, "millis out of range")
        push(self_, ("millis", millis))

    def r_millis(eng: Any, self_: Any) -> Any:
        return pop(self_, "millis")[1]

    def w_byte(eng: Any, self_: Any, value: Any) -> Any:
        if not eng.truth(And(value >= 0, value <= 255)):
            eng.raise_(ValueError, "bytes must be in range(0, 256)")
        push(self_, ("byte", value))

    def r_byte(eng: Any, self_: Any) -> Any:
        return pop(self_, "byte")[1]

    def w_int64(eng: Any, self_: Any, value: Any) -> Any:
        eng.oblige(And(value >= -(2**63), value < 2**63), "pre.__write_int64: 64-bit signed", kind="callee-pre", site=eng.cur_site())
        push(self_, ("int64", value))

    def r_int64(eng: Any, self_: Any) -> Any:
        return pop(self_, "int64")[1]

    def w_string(eng: Any, self_: Any, value: Any) -> Any:
        push(self_, ("str", value, 0))

    def r_string(eng: Any, self_: Any) -> Any:
        return pop(self_, "str")[1]

    def w_offset(eng: Any, self_: Any, offset: Any) -> Any:
        push(self_, ("millis", eng.get_attr(offset, "milliseconds")))

    def r_offset(eng: Any, self_: Any) -> Any:
        from pyoda_time import Offset

        ms = pop(self_, "millis")[1]
        return eng.call_value(eng.get_attr(Offset, "from_milliseconds"), [ms], {})

    def more(eng: Any, self_: Any) -> Any:
        s = eng.get_attr(self_, "_DateTimeZoneReader__input")
        return s.fields["pos"] < len(s.fields["data"].items)

    fm = eng.func_models
    fm[vars(W)["write_count"]] = w_count
    fm[vars(R)["read_count"]] = r_count
    fm[vars(W)["write_signed_count"]] = w_scount
    fm[vars(R)["read_signed_count"]] = r_scount
    fm[vars(W)["write_milliseconds"]] = w_millis
    fm[vars(R)["read_milliseconds"]] = r_millis
    fm[vars(W)["write_byte"]] = w_byte
    fm[vars(R)["read_byte"]] = r_byte
    fm[vars(W)["_DateTimeZoneWriter__write_int64"]] = w_int64
    fm[vars(R)["_DateTimeZoneReader__read_int64"]] = r_int64
    fm[vars(R)["has_more_data"].fget] = more
    fm[vars(W)["write_string"]] = w_string
    fm[vars(R)["read_string"]] = r_string
    fm[vars(W)["write_offset"]] = w_offset
    fm[vars(R)["read_offset"]] = r_offset


STREAM_BYTE = z3.Function("STREAM_BYTE", z3.IntSort(), z3.IntSort())


class StreamBytes:
    """Content of an AnyStream: position -> STREAM_BYTE(position).  Only concretisation needs it."""

    N = 64

    def pyvc_leaves(self) -> list:
        # what a sampler of counter-models may vary: the first bytes of the stream
        return [sym.mk_int(STREAM_BYTE(z3.IntVal(k))) for k in range(6)]

    def pyvc_concretize(self, ev: Any, live: bool) -> bytes:
        return bytes(int(ev(sym.mk_int(STREAM_BYTE(z3.IntVal(k))))) & 0xFF for k in range(self.N))


def install_any_stream(eng: Any) -> None:
    """Contract of a byte stream's read(1) (assumption A7): if bytes are left, one arbitrary byte 0..255 and the ghost
    counter `left` decreases by one; otherwise the empty bytes object."""
    from harness.tzio import AnyStream
    from pyvc.models import SBytes

    def read(eng: Any, self_: Any, n: Any = -1) -> Any:
        if sym.is_sym(n) or n != 1:
            raise Unsupported("AnyStream.read(n) is only specified for n == 1")
        left = self_.fields["left"]
        if eng.truth(left > 0):
            pos = self_.fields["pos"]
            b = sym.mk_int(STREAM_BYTE(sym.SInt.lift(pos)))  # the byte at this position: arbitrary but fixed
            eng.assume(And(b >= 0, b <= 255))
            eng.set_field(self_, "left", left - 1)
            eng.set_field(self_, "pos", pos + 1)
            return SBytes([b])
        return b""

    eng.func_models[vars(AnyStream)["read"]] = read
