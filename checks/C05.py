"""C05 stand-in: see checks/zonewalk.py."""
from checks import zonewalk

EXPLANATION = "Stand-in: map_local / strict / lenient resolvers compared with a brute-force search at every edge (+-1 ns, +-1 s) of sampled transitions of every real zone."
ASSUMPTIONS = ["map_local is correct only for zones whose intervals are long relative to the +-18 h offset window: checked over the real data, not proved"]


def run(tier: str, seed: int) -> dict:
    return zonewalk.run_walk({"C05"}, tier, seed)
