"""Bounded stand-ins for the text properties (C07 / C08 / C17): generated patterns, generated values, mutated texts and
a differential comparison with the standard library's ISO-8601 reader/writer.  Seeded sample of an unbounded space:
reported under `bounded`, never counted as discharged."""

from __future__ import annotations

import datetime as dt
import random
import traceback
from typing import Any

TYPES: dict[str, dict[str, Any]] = {}


def _init() -> None:
    if TYPES:
        return
    from pyoda_time import AnnualDate, Duration, Instant, LocalDate, LocalDateTime, LocalTime, Offset
    from pyoda_time.text import AnnualDatePattern, DurationPattern, InstantPattern, LocalDatePattern, LocalDateTimePattern, LocalTimePattern, OffsetPattern

    def rtime(r):
        return LocalTime.from_nanoseconds_since_midnight(r.choice([0, 86_399_999_999_999, r.randrange(86_400_000_000_000), r.randrange(86400) * 10**9, r.randrange(86_400_000) * 10**6]))

    def rdate(r):
        y = r.choice([1, 9999, -9998, 0, r.randint(-9998, 9999), r.randint(1900, 2100)])
        m = r.randint(1, 12)
        return LocalDate(y, m, r.randint(1, 28)) if r.random() < 0.8 else LocalDate(y, m, 1).plus_months(1).plus_days(-1) if y < 9999 or m < 12 else LocalDate(y, m, 31)

    TYPES.update(
        {
            "offset": {"P": OffsetPattern, "value": lambda r: Offset.from_seconds(r.choice([0, 64800, -64800, r.randint(-64800, 64800), r.randint(-18, 18) * 3600, r.randint(-1080, 1080) * 60])), "alpha": "+-HhmsfgGlZ:'\\\"% .", "seeds": ["g", "G", "f", "m", "s", "l", "+HH:mm", "-HH:mm:ss", "Z+HH:mm", "+HH", "+HHmm", "+H:m:s"], "exact": ["g", "G", "l", "+HH:mm:ss", "-HH:mm:ss", "Z+HH:mm:ss"], "key": lambda v: v.seconds},
            "time": {"P": LocalTimePattern, "value": rtime, "alpha": "HhmsfFtT:.;'\\\"%r ", "seeds": ["t", "T", "r", "HH:mm:ss", "HH:mm:ss.FFFFFFFFF", "hh:mm:ss.fffffffff tt", "H:m:s", "HH:mm:ss;FFFFFFF", "hh:mm t", "HHmmss"], "exact": ["r", "HH:mm:ss.FFFFFFFFF", "HH:mm:ss.fffffffff", "hh:mm:ss.fffffffff tt", "H:m:s;FFFFFFFFF"], "key": lambda v: v.nanosecond_of_day},
            "date": {"P": LocalDatePattern, "value": rdate, "alpha": "yuMdcg/'\\\"%- .", "seeds": ["d", "D", "uuuu-MM-dd", "yyyy-MM-dd g", "dd/MM/uuuu", "MMMM dd uuuu", "ddd dd MMM uuuu", "uuuuMMdd", "d/M/uuuu", "uuuu-MM-dd c", "yy-MM-dd"], "exact": ["uuuu-MM-dd", "yyyy-MM-dd g", "dd/MM/uuuu", "MMMM dd uuuu", "ddd dd MMM uuuu", "uuuuMMdd", "d/M/uuuu", "dddd d MMMM uuuu", "uuuu-MM-dd c"], "key": lambda v: (v.year, v.month, v.day, v.calendar.id)},
            "datetime": {"P": LocalDateTimePattern, "value": lambda r: rdate(r) + rtime(r), "alpha": "yuMdHhmsfFtTcg/:.;'\\\"% -<>l", "seeds": ["o", "O", "r", "R", "s", "S", "F", "f", "G", "g", "uuuu-MM-dd'T'HH:mm:ss", "dd/MM/uuuu HH:mm", "uuuu-MM-dd'T'HH:mm:ss.FFFFFFFFF", "ld<uuuu-MM-dd>'T'lt<HH:mm:ss>", "l<uuuu-MM-dd HH:mm>", "l<s>", "'at' l<HH:mm dd/MM/uuuu>", "ld<d> lt<t>", "l<", "l<>", "lx<HH>", "ld<uuuu>lt<HH>"], "exact": ["r", "R", "uuuu-MM-dd'T'HH:mm:ss.FFFFFFFFF", "dd/MM/uuuu hh:mm:ss.fffffffff tt"], "key": lambda v: (v.year, v.month, v.day, v.nanosecond_of_day)},
            "duration": {"P": DurationPattern, "value": lambda r: Duration.from_nanoseconds(r.choice([0, 1, -1, r.randint(-(10**18), 10**18), r.randint(-(10**13), 10**13), r.randint(-86400, 86400) * 10**9, r.randint(-400, 400) * 86400 * 10**9, r.randint(-400, 400) * 86400 * 10**9 + r.choice([-1, 1, -(10**9), 10**9, -3600 * 10**9, 3600 * 10**9])])), "alpha": "DHhMmSsfF+-:.'\\\"% ", "seeds": ["o", "j", "-D:hh:mm:ss.FFFFFFFFF", "HH:mm", "M:ss", "S.fff", "-H:mm:ss", "+D 'd' hh:mm"], "exact": ["o", "j", "-D:hh:mm:ss.FFFFFFFFF", "-H:mm:ss.fffffffff", "-S.FFFFFFFFF", "-M:ss.fffffffff"], "key": lambda v: v.to_nanoseconds()},
            "instant": {"P": InstantPattern, "value": lambda r: Instant.from_unix_time_ticks(r.choice([0, r.randint(-62135596800 * 10**7, 253402300799 * 10**7), r.randint(-10**17, 10**17)])), "alpha": "yuMdHhmsfFtTcg/:.;'\\\"% -Z", "seeds": ["g", "uuuu-MM-dd'T'HH:mm:ss'Z'", "uuuu-MM-dd'T'HH:mm:ss;FFFFFFFFF'Z'", "dd/MM/uuuu HH:mm:ss"], "exact": ["uuuu-MM-dd'T'HH:mm:ss;FFFFFFFFF'Z'", "uuuu-MM-dd'T'HH:mm:ss.fffffffff"], "key": lambda v: v.to_unix_time_ticks()},
            "annual": {"P": AnnualDatePattern, "value": lambda r: AnnualDate(r.randint(1, 12), r.randint(1, 28)) if r.random() < 0.9 else AnnualDate(2, 29), "alpha": "Md/'\\\"%- ", "seeds": ["G", "MM-dd", "dd/MM", "MMMM dd", "MMM d", "d/M"], "exact": ["G", "MM-dd", "dd/MM", "MMMM dd", "MMM d", "d/M"], "key": lambda v: (v.month, v.day)},
        }
    )


def _mutate(r: random.Random, s: str, alpha: str, k: int) -> str:
    cs = list(s)
    for _ in range(k):
        op = r.random()
        if op < 0.4 and cs:
            cs[r.randrange(len(cs))] = r.choice(alpha)
        elif op < 0.8:
            cs.insert(r.randrange(len(cs) + 1), r.choice(alpha))
        elif cs:
            del cs[r.randrange(len(cs))]
    return "".join(cs)


def _delimited(pt: str) -> bool:
    """every run of one field letter is separated from the next field by a literal (the property's premise)"""
    import re

    bare = re.sub(r"'[^']*'|\"[^\"]*\"|\\\\.", "|", pt)
    return re.search(r"([A-Za-z])(?!\1)[A-Za-z]", bare) is None and len(pt) > 1


def _where(e: BaseException) -> str:
    tb = traceback.extract_tb(e.__traceback__)
    fr = [f for f in tb if "pyoda_time" in f.filename]
    return f"{fr[-1].filename.split('/')[-1]}:{fr[-1].name}" if fr else "?"


TEXT_ALPHA = "0123456789+-:./ TZ\0aApPmM١٢x,;"


def run_c08(tier: str, seed: int) -> dict:
    _init()
    from pyoda_time.text import InvalidPatternError

    r = random.Random(seed * 7919 + 8)
    scale = 12 if tier == "thorough" else 1
    leaks: dict[tuple, str] = {}
    n_pat = n_txt = n_bad_pat = n_fail = 0
    for name, T in TYPES.items():
        pats = list(T["seeds"]) + [_mutate(r, r.choice(T["seeds"]), T["alpha"], r.randint(1, 3)) for _ in range(120 * scale)] + ["", "'", "\\", "%", "'abc", "uuuu\\", "<", "<HH>", "HH<", "\0"]
        for pt in pats:
            n_pat += 1
            try:
                p = T["P"].create_with_invariant_culture(pt)
            except InvalidPatternError:
                n_bad_pat += 1
                continue
            except Exception as e:  # noqa: BLE001
                leaks.setdefault((name + ".create", type(e).__name__, _where(e)), f"pattern {pt!r}")
                continue
            texts = ["", "\0", "+19", "-18:00:01", "99:99", "2020-02-30", "0000-00-00", "-9999-01-01", "10000-01-01", "١٢", "12:60", "24:00", "+", "-", "9" * 30, "1" * 400]
            for _ in range(6):
                try:
                    good = p.format(T["value"](r))
                except Exception as e:  # noqa: BLE001
                    leaks.setdefault((name + ".format", type(e).__name__, _where(e)), f"pattern {pt!r}")
                    break
                texts.append(good)
                texts.append(_mutate(r, good, TEXT_ALPHA, r.randint(1, 2)))
                if good:
                    texts.append(good[: r.randrange(len(good))])
                    texts.append(good + r.choice(TEXT_ALPHA))
            for t in texts:
                n_txt += 1
                try:
                    res = p.parse(t)
                    if res.success:
                        v = res.value
                        p.format(v)  # a valid value can always be formatted
                    else:
                        n_fail += 1
                        _ = res.exception
                except Exception as e:  # noqa: BLE001
                    leaks.setdefault((name + ".parse", type(e).__name__, _where(e)), f"pattern {pt!r} text {t!r}")
    violations = [{"name": f"C08.{k[0]} {k[1]} from {k[2]}", "kind": "standin", "site": k[2], "detail": f"{k[1]} escaped: {v}", "contract": "standin", "inputs": {"case": v}, "replay": {"confirmed": True}} for k, v in sorted(leaks.items())[:10]]
    return {"bounded": [{"name": "pattern creation and parsing fuzz (invariant culture)", "bound": f"{n_pat} pattern texts (seeds and 1..3-edit mutations, malformed ones included), {n_txt} input texts (valid, mutated, truncated, extended, out-of-range, non-ASCII digits, NUL, overlong)", "evaluations": n_pat + n_txt, "distinct_nontrivial": n_bad_pat + n_fail, "rule": "non-trivial = the pattern text was rejected or the parse returned a failure result", "exhaustive": False}], "violations": violations}


def run_c07(tier: str, seed: int) -> dict:
    _init()
    from pyoda_time.text import InvalidPatternError

    r = random.Random(seed * 7919 + 7)
    scale = 12 if tier == "thorough" else 1
    bad: dict[tuple, str] = {}
    n = n_exact = 0
    for name, T in TYPES.items():
        pats = [(pt, True) for pt in T["exact"]] + [(pt, False) for pt in T["seeds"]] + [(_mutate(r, r.choice(T["seeds"]), T["alpha"], 1), False) for _ in range(40 * scale)]
        for pt, exact in pats:
            try:
                p = T["P"].create_with_invariant_culture(pt)
            except InvalidPatternError:
                continue
            except Exception:  # noqa: BLE001 -- C08's business
                continue
            for _ in range(25 * scale if exact else 6):
                v = T["value"](r)
                n += 1
                try:
                    text = p.format(v)
                    if p.format(v) != text:
                        bad.setdefault((name, "nondeterministic"), f"pattern {pt!r} value {v!r}")
                    res = p.parse(text)
                    if exact:
                        n_exact += 1
                        if not res.success or T["key"](res.value) != T["key"](v):
                            bad.setdefault((name, "round-trip"), f"pattern {pt!r}: {v!r} -> {text!r} -> {res.value if res.success else 'failure'!r}")
                    elif res.success and _delimited(pt) and p.format(res.value) != text:
                        negzero = "-" in text and not any(ch in "123456789" for ch in text)
                        bad.setdefault((name, "re-format negative-zero" if negzero else "re-format"), f"pattern {pt!r}: text {text!r} parsed and re-formatted as {p.format(res.value)!r}")
                except Exception as e:  # noqa: BLE001
                    if name == "date" and "9999" in str(e):
                        continue
                    bad.setdefault((name, "exception " + type(e).__name__), f"pattern {pt!r} value {v!r}: {e}")
    # two-digit years: every year of the 100-year window the pattern can represent (template year 2000)
    from pyoda_time import LocalDate, LocalDateTime
    from pyoda_time.text import LocalDatePattern, LocalDateTimePattern

    for mx in (0, 1, 30, 50, 98, 99):
        pd = LocalDatePattern.create_with_invariant_culture("yy-MM-dd").with_two_digit_year_max(mx)
        pdt = LocalDateTimePattern.create_with_invariant_culture("yy-MM-dd HH:mm").with_two_digit_year_max(mx)
        for year in range(2000 + mx - 99, 2000 + mx + 1):
            n += 2
            n_exact += 2
            d = LocalDate(year, 6, 15)
            res = pd.parse(pd.format(d))
            if not res.success or res.value != d:
                bad.setdefault(("date", "two-digit-year"), f"pattern 'yy-MM-dd' two_digit_year_max={mx}: {d!r} -> {pd.format(d)!r} -> {res.value if res.success else 'failure'!r}")
            x = LocalDateTime(year, 6, 15, 10, 30)
            res = pdt.parse(pdt.format(x))
            if not res.success or res.value != x:
                bad.setdefault(("datetime", "two-digit-year"), f"pattern 'yy-MM-dd HH:mm' two_digit_year_max={mx}: {x!r} -> {pdt.format(x)!r}")
    violations = [{"name": f"C07.{k[0]} {k[1]}", "kind": "standin", "site": k[1], "detail": v, "contract": "standin", "inputs": {"case": v}, "replay": {"confirmed": True}} for k, v in sorted(bad.items())[:10]]
    return {"bounded": [{"name": "format/parse round trips over generated patterns and values (invariant culture)", "bound": f"{n} (pattern, value) pairs; {n_exact} with patterns whose fields represent the value exactly", "evaluations": n, "distinct_nontrivial": n_exact, "rule": "non-trivial = the pattern represents the value exactly, so equality after the round trip is required", "exhaustive": False}], "violations": violations}


def run_c17(tier: str, seed: int) -> dict:
    _init()
    from pyoda_time import Instant, LocalDate, LocalDateTime, LocalTime, Offset
    from pyoda_time.text import InstantPattern, LocalDatePattern, LocalDateTimePattern, LocalTimePattern, OffsetPattern

    r = random.Random(seed * 7919 + 17)
    N = 4000 * (10 if tier == "thorough" else 1)
    bad: dict[str, str] = {}
    n = 0

    def chk(kind: str, ok: bool, msg: str) -> None:
        if not ok:
            bad.setdefault(kind, msg)

    for _ in range(N):
        n += 1
        # dates
        d = dt.date.fromordinal(r.choice([1, dt.date.max.toordinal(), r.randint(1, dt.date.max.toordinal())]))
        ld = LocalDate(d.year, d.month, d.day)
        text = LocalDatePattern.iso.format(ld)
        chk("date.format", text == d.isoformat() and dt.date.fromisoformat(text) == d, f"{d!r}: pattern wrote {text!r}, stdlib writes {d.isoformat()!r}")
        back = LocalDatePattern.iso.parse(d.isoformat())
        chk("date.parse", back.success and back.value == ld, f"stdlib text {d.isoformat()!r} did not parse to {ld!r}")
        # times
        us = r.choice([0, 86_399_999_999, r.randrange(86_400_000_000), r.randrange(86400) * 10**6, r.randrange(86_400_000) * 1000])
        t = (dt.datetime.min + dt.timedelta(microseconds=us)).time()
        lt = LocalTime.from_nanoseconds_since_midnight(us * 1000)
        for pat in (LocalTimePattern.extended_iso, LocalTimePattern.long_extended_iso):
            text = pat.format(lt)
            chk("time.format", dt.time.fromisoformat(text) == t, f"{t!r}: pattern wrote {text!r} which the stdlib reads as {dt.time.fromisoformat(text)!r}")
        if pat is not None:
            text = LocalTimePattern.extended_iso.format(lt)
            chk("time.width", len(text.split(".")[0]) == 8 and (("." not in text) or not text.endswith("0")), f"{text!r} is not fixed width without trailing zeros")
        back = LocalTimePattern.extended_iso.parse(t.isoformat())
        chk("time.parse", back.success and back.value == lt, f"stdlib text {t.isoformat()!r} did not parse to {lt!r}")
        # date-times
        x = dt.datetime.combine(d, t)
        ldt = LocalDateTime(d.year, d.month, d.day, 0, 0).plus_nanoseconds(us * 1000) if d < dt.date.max or us < 86_400_000_000 else None
        if ldt is not None and ldt.date == ld:
            text = LocalDateTimePattern.extended_iso.format(ldt)
            chk("datetime.format", dt.datetime.fromisoformat(text) == x, f"{x!r}: pattern wrote {text!r}")
            back = LocalDateTimePattern.extended_iso.parse(x.isoformat())
            chk("datetime.parse", back.success and back.value == ldt, f"stdlib text {x.isoformat()!r} did not parse to {ldt!r}")
            # instants
            xi = x.replace(tzinfo=dt.timezone.utc)
            ins = Instant.from_utc(d.year, d.month, d.day, 0, 0).plus_nanoseconds(us * 1000)
            text = InstantPattern.extended_iso.format(ins)
            chk("instant.format", text.endswith("Z") and dt.datetime.fromisoformat(text) == xi, f"{xi!r}: pattern wrote {text!r}")
            text2 = InstantPattern.general.format(ins)
            chk("instant.general", text2.endswith("Z") and len(text2) == 20 and dt.datetime.fromisoformat(text2) == xi.replace(microsecond=0), f"{xi!r}: general pattern wrote {text2!r}")
            back = InstantPattern.extended_iso.parse(xi.isoformat().replace("+00:00", "Z"))
            chk("instant.parse", back.success and back.value == ins, f"stdlib text {xi.isoformat()!r} (Z form) did not parse to {ins!r}")
        # full nanosecond precision (beyond the stdlib's reach): round trip and fraction width through the patterns themselves
        ns = r.choice([1, 999_999_999, r.randrange(10**9)])
        lt9 = LocalTime.from_nanoseconds_since_midnight(r.randrange(86400) * 10**9 + ns)
        for pat, nine in ((LocalTimePattern.extended_iso, False), (LocalTimePattern.long_extended_iso, True)):
            text = pat.format(lt9)
            fr = text.split(".")[1] if "." in text else ""
            chk("time.ns", pat.parse(text).value == lt9 and (len(fr) == 9 if nine else (fr == str(ns).rjust(9, "0").rstrip("0"))), f"{lt9!r}: pattern wrote {text!r}")
        ins9 = Instant.from_unix_time_ticks(r.randint(-62135596800, 253402300799) * 10**7).plus_nanoseconds(ns)
        text = InstantPattern.extended_iso.format(ins9)
        fr = text[:-1].split(".")[1] if "." in text else ""
        chk("instant.ns", InstantPattern.extended_iso.parse(text).value == ins9 and fr == str(ns).rjust(9, "0").rstrip("0"), f"{ins9!r}: pattern wrote {text!r}")
        ldt9 = LocalDateTime(d.year, d.month, d.day, 0, 0).plus_nanoseconds(r.randrange(86400) * 10**9 + ns) if d < dt.date.max else None
        if ldt9 is not None:
            for pat in (LocalDateTimePattern.extended_iso, LocalDateTimePattern.full_roundtrip_without_calendar):
                text = pat.format(ldt9)
                chk("datetime.ns", pat.parse(text).value == ldt9, f"{ldt9!r}: pattern wrote {text!r}")
        # offsets of whole minutes
        om = r.choice([0, 1080, -1080, r.randint(-1080, 1080)])
        off = Offset.from_seconds(om * 60)
        tz = dt.timezone(dt.timedelta(minutes=om))
        text = OffsetPattern.general_invariant.format(off)
        probe = dt.datetime(2020, 1, 1, tzinfo=tz)
        full = text if len(text) > 3 else text + ":00"
        chk("offset.format", dt.datetime.fromisoformat("2020-01-01T00:00:00" + full).utcoffset() == probe.utcoffset(), f"offset {om} min: pattern wrote {text!r}")
        std = probe.isoformat()[19:]
        back = OffsetPattern.general_invariant.parse(std)
        chk("offset.parse", back.success and back.value == off, f"stdlib offset text {std!r} did not parse to {off!r}")
        zt = OffsetPattern.general_invariant_with_z.format(off)
        chk("offset.z", (zt == "Z") == (om == 0), f"offset {om} min: Z-pattern wrote {zt!r}")
    violations = [{"name": f"C17.{k}", "kind": "standin", "site": k, "detail": v, "contract": "standin", "inputs": {"case": v}, "replay": {"confirmed": True}} for k, v in sorted(bad.items())[:10]]
    return {"bounded": [{"name": "ISO patterns vs the standard library's ISO-8601 reader/writer", "bound": f"{n} seeded values of each of date, time, date-time, instant and whole-minute offset over the domain shared with the stdlib (range ends included)", "evaluations": n * 5, "distinct_nontrivial": n * 5, "rule": "one case per (type, value); each compares format with isoformat()/fromisoformat() and parses the stdlib's text", "exhaustive": False}], "violations": violations}
