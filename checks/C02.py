"""C02 stand-in: validation of the *spec* (assumption A5) against the standard library, plus a dense native
comparison of real dates with the published-algorithm specs.  Bounded / finite-exhaustive, never counted as
discharged obligations."""

from __future__ import annotations

import datetime
import time

LEVEL = "proof"
EXPLANATION = (
    "Deductive part: code == published-algorithm spec for every supported year of the 17 arithmetic calendar ids (ground case split over all years) "
    "and the weekday formula for all day numbers. Stand-in (validates the spec functions against datetime.date, assumption A5)."
)
ASSUMPTIONS = ["specs/calendars.py is a faithful transcription of the published algorithms (validated against datetime.date for the Gregorian one)"]


def run(tier: str, seed: int) -> dict:
    from pyoda_time import CalendarSystem, LocalDate
    from specs import calendars as S

    t0 = time.time()
    bounded = []
    violations = []
    # (1) Gregorian spec vs datetime.date: every year start and month start (quick); every ordinal (thorough)
    n = 0
    bad = []
    dim = S.GREGORIAN.dim
    for y in range(1, 10000):
        if S.gregorian_soy(y) + S.RD_UNIX != datetime.date(y, 1, 1).toordinal():
            bad.append(("year-start", y))
        run_ = 0
        for m in range(1, 13):
            if S.gregorian_soy(y) + run_ + S.RD_UNIX != datetime.date(y, m, 1).toordinal():
                bad.append(("month-start", y, m))
            run_ += dim(y, m)
            n += 1
        n += 1
        if ((y % 4 == 0 and (y % 100 != 0 or y % 400 == 0))) != bool(S.gregorian_leap(y)):
            bad.append(("leap", y))
    bounded.append({"name": "gregorian spec vs datetime.date (year and month starts, years 1..9999)", "bound": "all 9,999 year starts and 119,988 month starts", "evaluations": n, "distinct_nontrivial": n, "rule": "every year start and month start of years 1..9999", "exhaustive": True, "failures": len(bad)})
    for b in bad[:5]:
        violations.append({"name": f"C02.spec-vs-stdlib {b}", "kind": "standin", "detail": f"Gregorian spec disagrees with datetime.date at {b}", "contract": "standin", "replay": {"confirmed": True}})
    # (2) real ISO dates vs datetime.date, day for day
    iso = CalendarSystem.iso
    step = 1 if tier == "thorough" else 97
    n2 = 0
    bad2 = []
    for o in range(1 + (seed % step), 3652060, step):
        d = datetime.date.fromordinal(o)
        ld = LocalDate._ctor(days_since_epoch=o - 719163, calendar=iso)
        n2 += 1
        if (ld.year, ld.month, ld.day) != (d.year, d.month, d.day) or int(ld.day_of_week) != d.isoweekday():
            bad2.append(o)
    bounded.append({"name": "real ISO LocalDate vs datetime.date by ordinal", "bound": f"every {step}-th of the 3,652,059 ordinals", "evaluations": n2, "distinct_nontrivial": n2, "rule": f"ordinals 1..3652059 step {step} (offset by seed)", "exhaustive": step == 1, "failures": len(bad2)})
    for o in bad2[:5]:
        violations.append({"name": f"C02.iso-vs-stdlib ordinal={o}", "kind": "standin", "detail": f"ISO date of ordinal {o} disagrees with datetime.date.fromordinal", "contract": "standin", "inputs": {"ordinal": o}, "replay": {"confirmed": True}})
    _ = t0
    return {"bounded": bounded, "violations": violations}
