"""C16 stand-in: the ISO rule of the real code against the standard library's isocalendar (validates the ISO spec
reading, assumption A5).  Bounded / finite-exhaustive; never counted as discharged obligations."""

from __future__ import annotations

import datetime

LEVEL = "proof"
EXPLANATION = "Deductive part: all week-year rule parameters symbolic over the calendar interface contract. Stand-in: real ISO rule vs datetime.date.isocalendar."
ASSUMPTIONS: list[str] = []


def run(tier: str, seed: int) -> dict:
    from pyoda_time import CalendarSystem, LocalDate
    from pyoda_time.calendars import WeekYearRules

    rule = WeekYearRules.iso
    iso = CalendarSystem.iso
    bad = []
    n = 0
    ords = []
    if tier == "thorough":
        ords = range(1, 3652060)
    else:
        for y in range(1, 10000):
            first = datetime.date(y, 1, 1).toordinal()
            ords.extend(range(max(1, first - 7), min(3652059, first + 7) + 1))
    for o in ords:
        d = datetime.date.fromordinal(o)
        ld = LocalDate._ctor(days_since_epoch=o - 719163, calendar=iso)
        try:
            got = (rule.get_week_year(ld), rule.get_week_of_week_year(ld), int(ld.day_of_week))
        except Exception as ex:  # noqa: BLE001
            got = ("raised", type(ex).__name__, str(ex))
        n += 1
        if got != tuple(d.isocalendar()):
            bad.append((o, got, tuple(d.isocalendar())))
    violations = [
        {"name": f"C16.iso-vs-isocalendar ordinal={o}", "kind": "standin", "detail": f"ISO week rule gives {g}, datetime.date.isocalendar gives {w}", "contract": "standin", "inputs": {"ordinal": o}, "replay": {"confirmed": True}}
        for o, g, w in bad[:5]
    ]
    return {
        "bounded": [{"name": "ISO week-year rule vs datetime.date.isocalendar", "bound": "all days within 7 days of every year boundary, years 1..9999" if tier != "thorough" else "all 3,652,059 ordinals", "evaluations": n, "distinct_nontrivial": n, "rule": "dates by ordinal", "exhaustive": tier == "thorough", "failures": len(bad)}],
        "violations": violations,
    }
