"""Shared stand-in for C04 / C05 / C06: walk real zones end to end through the public API and check the zone
contracts at run time.  Complete over the finite configuration in the thorough tier; a stated bound in quick.
Reported under `bounded`, never counted as discharged obligations."""

from __future__ import annotations

import io
import multiprocessing as mp
import os
from typing import Any

_SRC: dict[str, Any] = {}


def _files() -> list[str]:
    from pyvc import loader

    return [os.path.join(loader.REPO, "pyoda_time", "time_zones", "Tzdb.nzd"), os.path.join(loader.REPO, "tests", "test_data", "Tzdb2013bFromNodaTime1.1.nzd")]


def source(path: str) -> Any:
    if path not in _SRC:
        from pyoda_time.time_zones._tzdb_date_time_zone_source import TzdbDateTimeZoneSource

        with open(path, "rb") as f:
            _SRC[path] = TzdbDateTimeZoneSource.from_stream(io.BytesIO(f.read()))
    return _SRC[path]


def zone_ids() -> list[tuple[str, str]]:
    out = []
    for p in _files():
        if os.path.exists(p):
            out.extend((p, z) for z in sorted(source(p).get_ids()))
    return out


def walk(zone: Any, limit_head: int, limit_tail: int):
    """Yield consecutive intervals from the start of time; in bounded mode the first `limit_head` and then the
    intervals from ten years before the end of time."""
    from pyoda_time import Instant

    iv = zone.get_zone_interval(Instant.min_value)
    n = 0
    while True:
        yield iv
        n += 1
        if not iv.has_end:
            return
        if limit_head and n == limit_head:
            jump = Instant.from_utc(9999 - max(1, limit_tail // 2), 1, 1, 0, 0)
            if iv.end < jump:
                iv = zone.get_zone_interval(jump)
                yield None  # discontinuity marker
                continue
        iv = zone.get_zone_interval(iv.end)


def _zone_case(args):
    path, zid, props, head, tail, sample_every = args
    from pyoda_time import Duration, Instant, LocalDateTime, Offset
    from pyoda_time._ambiguous_time_error import AmbiguousTimeError
    from pyoda_time._skipped_time_error import SkippedTimeError

    import signal

    from checks._watchdog import Hang

    def _on_alarm(signum, frame):
        raise Hang("the walk of this zone did not finish in time (the real code loops?)")

    signal.signal(signal.SIGALRM, _on_alarm)
    signal.alarm(1800 if not head else 180)
    problems: list[tuple[str, str]] = []
    try:
        src = source(path)
        zone = src.for_id(zid)
    except Hang as e:
        return (zid, 0, 0, 0, [("walk.hang", f"{os.path.basename(path)}:{zid}: {e}")])
    n = nontrivial = mapped = 0
    eps = Duration.epsilon
    prev = None
    lo, hi = zone.min_offset, zone.max_offset

    def bad(kind: str, what: str) -> None:
        if len(problems) < 3:
            problems.append((kind, f"{os.path.basename(path)}:{zid}: {what}"))

    try:
        for iv in walk(zone, head, tail):
            if iv is None:
                prev = None
                continue
            n += 1
            if prev is not None:
                nontrivial += 1
            if "C04" in props:
                if prev is not None:
                    if prev.end != iv.start:
                        bad("C04.abut", f"interval ending {prev.end} is followed by one starting {iv.start}")
                    if prev.name == iv.name and prev.wall_offset == iv.wall_offset and prev.savings == iv.savings:
                        bad("C04.maximal", f"adjacent intervals at {iv.start} do not differ")
                elif iv.has_start and n == 1:
                    bad("C04.start", "first interval does not extend to the start of time")
                if not (lo <= iv.wall_offset <= hi):
                    bad("C04.minmax", f"wall offset {iv.wall_offset} outside [{lo}, {hi}] at {iv}")
                if iv.standard_offset + iv.savings != iv.wall_offset:
                    bad("C04.wall", f"wall != standard + savings in {iv}")
                probes = []
                if iv.has_start:
                    probes.append(iv.start)
                if iv.has_end:
                    probes.append(iv.end - eps)
                else:
                    # the interval that runs to the end of time must be THE answer for every later instant too
                    probes.append(Instant.max_value)
                    probes += [t for t in (Instant.from_utc(y, m, 15, 12, 0) for y in (9997, 9998, 9999) for m in range(1, 13)) if t in iv or (iv.has_start and t >= iv.start)]
                if not iv.has_start:
                    probes.append(Instant.min_value)
                    probes += [t for t in (Instant.from_utc(y, m, 15, 12, 0) for y in (-9998, -9997) for m in (1, 7)) if not iv.has_end or t < iv.end]
                for t in probes:
                    got = zone.get_zone_interval(t)
                    if got != iv or t not in got:
                        bad("C04.contains", f"get_zone_interval({t}) = {got}, expected {iv}")
                    if zone.get_utc_offset(t) != iv.wall_offset:
                        bad("C04.offset", f"get_utc_offset({t}) != wall offset of its interval")
            if "C05" in props and prev is not None and n % sample_every == 0:
                # every edge around the transition prev -> iv
                T = iv.start
                for off in (prev.wall_offset, iv.wall_offset):
                    for d in (-1_000_000_000, -1, 0, 1, 1_000_000_000):
                        try:
                            local = T._plus(off)._time_since_local_epoch
                            from pyoda_time._local_instant import _LocalInstant

                            li = _LocalInstant._ctor(nanoseconds=local + Duration.from_nanoseconds(d))
                        except (OverflowError, ValueError):
                            continue
                        ldt = LocalDateTime._ctor(local_instant=li)
                        m = zone.map_local(ldt)
                        mapped += 1
                        # brute force: instants whose local rendering is ldt, among the candidates L - offset
                        want = []
                        for o in {prev.wall_offset, iv.wall_offset}:
                            try:
                                cand = li._minus(o)
                            except (OverflowError, ValueError):
                                continue
                            if zone.get_utc_offset(cand) == o:
                                want.append(cand)
                        want = sorted(set(want))
                        if m.count != len(want):
                            bad("C05.count", f"map_local({ldt}) reports {m.count} results, brute force finds {len(want)}")
                            continue
                        if m.count >= 1:
                            if m.first().to_instant() != want[0] or m.last().to_instant() != want[-1]:
                                bad("C05.instants", f"map_local({ldt}) instants differ from brute force")
                            if m.first().local_date_time != ldt or m.last().local_date_time != ldt:
                                bad("C05.local", f"map_local({ldt}) results do not render as the requested local time")
                        if m.count == 0:
                            if m.early_interval.end != m.late_interval.start:
                                bad("C05.gap", f"map_local({ldt}): reported intervals around the gap are not adjacent")
                            try:
                                zone.at_strictly(ldt)
                                bad("C05.strict", f"at_strictly({ldt}) accepted a skipped time")
                            except SkippedTimeError:
                                pass
                            z = zone.at_leniently(ldt)
                            gap_seconds = m.late_interval.wall_offset.seconds - m.early_interval.wall_offset.seconds
                            if z.local_date_time != ldt.plus_seconds(gap_seconds):
                                bad("C05.lenient-gap", f"at_leniently({ldt}) is not shifted forward by the gap length")
                        elif m.count == 2:
                            try:
                                zone.at_strictly(ldt)
                                bad("C05.strict", f"at_strictly({ldt}) accepted an ambiguous time")
                            except AmbiguousTimeError:
                                pass
                            if zone.at_leniently(ldt).to_instant() != want[0]:
                                bad("C05.lenient-overlap", f"at_leniently({ldt}) is not the earlier instant")
                        else:
                            if zone.at_strictly(ldt).to_instant() != want[0]:
                                bad("C05.single", f"at_strictly({ldt}) differs")
            if "C05" in props and prev is not None and n % sample_every == 0 and iv.has_end:
                # start of day: the earliest instant whose local date is D, for the local dates around the transition
                from pyoda_time import LocalDate

                nxt = zone.get_zone_interval(iv.end)
                T = iv.start
                seen_days = set()
                for off in (prev.wall_offset, iv.wall_offset):
                    try:
                        base = T._plus(off)._days_since_epoch
                    except (OverflowError, ValueError):
                        continue
                    for dd in (base - 1, base, base + 1):
                        if dd in seen_days or not (-4371000 < dd < 2932800):
                            continue
                        seen_days.add(dd)
                        best = None
                        for cand in (prev, iv, nxt):
                            w = cand.wall_offset.seconds * 1_000_000_000
                            lo_ns = dd * 86_400_000_000_000 - w
                            hi_ns = lo_ns + 86_400_000_000_000
                            s_ns = cand.start.to_unix_time_ticks() * 100 if cand.has_start else None
                            e_ns = cand.end.to_unix_time_ticks() * 100 if cand.has_end else None
                            a_ns = lo_ns if s_ns is None else max(lo_ns, s_ns)
                            b_ns = hi_ns if e_ns is None else min(hi_ns, e_ns)
                            if a_ns < b_ns and (best is None or a_ns < best):
                                best = a_ns
                        # intervals further away could also carry the date only if a neighbour is shorter than a day; skip those
                        if best is None or (prev.has_start and (iv.start - prev.start).total_hours < 50) or (nxt.has_end and (nxt.end - nxt.start).total_hours < 50) or (iv.end - iv.start).total_hours < 50:
                            continue
                        date = LocalDate._ctor(days_since_epoch=dd)
                        mapped += 1
                        try:
                            got = zone.at_start_of_day(date).to_instant().to_unix_time_ticks() * 100
                        except Exception as e:  # noqa: BLE001
                            bad("C05.start-of-day", f"at_start_of_day({date}) raised {type(e).__name__}")
                            continue
                        if got != best:
                            bad("C05.start-of-day", f"at_start_of_day({date}) is not the earliest instant carrying that date (off by {(got - best) // 1_000_000_000}s)")
            prev = iv
    except (Exception, Hang) as e:  # noqa: BLE001
        import traceback

        bad("walk.hang" if isinstance(e, Hang) else "walk.exception", f"{type(e).__name__}: {e} @ {traceback.extract_tb(e.__traceback__)[-1].name}")
    finally:
        signal.alarm(0)
    _ = Instant, Offset
    return (zid, n, nontrivial, mapped, problems)


def run_walk(props: set[str], tier: str, seed: int) -> dict:
    ids = zone_ids()
    thorough = tier == "thorough"
    head, tail = (0, 0) if thorough else (260, 40)
    every = 1 if thorough else 7
    cases = [(p, z, sorted(props), head, tail, every) for p, z in ids]
    ctx = mp.get_context("fork")
    total = nontrivial = mapped = 0
    problems: dict[str, str] = {}
    with ctx.Pool(16) as pool:
        for zid, n, nt, mp_, probs in pool.imap_unordered(_zone_case, cases, chunksize=4):
            total += n
            nontrivial += nt
            mapped += mp_
            for kind, what in probs:
                problems.setdefault(kind + "|" + zid, what)
    violations = [{"name": k, "kind": "standin", "detail": v, "contract": "standin", "site": k.split("|")[0], "inputs": {"zone": k.split("|")[1]}, "replay": {"confirmed": True}} for k, v in sorted(problems.items())[:10]]
    return {
        "bounded": [
            {
                "name": "end-to-end walk of every zone id of both real database files",
                "bound": "all intervals through year 9999" if thorough else f"first {head} intervals of every zone plus the last ~{tail} before the end of time; map_local probed at every {every}-th transition",
                "evaluations": total + mapped,
                "distinct_nontrivial": nontrivial,
                "rule": "one case per zone interval (non-trivial = has a predecessor, i.e. a transition) and per probed local date-time",
                "exhaustive": thorough,
                "zones": len(ids),
                "intervals": total,
                "map_local_probes": mapped,
            }
        ],
        "violations": violations,
    }
