"""C04 stand-in: see checks/zonewalk.py."""
from checks import zonewalk

EXPLANATION = "Stand-in: every zone of both real files walked through the public API (contains / abut / maximal / offsets within min-max / wall = standard + savings). Deductive part: see coverage.functions_under_contract."
ASSUMPTIONS = ["the recurring tail (_ZoneRecurrence, _StandardDaylightAlternatingMap) is checked at run time over the real data only"]


def run(tier: str, seed: int) -> dict:
    return zonewalk.run_walk({"C04"}, tier, seed)
