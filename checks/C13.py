"""C13 stand-in (bounded; never counted as discharged): histories of queries against the stateful pieces that are not
under deductive contract -- the bounded LRA cache, the zone-interval hash cache behind every tz zone, the provider's lazily
filled zone map.  Small-scope exhaustive for _Cache; seeded colliding histories for the zone cache."""

from __future__ import annotations

import itertools
import random

from checks import zonewalk

EXPLANATION = (
    "Deductive part: year-start cache and Hebrew caches return the uncached computation from ANY cache state satisfying the representation invariant, and the calendar registry returns THE calendar of an id from any registry state. "
    "Stand-in: every history of up to 6 lookups over 4 keys for _Cache sizes 1..3; colliding, shuffled histories of instants against the 512-slot zone-interval cache vs the uncached zone; repeated provider lookups; pattern/format-info lookups on writable cultures modified between lookups vs a history-free evaluation."
)
ASSUMPTIONS = ["A9: threading.Lock gives mutual exclusion; single dict/list element stores are atomic under CPython (thread schedules are not explored)"]


def run(tier: str, seed: int) -> dict:
    from pyoda_time import Instant
    from pyoda_time.time_zones import DateTimeZoneCache
    from pyoda_time.time_zones._cached_date_time_zone import _CachedDateTimeZone
    from pyoda_time.utility._cache import _Cache

    rng = random.Random(seed * 7919 + 13)
    violations = []
    n_cache = n_zone = n_prov = 0

    def bad(name, detail, inputs=None):
        if len(violations) < 8:
            violations.append({"name": name, "kind": "standin", "site": name, "detail": detail, "contract": "standin", "inputs": inputs or {}, "replay": {"confirmed": True}})

    # 1. _Cache: every history of length <= L over K keys, sizes 1..3 (exhaustive in this scope)
    keys = ["a", "b", "c", "d"]
    L = 7 if tier == "thorough" else 6
    for size in (1, 2, 3):
        for n in range(1, L + 1):
            for hist in itertools.product(keys, repeat=n):
                calls = []
                cache = _Cache(size, lambda k: (calls.append(k), k.upper() * 2)[1])
                n_cache += 1
                ok = True
                for k in hist:
                    if cache.get_or_add(k) != k.upper() * 2 or cache.count() > size or not set(cache.keys()) <= set(hist):
                        ok = False
                if not ok:
                    bad("C13._Cache", f"size {size}, history {hist}: a lookup did not return the factory's value or the cache outgrew its size", {"size": size, "history": list(hist)})
                    break
    # 2. zone-interval hash cache: the cached zone answers exactly like the zone it wraps, whatever was asked before
    ids = zonewalk.zone_ids()
    rng.shuffle(ids)
    for path, zid in ids[: (120 if tier == "thorough" else 24)]:
        zone = zonewalk.source(path).for_id(zid)
        if not isinstance(zone, _CachedDateTimeZone):
            continue
        inner = zone._time_zone
        # instants whose 32-day periods collide in the 512-slot cache (periods 512 apart), plus random ones, shuffled
        base_day = rng.randrange(-20000, 60000)
        days = [base_day + k * 32 * 512 + rng.randrange(32) for k in range(-6, 7)] + [rng.randrange(-100000, 2900000) for _ in range(40)]
        hist = [d for d in days if -4371000 < d < 2932000] * 2
        rng.shuffle(hist)
        for d in hist:
            t = Instant.from_unix_time_ticks(d * 864_000_000_000 + rng.randrange(864_000_000_000))
            n_zone += 1
            if zone.get_zone_interval(t) != inner.get_zone_interval(t):
                bad("C13.zone-cache", f"{zid}: cached zone and the zone it wraps disagree at {t} after a history of {len(hist)} lookups", {"zone": zid})
                break
    # 3. provider: repeated lookups return the same zone object, in any order
    for path in {p for p, _ in ids}:
        cache = DateTimeZoneCache(zonewalk.source(path))
        some = [z for p, z in ids if p == path][:40]
        first = {z: cache[z] for z in some}
        rng.shuffle(some)
        for z in some:
            n_prov += 1
            if cache[z] is not first[z] or cache.get_zone_or_none(z) is not first[z]:
                bad("C13.provider", f"{z}: a repeated lookup returned a different zone object", {"zone": z})
                break
    # 4. pattern / format-info lookups: the answer for a culture equals a history-free evaluation (an identical
    #    culture object never looked up before), whether or not the culture was looked up before being modified
    from pyoda_time import LocalTime
    from pyoda_time._compatibility._culture_info import CultureInfo
    from pyoda_time.globalization._pyoda_format_info import _PyodaFormatInfo
    from pyoda_time.text import LocalTimePattern

    n_fmt = 0
    for trial in range(40 if tier == "thorough" else 12):
        am, pm = rng.choice(["a.m.", "AM", "vorm.", "a"]), rng.choice(["p.m.", "PM", "nachm.", "p"])
        text = rng.choice(["hh:mm tt", "h:mm t", "tt hh:mm:ss"])
        pre = rng.sample(["pattern", "info", "none", "pattern-other"], 2)
        cultures = {"history": CultureInfo.invariant_culture.clone(), "fresh": CultureInfo.invariant_culture.clone()}
        for step in pre:  # earlier lookups, only on the culture with history
            if step == "pattern":
                LocalTimePattern.create(text, cultures["history"]).format(LocalTime(9, 5))
            elif step == "pattern-other":
                LocalTimePattern.create("HH:mm", cultures["history"]).format(LocalTime(9, 5))
            elif step == "info":
                _PyodaFormatInfo.get_instance(cultures["history"]).date_time_format
        for c in cultures.values():
            c.date_time_format.am_designator = am
            c.date_time_format.pm_designator = pm
        for t in (LocalTime(9, 5, 7), LocalTime(21, 5, 7)):
            n_fmt += 1
            got = LocalTimePattern.create(text, cultures["history"]).format(t)
            want = LocalTimePattern.create(text, cultures["fresh"]).format(t)
            back = LocalTimePattern.create(text, cultures["history"]).parse(want)
            if got != want or not back.success:
                bad("C13.format-info", f"pattern {text!r} on a writable culture looked up before its designators were set to {am!r}/{pm!r} (earlier lookups {pre}): format gives {got!r}, a history-free evaluation gives {want!r}; parse of that text succeeds: {back.success}", {"pattern": text, "am": am, "pm": pm, "earlier": pre})
                break
        ro = CultureInfo.invariant_culture
        if _PyodaFormatInfo.get_instance(ro).date_time_format is not ro.date_time_format:
            bad("C13.format-info", "format info of the invariant culture does not expose the culture's own DateTimeFormatInfo")
    return {
        "bounded": [
            {"name": "_Cache histories (small scope, exhaustive)", "bound": f"all histories of up to {L} lookups over 4 keys, sizes 1..3", "evaluations": n_cache, "distinct_nontrivial": n_cache, "rule": "one case per (size, history)", "exhaustive": True},
            {"name": "zone-interval cache vs the wrapped zone, provider lookups", "bound": f"{n_zone} instants in colliding shuffled histories over {24 if tier != 'thorough' else 120} zones; {n_prov} repeated provider lookups", "evaluations": n_zone + n_prov, "distinct_nontrivial": n_zone, "rule": "one case per lookup; compared with the uncached answer", "exhaustive": False},
            {"name": "pattern / format-info lookups on a culture modified after earlier lookups vs a history-free evaluation", "bound": f"{n_fmt} format+parse comparisons over random designators, 3 pattern texts, 2 earlier lookups each", "evaluations": n_fmt, "distinct_nontrivial": n_fmt, "rule": "one case per (history, pattern, value)", "exhaustive": False},
        ],
        "violations": violations,
    }
