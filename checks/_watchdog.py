"""Per-case deadline for the stand-ins: a change that makes the real code loop forever must end as a reported
violation ('did not finish'), not as a check that never returns."""

from __future__ import annotations

import contextlib
import signal


class Hang(BaseException):  # not an Exception: must not be swallowed by the `except Exception` clauses inside the cases
    pass


@contextlib.contextmanager
def deadline(seconds: int):
    def handler(signum, frame):
        raise Hang(f"did not finish within {seconds} s")

    try:
        old = signal.signal(signal.SIGALRM, handler)
    except ValueError:  # not in the main thread of the process
        yield
        return
    signal.alarm(seconds)
    try:
        yield
    finally:
        signal.alarm(0)
        signal.signal(signal.SIGALRM, old)
