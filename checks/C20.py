"""C20 stand-in: truncation / corruption sweep over the two real database files through the public loading API.
Bounded (seeded sample of the fault space in quick; much larger in thorough); never counted as discharged."""

from __future__ import annotations

import io
import multiprocessing as mp
import os
import random
import time
import traceback

EXPLANATION = (
    "Deductive part: every reader primitive on an arbitrary byte stream returns a value in range or raises InvalidPyodaDataError and terminates (loop variant = bytes left). "
    "Stand-in: truncations and k<=4 byte corruptions of both real files through TzdbDateTimeZoneSource.from_stream / get_ids / for_id with a watchdog."
)
ASSUMPTIONS = ["A7: io.BytesIO behaves as a cursor over a byte sequence"]


def _files() -> list[str]:
    from pyvc import loader

    return [os.path.join(loader.REPO, "pyoda_time", "time_zones", "Tzdb.nzd"), os.path.join(loader.REPO, "tests", "test_data", "Tzdb2013bFromNodaTime1.1.nzd")]


_DATA: dict[str, bytes] = {}


def _case(args):
    import signal

    from checks._watchdog import Hang

    def _on_alarm(signum, frame):
        raise Hang("loading did not finish within 60 s")

    signal.signal(signal.SIGALRM, _on_alarm)
    signal.alarm(60)
    try:
        return _case_inner(args)
    except Hang as e:
        return ("leak", ("hang", "from_stream", args[1], _spec_repr(args[1], args[2]), os.path.basename(args[0])), 60.0)
    finally:
        signal.alarm(0)


def _case_inner(args):
    path, kind, spec, fetch = args
    from pyoda_time.time_zones._tzdb_date_time_zone_source import TzdbDateTimeZoneSource
    from pyoda_time.utility import InvalidPyodaDataError

    if path not in _DATA:
        with open(path, "rb") as f:
            _DATA[path] = f.read()
    data = _DATA[path]
    if kind == "prefix":
        b = data[:spec]
    elif kind == "corrupt":
        ba = bytearray(data)
        for pos, val, op in spec:
            if op == 0 and pos < len(ba):
                ba[pos] = val
            elif op == 1:
                ba.insert(min(pos, len(ba)), val)
            elif op == 2 and pos < len(ba):
                del ba[pos]
        b = bytes(ba)
    if kind == "splice":
        b = data[: spec[0]] + bytes(spec[2]) + data[spec[1] :]
    import resource

    rss0 = resource.getrusage(resource.RUSAGE_SELF).ru_maxrss
    t0 = time.time()
    try:
        src = TzdbDateTimeZoneSource.from_stream(io.BytesIO(b))
        ids = list(src.get_ids())
        step = max(1, len(ids) // fetch)
        for zid in ids[::step]:
            src.for_id(zid)
        status = "ok"
    except InvalidPyodaDataError:
        status = "rejected"
    except Exception as e:  # noqa: BLE001
        tb = traceback.extract_tb(e.__traceback__)
        where = next((f"{os.path.basename(fr.filename)}:{fr.name}" for fr in reversed(tb) if "pyoda_time" in fr.filename), "?")
        return ("leak", (type(e).__name__, where, kind, _spec_repr(kind, spec), os.path.basename(path)), time.time() - t0)
    grown = (resource.getrusage(resource.RUSAGE_SELF).ru_maxrss - rss0) // 1024
    if grown > 96:
        return ("leak", (f"memory +{grown} MB", "from_stream", kind, _spec_repr(kind, spec), os.path.basename(path)), time.time() - t0)
    return (status, None, time.time() - t0)


def _spec_repr(kind, spec):
    if kind == "prefix":
        return spec
    if kind == "splice":
        return [spec[0], spec[1], bytes(spec[2]).hex()]
    return [list(x) for x in spec]


def _limit_memory():
    """Workers may not grow by more than ~1.5 GiB: a damaged length must not be able to exhaust the sandbox."""
    import resource

    try:
        with open("/proc/self/statm") as f:
            pages = int(f.read().split()[0])
        cur = pages * os.sysconf("SC_PAGE_SIZE")
        resource.setrlimit(resource.RLIMIT_AS, (cur + (3 << 29), cur + (3 << 29)))
    except Exception:  # noqa: BLE001
        pass


def _framing(data: bytes):
    """Top-level fields of a clean file: (header offset, id, payload offset, payload length)."""
    out = []
    p = 4
    while p < len(data):
        h = p
        fid = data[p]
        p += 1
        n = s_ = 0
        while True:
            bt = data[p]
            p += 1
            n |= (bt & 0x7F) << s_
            s_ += 7
            if bt < 0x80:
                break
        out.append((h, fid, p, n))
        p += n
    return out


def run(tier: str, seed: int) -> dict:
    rng = random.Random(seed * 1000003 + 17)
    cases = []
    for fi, path in enumerate(_files()):
        if not os.path.exists(path):
            continue
        n = os.path.getsize(path)
        scale = (1.0 if fi == 0 else 0.3) * (25 if tier == "thorough" else 1)
        prefixes = set(range(0, 48)) | {n - k for k in range(1, 6)} | {rng.randrange(n) for _ in range(int(250 * scale))}
        for p in sorted(prefixes):
            cases.append((path, "prefix", p, 6))
        for _ in range(int(900 * scale)):
            k = rng.randint(1, 4)
            base = rng.randrange(n)
            spec = tuple((min(n - 1, base + rng.randrange(0, 6)) if rng.random() < 0.5 else rng.randrange(n), rng.randrange(256), rng.choice([0, 0, 0, 1, 2])) for _ in range(k))
            cases.append((path, "corrupt", spec, 12))
        # structural faults at the real field framing: field lost / truncated at a field boundary / id rewritten /
        # length replaced by huge values / field duplicated
        with open(path, "rb") as f:
            data = f.read()
        fields = _framing(data)
        firsts = {}
        for fr in fields:
            firsts.setdefault(fr[1], fr)
        picked = list(firsts.values()) + [fields[rng.randrange(len(fields))] for _ in range(int(6 * scale))] + [fields[-1]]
        huge = [b"\xff\xff\xff\x7f", b"\xff\xff\xff\xff\x07", b"\xff\xff\xff\xff\x0f", b"\xff\xff\xff\xff\xff\xff\xff\xff\xff\x01"]
        for h, fid, po, ln in picked:
            cases.append((path, "prefix", h, 6))
            cases.append((path, "prefix", po, 6))
            cases.append((path, "splice", (h, po + ln, b""), 6))  # field removed
            cases.append((path, "splice", (h, h, data[h : po + ln]), 6))  # field duplicated
            for nid in range(0, 9):
                if nid != fid:
                    cases.append((path, "splice", (h, h + 1, bytes([nid])), 6))
            for hv in huge:
                cases.append((path, "splice", (h + 1, po, hv), 4))
                cases.append((path, "splice", (h + 1, h + 1, hv[:4]), 4))  # inserted before the length
    ctx = mp.get_context("fork")
    leaks: dict[tuple, tuple] = {}
    slow = []
    counts = {"ok": 0, "rejected": 0, "leak": 0}
    with ctx.Pool(16, initializer=_limit_memory) as pool:
        for res in pool.imap_unordered(_case, cases, chunksize=8):
            status, info, dt = res
            counts[status] += 1
            if dt > 20:
                slow.append(dt)
            if status == "leak":
                leaks.setdefault((info[0], info[1]), info)
    violations = []
    for (exc, where), info in sorted(leaks.items()):
        violations.append({"name": f"C20.leak {exc} from {where}", "kind": "standin", "site": where, "detail": f"{exc} escaped loading ({info[2]} of {info[4]}: {info[3]})", "contract": "standin", "inputs": {"file": info[4], "fault": info[2], "spec": info[3]}, "replay": {"confirmed": True}})
    for dt in slow[:3]:
        violations.append({"name": "C20.slow", "kind": "standin", "detail": f"a load took {dt:.1f}s", "contract": "standin", "replay": {"confirmed": True}})
    return {
        "bounded": [{"name": "truncation/corruption sweep of both real database files", "bound": f"{len(cases)} faults: seeded prefixes and 1..4 byte substitutions/insertions/deletions, plus structural faults at the real field framing (field removed/duplicated/retagged, truncation at field boundaries, huge declared lengths) under a memory cap", "evaluations": len(cases), "distinct_nontrivial": counts["rejected"] + counts["leak"], "rule": "non-trivial = the damaged stream was not accepted", "exhaustive": False, "outcomes": counts}],
        "violations": violations,
    }
