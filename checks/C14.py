"""C14 stand-in (finite configuration, run completely): decode every zone of both real database files, re-encode it
with the real writer and the file's own string pool, and compare with the bytes it was decoded from."""

from __future__ import annotations

import io
import os

EXPLANATION = (
    "Deductive part: every codec primitive (round trip, exact consumption, canonical size, for all values) and the transition codec over primitive contracts. "
    "Stand-in: re-encoding of every zone of both real .nzd files must reproduce the reference compiler's bytes."
)
ASSUMPTIONS: list[str] = ["A6/A7: str.encode/bytes.decode and io.BytesIO behave as documented"]


def _files() -> list[str]:
    from pyvc import loader

    return [os.path.join(loader.REPO, "pyoda_time", "time_zones", "Tzdb.nzd"), os.path.join(loader.REPO, "tests", "test_data", "Tzdb2013bFromNodaTime1.1.nzd")]


def _varint(n: int) -> bytes:
    out = bytearray()
    while n > 0x7F:
        out.append(0x80 | (n & 0x7F))
        n >>= 7
    out.append(n)
    return bytes(out)


def run(tier: str, seed: int) -> dict:
    from pyoda_time.time_zones._cached_date_time_zone import _CachedDateTimeZone
    from pyoda_time.time_zones._fixed_date_time_zone import _FixedDateTimeZone
    from pyoda_time.time_zones._precalculated_date_time_zone import _PrecalculatedDateTimeZone
    from pyoda_time.time_zones.io._date_time_zone_reader import _DateTimeZoneReader
    from pyoda_time.time_zones.io._date_time_zone_writer import _DateTimeZoneWriter
    from pyoda_time.time_zones.io._tzdb_stream_data import _TzdbStreamData

    violations = []
    n = rule_based = 0
    for path in _files():
        if not os.path.exists(path):
            continue
        with open(path, "rb") as f:
            data = _TzdbStreamData._from_stream(f)
        pool = list(object.__getattribute__(data, "_TzdbStreamData__string_pool"))
        fields = object.__getattribute__(data, "_TzdbStreamData__zone_fields")
        for zid, field in fields.items():
            raw = bytes(object.__getattribute__(field, "_TzdbStreamField__data"))
            zone = data.create_zone(zid, zid)
            out = io.BytesIO()
            w = _DateTimeZoneWriter._ctor(out, list(pool))
            w.write_string(zid)
            inner = zone
            if isinstance(zone, _CachedDateTimeZone):
                inner = zone._time_zone if hasattr(zone, "_time_zone") else object.__getattribute__(zone, "_CachedDateTimeZone__time_zone")
            if isinstance(inner, _PrecalculatedDateTimeZone):
                w.write_byte(int(_DateTimeZoneWriter._DateTimeZoneType.PRECALCULATED))
                inner._write(w)
                if object.__getattribute__(inner, "_PrecalculatedDateTimeZone__tail_zone") is not None:
                    rule_based += 1
            else:
                # fixed zones have no writer in this port; the property is about the rule-based zones
                continue
            n += 1
            got = out.getvalue()
            if got != raw:
                k = next((i for i in range(min(len(got), len(raw))) if got[i] != raw[i]), min(len(got), len(raw)))
                violations.append({"name": f"C14.reencode {os.path.basename(path)}:{zid}", "kind": "standin", "detail": f"re-encoded zone differs from the file at byte {k}: {len(got)} bytes written, {len(raw)} in the file", "contract": "standin", "inputs": {"file": path, "zone": zid}, "replay": {"confirmed": True}})
    # strings and dictionaries (not under deductive contract): every string over a small alphabet covering the 1/2/3/4-byte
    # UTF-8 classes up to a length bound, long strings around the 1/2-byte length prefix boundary, with and without a pool
    import itertools

    alphabet = ["a", "\x00", "\x7f", "\x80", "\u00e9", "\u07ff", "\u0800", "\u20ac", "\uffff", "\U00010000", "\U0001f600"]
    maxlen = 3 if tier == "thorough" else 2
    corpus = [""] + ["".join(t) for k in range(1, maxlen + 1) for t in itertools.product(alphabet, repeat=k)]
    corpus += [c * k for c in ("a", "\u00e9", "\u20ac", "\U0001f600") for k in (31, 32, 42, 43, 63, 64, 127, 128, 129, 5461, 5462, 16383, 16384)]
    sn = sbad = 0

    def rt(strings, pooled):
        out = io.BytesIO()
        pool_w = [] if pooled else None
        w = _DateTimeZoneWriter._ctor(out, pool_w)
        for x in strings:
            w.write_string(x)
        raw = out.getvalue()
        r = _DateTimeZoneReader._ctor(io.BytesIO(raw), list(pool_w) if pooled else None)
        back = [r.read_string() for _ in strings]
        return back, r.has_more_data, raw

    for pooled in (False, True):
        for i in range(0, len(corpus), 7):
            chunk = corpus[i : i + 7]
            sn += len(chunk)
            try:
                back, more, raw = rt(chunk, pooled)
                ok = back == chunk and not more
                if ok and not pooled:
                    # documented encoding: varint byte length then the UTF-8 bytes
                    exp = b"".join(_varint(len(x.encode())) + x.encode() for x in chunk)
                    ok = raw == exp
            except Exception as e:  # noqa: BLE001
                ok, back = False, f"{type(e).__name__}: {e}"
            if not ok:
                sbad += 1
                if sbad <= 3:
                    violations.append({"name": f"C14.string {'pooled' if pooled else 'inline'}", "kind": "standin", "detail": f"strings {chunk!r:.120} read back as {back!r:.120}", "contract": "standin", "inputs": {"strings": chunk, "pooled": pooled}, "replay": {"confirmed": True}})
    dn = 0
    for k in range(0, 40):
        d = {corpus[(k * 13 + j * 7) % len(corpus)] + str(j): corpus[(k * 5 + j * 11) % len(corpus)] for j in range(k % 6)}
        dn += 1
        try:
            out = io.BytesIO()
            _DateTimeZoneWriter._ctor(out, None).write_dictionary(d)
            r = _DateTimeZoneReader._ctor(io.BytesIO(out.getvalue()), None)
            back = r.read_dictionary()
            ok = back == d and list(back.items()) == list(d.items()) and not r.has_more_data
        except Exception as e:  # noqa: BLE001
            ok, back = False, f"{type(e).__name__}: {e}"
        if not ok:
            violations.append({"name": "C14.dictionary", "kind": "standin", "detail": f"dictionary {d!r:.120} read back as {back!r:.120}", "contract": "standin", "inputs": {"dictionary": d}, "replay": {"confirmed": True}})
            break
    return {
        "bounded": [{"name": "inline/pooled strings and dictionaries", "bound": f"all strings up to length {maxlen} over an 11-character alphabet spanning the UTF-8 length classes, plus long strings at the varint length boundaries; 40 dictionaries", "evaluations": sn + dn, "distinct_nontrivial": sn + dn, "rule": "one case per (string, pool mode) and per dictionary", "exhaustive": False}, {"name": "re-encode every zone of both real database files", "bound": f"all {n} zones ({rule_based} with a recurring tail) of Tzdb.nzd and Tzdb2013bFromNodaTime1.1.nzd", "evaluations": n, "distinct_nontrivial": rule_based, "rule": "one case per zone id; non-trivial = has a rule-based tail", "exhaustive": True, "failures": len(violations)}],
        "violations": violations[:8],
    }
