"""C14 stand-in (finite configuration, run completely): decode every zone of both real database files, re-encode it
with the real writer and the file's own string pool, and compare with the bytes it was decoded from."""

from __future__ import annotations

import io
import os

LEVEL = "proof"
EXPLANATION = (
    "Deductive part: every codec primitive (round trip, exact consumption, canonical size, for all values) and the transition codec over primitive contracts. "
    "Stand-in: re-encoding of every zone of both real .nzd files must reproduce the reference compiler's bytes."
)
ASSUMPTIONS: list[str] = ["A6/A7: str.encode/bytes.decode and io.BytesIO behave as documented"]


def _files() -> list[str]:
    from pyvc import loader

    return [os.path.join(loader.REPO, "pyoda_time", "time_zones", "Tzdb.nzd"), os.path.join(loader.REPO, "tests", "test_data", "Tzdb2013bFromNodaTime1.1.nzd")]


def run(tier: str, seed: int) -> dict:
    from pyoda_time.time_zones._cached_date_time_zone import _CachedDateTimeZone
    from pyoda_time.time_zones._fixed_date_time_zone import _FixedDateTimeZone
    from pyoda_time.time_zones._precalculated_date_time_zone import _PrecalculatedDateTimeZone
    from pyoda_time.time_zones.io._date_time_zone_reader import _DateTimeZoneReader
    from pyoda_time.time_zones.io._date_time_zone_writer import _DateTimeZoneWriter
    from pyoda_time.time_zones.io._tzdb_stream_data import _TzdbStreamData

    violations = []
    n = rule_based = 0
    for path in _files():
        if not os.path.exists(path):
            continue
        with open(path, "rb") as f:
            data = _TzdbStreamData._from_stream(f)
        pool = list(object.__getattribute__(data, "_TzdbStreamData__string_pool"))
        fields = object.__getattribute__(data, "_TzdbStreamData__zone_fields")
        for zid, field in fields.items():
            raw = bytes(object.__getattribute__(field, "_TzdbStreamField__data"))
            zone = data.create_zone(zid, zid)
            out = io.BytesIO()
            w = _DateTimeZoneWriter._ctor(out, list(pool))
            w.write_string(zid)
            inner = zone
            if isinstance(zone, _CachedDateTimeZone):
                inner = zone._time_zone if hasattr(zone, "_time_zone") else object.__getattribute__(zone, "_CachedDateTimeZone__time_zone")
            if isinstance(inner, _PrecalculatedDateTimeZone):
                w.write_byte(int(_DateTimeZoneWriter._DateTimeZoneType.PRECALCULATED))
                inner._write(w)
                if object.__getattribute__(inner, "_PrecalculatedDateTimeZone__tail_zone") is not None:
                    rule_based += 1
            else:
                # fixed zones have no writer in this port; the property is about the rule-based zones
                continue
            n += 1
            got = out.getvalue()
            if got != raw:
                k = next((i for i in range(min(len(got), len(raw))) if got[i] != raw[i]), min(len(got), len(raw)))
                violations.append({"name": f"C14.reencode {os.path.basename(path)}:{zid}", "kind": "standin", "detail": f"re-encoded zone differs from the file at byte {k}: {len(got)} bytes written, {len(raw)} in the file", "contract": "standin", "inputs": {"file": path, "zone": zid}, "replay": {"confirmed": True}})
    return {
        "bounded": [{"name": "re-encode every zone of both real database files", "bound": f"all {n} zones ({rule_based} with a recurring tail) of Tzdb.nzd and Tzdb2013bFromNodaTime1.1.nzd", "evaluations": n, "distinct_nontrivial": rule_based, "rule": "one case per zone id; non-trivial = has a rule-based tail", "exhaustive": True, "failures": len(violations)}],
        "violations": violations[:8],
    }
