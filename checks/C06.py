"""C06 stand-in: every zone served from the two real database files against an independent interpretation of the
file bytes (specs/nzd.py: own decoder + yearly rules by datetime.date arithmetic).  Finite configuration: complete in
the thorough tier, stated bound in quick.  Never counted as discharged."""

from __future__ import annotations

import multiprocessing as mp
import os

from checks import zonewalk

EXPLANATION = "Stand-in: independent decoder of the .nzd bytes and independent evaluation of the yearly rules compared with the real zones (periods, tail transitions, ids, aliases, fixed-offset ids, validate())."
ASSUMPTIONS = ["specs/nzd.py is a faithful reading of the documented file format"]

_DEC: dict[str, dict] = {}


def decoded(path: str) -> dict:
    if path not in _DEC:
        from specs import nzd

        with open(path, "rb") as f:
            _DEC[path] = nzd.decode_file(f.read())
    return _DEC[path]


def _ticks(instant) -> int:
    return instant.to_unix_time_ticks()


def _zone_case(args):
    import signal

    from checks._watchdog import Hang

    def _on_alarm(signum, frame):
        raise Hang("did not finish in time (the real code loops?)")

    signal.signal(signal.SIGALRM, _on_alarm)
    signal.alarm(1800 if not args[3] else 180)
    try:
        return _zone_case_inner(args)
    except Hang as e:
        return (args[1], 0, [f"{os.path.basename(args[0])}:{args[1]}: {e}"])
    except Exception as e:  # noqa: BLE001 -- the code under test raised while serving a zone of a valid file
        import traceback

        tb = traceback.extract_tb(e.__traceback__)
        return (args[1], 0, [f"{os.path.basename(args[0])}:{args[1]}: {type(e).__name__}: {e} @ {tb[-1].name if tb else '?'}"])
    finally:
        signal.alarm(0)


def _zone_case_inner(args):
    path, zid, years_head, years_tail = args
    from pyoda_time import Instant
    from specs import nzd

    dec = decoded(path)
    src = zonewalk.source(path)
    canonical = dec["id_map"].get(zid, zid)
    spec = dec["zones"][canonical]
    zone = src.for_id(zid)
    probs: list[str] = []
    n = 0

    def bad(msg):
        if len(probs) < 3:
            probs.append(f"{os.path.basename(path)}:{zid}: {msg}")

    if zone.id != zid:
        bad(f"zone id is {zone.id}")
    if "fixed" in spec:
        iv = zone.get_zone_interval(Instant.from_unix_time_ticks(0))
        if iv.wall_offset.seconds != spec["fixed"] or iv.has_start or iv.has_end:
            bad("fixed zone differs from the file")
        want_name = spec["name"] if spec["name"] is not None else zone.id
        if iv.name != want_name or iv.savings.seconds != 0 or iv.standard_offset.seconds != spec["fixed"]:
            bad(f"fixed zone: got name {iv.name!r} standard {iv.standard_offset} savings {iv.savings}, file says name {want_name!r} offset {spec['fixed']}s")
        return (zid, 1, probs)
    # precalculated part
    for start, end, name, wall, savings in spec["periods"]:
        n += 1
        probe = Instant.min_value if start == -nzd.INF else Instant.from_unix_time_ticks(start)
        iv = zone.get_zone_interval(probe)
        s_ok = (not iv.has_start) if start == -nzd.INF else (iv.has_start and _ticks(iv.start) == start)
        # the last precalculated period may be continued by the first tail interval only if its end is the tail start
        e_ok = (not iv.has_end) if end == nzd.INF else (iv.has_end and _ticks(iv.end) == end)
        if not (s_ok and e_ok and iv.name == name and iv.wall_offset.seconds == wall and iv.savings.seconds == savings):
            bad(f"period starting {start}: real {iv} vs file ({name}, {wall}, {savings}, end {end})")
    tail = spec["tail"]
    if tail is not None:
        t0 = spec["tail_start"]
        y0 = Instant.from_unix_time_ticks(t0).in_utc().year
        spans = [(y0 - 1, min(9999, y0 + years_head))] if years_tail else [(y0 - 1, 9999)]
        if years_tail:
            spans.append((9999 - years_tail, 9999))
        for a, b in spans:
            ev = [e for e in nzd.tail_transitions(tail, max(1, a), b) if e[0] > t0]
            # drop events that do not change anything relative to the previous event (the real map alternates)
            for k, (t, name, wall, savings) in enumerate(ev[1:-1], start=1):
                n += 1
                try:
                    iv = zone.get_zone_interval(Instant.from_unix_time_ticks(t))
                except (ValueError, OverflowError):
                    continue
                nxt = ev[k + 1][0]
                if not (iv.has_start and _ticks(iv.start) == t and iv.name == name and iv.wall_offset.seconds == wall and iv.savings.seconds == savings and iv.has_end and _ticks(iv.end) == nxt):
                    bad(f"tail transition at {t}: real {iv} vs rules ({name}, wall {wall}, savings {savings}, next {nxt})")
    return (zid, n, probs)


def run(tier: str, seed: int) -> dict:
    from pyoda_time.time_zones import DateTimeZoneCache

    thorough = tier == "thorough"
    cases = []
    violations = []
    extra = 0
    for path in zonewalk._files():
        if not os.path.exists(path):
            continue
        dec = decoded(path)
        src = zonewalk.source(path)
        cache = DateTimeZoneCache(src)
        want_ids = sorted(set(dec["zones"]) | set(dec["id_map"]))
        got_ids = list(cache.ids)
        extra += 1
        if got_ids != want_ids:
            violations.append({"name": f"C06.ids {os.path.basename(path)}", "kind": "standin", "detail": f"provider ids differ from canonical ids + aliases in sorted order ({len(got_ids)} vs {len(want_ids)})", "contract": "standin", "replay": {"confirmed": True}})
        try:
            src.validate()
        except Exception as e:  # noqa: BLE001
            violations.append({"name": f"C06.validate {os.path.basename(path)}", "kind": "standin", "detail": f"validate() raised {type(e).__name__}: {e}", "contract": "standin", "replay": {"confirmed": True}})
        if src.tzdb_version != dec["version"]:
            violations.append({"name": f"C06.version {os.path.basename(path)}", "kind": "standin", "detail": "tzdb version differs", "contract": "standin", "replay": {"confirmed": True}})
        for zid in want_ids:
            cases.append((path, zid, 0 if thorough else 14, 0 if thorough else 4))
        # fixed-offset ids resolve through the provider
        from pyoda_time import Offset

        step = 1 if thorough else 60
        for s in range(-64800, 64801, step):
            sign = "+" if s >= 0 else "-"
            a = abs(s)
            hh, mm, ss = a // 3600, a // 60 % 60, a % 60
            zid = "UTC" if s == 0 else f"UTC{sign}{hh:02d}" + (f":{mm:02d}" if (mm or ss) else "") + (f":{ss:02d}" if ss else "")
            z = cache.get_zone_or_none(zid)
            extra += 1
            if z is None or z.get_utc_offset(None if False else __import__("pyoda_time").Instant.from_unix_time_ticks(0)) != Offset.from_seconds(s):
                if len(violations) < 8:
                    violations.append({"name": f"C06.fixed-id {zid}", "kind": "standin", "detail": f"{zid} does not resolve to the fixed zone with offset {s}s", "contract": "standin", "inputs": {"id": zid}, "replay": {"confirmed": True}})
    ctx = mp.get_context("fork")
    total = 0
    probs: dict[str, str] = {}
    with ctx.Pool(16) as pool:
        for zid, n, ps in pool.imap_unordered(_zone_case, cases, chunksize=4):
            total += n
            for p in ps:
                probs.setdefault(zid, p)
    for zid, p in sorted(probs.items())[:8]:
        violations.append({"name": f"C06.zone {zid}", "kind": "standin", "detail": p, "contract": "standin", "inputs": {"zone": zid}, "replay": {"confirmed": True}})
    return {
        "bounded": [{"name": "real zones vs independent interpretation of the file bytes", "bound": "all periods; tail rules through year 9999" if thorough else "all periods; tail rules for the first 14 and last 4 years; fixed-offset ids at whole minutes", "evaluations": total + extra, "distinct_nontrivial": total, "rule": "one case per stored period / rule-generated transition / fixed-offset id", "exhaustive": thorough, "zones": len(cases)}],
        "violations": violations,
    }
