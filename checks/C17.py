"""C17 stand-in: see checks/textfuzz.py (bounded; never counted as discharged)."""

from checks import textfuzz

LEVEL = "proof"
EXPLANATION = "Deductive part: the digit rendering/scanning primitives and the built-in ISO / round-trip patterns and a stated family of custom patterns, executed symbolically on symbolic values and on texts of unknown characters. Stand-in: generated patterns, values and mutated texts (invariant culture: the only culture available without ICU in this sandbox)."
ASSUMPTIONS = ["A10: str formatting / indexing / comparison semantics as modelled in pyvc/symstr.py"]


def run(tier, seed):
    return textfuzz.run_c17(tier, seed)
