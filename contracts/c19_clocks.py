"""C19 -- FakeClock follows the trivial model (now, auto_advance); every operation completes; lock discipline."""

from __future__ import annotations

import threading

from pyvc.contracts import Const, Int, Obj, contract
from pyvc.sym import And, Iff, Implies, Not, Or
from specs import views as V

from .gens import DurationG, InstantG

FC = "pyoda_time.testing._fake_clock:FakeClock"
RANGE_ERR = (OverflowError, ValueError)


def FakeClockG() -> Obj:
    return Obj(FC, {"_FakeClock__lock": Const(lambda: threading.Lock()), "_FakeClock__now": InstantG(), "_FakeClock__auto_advance": DurationG()})


def now(c):
    return V.fld(c, "_FakeClock__now")


def aa(c):
    return V.fld(c, "_FakeClock__auto_advance")


def _setup(eng):
    eng.guarded_fields = {("FakeClock", "_FakeClock__now"), ("FakeClock", "_FakeClock__auto_advance")}


def only_clock_state(obj, name):
    return name in ("_FakeClock__now", "_FakeClock__auto_advance")


def _mut(c):
    c.setup = _setup
    c.allow_mutation = only_clock_state
    c.crosscheck = 0


@contract(FC + ".get_current_instant", "C19")
def _(c):
    c.arg("self", FakeClockG())
    _mut(c)
    nxt = lambda a: V.inst_ns(now(a.self)) + V.ns(aa(a.self))  # noqa: E731
    c.returns(
        lambda a, r, W: And(V.inst_ns(r) == V.inst_ns(now(a.self)), V.is_instant_of(W(a.self, "_FakeClock__now"), nxt(a)), V.ns(W(a.self, "_FakeClock__auto_advance")) == V.ns(aa(a.self))),
        when=lambda a: V.inst_in_range(nxt(a)),
    )
    c.raises(*RANGE_ERR, when=lambda a: Not(V.inst_in_range(nxt(a))))


@contract(FC + ".advance", "C19")
def _(c):
    c.arg("self", FakeClockG()).arg("duration", DurationG())
    _mut(c)
    nxt = lambda a: V.inst_ns(now(a.self)) + V.ns(a.duration)  # noqa: E731
    c.returns(lambda a, r, W: And(r is None, V.is_instant_of(W(a.self, "_FakeClock__now"), nxt(a)), V.ns(W(a.self, "_FakeClock__auto_advance")) == V.ns(aa(a.self))), when=lambda a: V.inst_in_range(nxt(a)))
    c.raises(*RANGE_ERR, when=lambda a: Not(V.inst_in_range(nxt(a))))


for _n, _u in (("nanoseconds", 1), ("ticks", V.NPT), ("milliseconds", V.NPMS), ("seconds", V.NPS), ("minutes", V.NPM), ("hours", V.NPH), ("days", V.NPD)):

    def _mk(n=_n, u=_u):
        @contract(f"{FC}.advance_{n}", "C19", name=f"FakeClock.advance_{n} completes and moves the clock by exactly that amount")
        def _(c):
            c.arg("self", FakeClockG()).arg("k", Int())
            _mut(c)
            nxt = lambda a: V.inst_ns(now(a.self)) + a.k * u  # noqa: E731
            ok = lambda a: And(V.inst_in_range(nxt(a)), V.dur_in_range(a.k * u))  # noqa: E731
            c.returns(lambda a, r, W: And(r is None, V.is_instant_of(W(a.self, "_FakeClock__now"), nxt(a))), when=ok)
            c.raises(*RANGE_ERR, when=lambda a: Not(ok(a)))

    _mk()


@contract(FC + ".reset", "C19")
def _(c):
    c.arg("self", FakeClockG()).arg("instant", InstantG())
    _mut(c)
    c.returns(lambda a, r, W: And(r is None, V.inst_ns(W(a.self, "_FakeClock__now")) == V.inst_ns(a.instant), V.ns(W(a.self, "_FakeClock__auto_advance")) == V.ns(aa(a.self))))


@contract(FC + ".auto_advance", "C19", name="FakeClock.auto_advance (getter)")
def _(c):
    c.arg("self", FakeClockG())
    _mut(c)
    c.returns(lambda a, r, W: And(V.ns(r) == V.ns(aa(a.self)), V.inst_ns(W(a.self, "_FakeClock__now")) == V.inst_ns(now(a.self))))


@contract(FC, "C19", name="FakeClock(initial, auto_advance) starts at the model state")
def _(c):
    c.arg("initial", InstantG()).arg("auto_advance", DurationG())
    c.crosscheck = 0
    c.returns(lambda a, r: And(V.inst_ns(now(r)) == V.inst_ns(a.initial), V.ns(aa(r)) == V.ns(a.auto_advance)))


@contract(FC + ".advance", "C19", name="CANARY FakeClock.advance leaves the clock unchanged", canary=True)
def _(c):
    c.arg("self", FakeClockG()).arg("duration", DurationG())
    _mut(c)
    c.requires(lambda a: V.ns(a.duration) != 0)
    c.returns(lambda a, r, W: V.inst_ns(W(a.self, "_FakeClock__now")) == V.inst_ns(now(a.self)))
    c.raises(*RANGE_ERR)
