"""C19 -- FakeClock follows the trivial model (now, auto_advance); every operation completes; lock discipline."""

from __future__ import annotations

import threading

from pyvc.contracts import Const, Int, Obj, contract
from pyvc.sym import And, Iff, Implies, Not, Or
from specs import views as V

from .gens import DurationG, InstantG

FC = "pyoda_time.testing._fake_clock:FakeClock"
RANGE_ERR = (OverflowError, ValueError)


def FakeClockG() -> Obj:
    return Obj(FC, {"_FakeClock__lock": Const(lambda: threading.Lock()), "_FakeClock__now": InstantG(), "_FakeClock__auto_advance": DurationG()})


def now(c):
    return V.fld(c, "_FakeClock__now")


def aa(c):
    return V.fld(c, "_FakeClock__auto_advance")


def _setup(eng):
    eng.guarded_fields = {("FakeClock", "_FakeClock__now"), ("FakeClock", "_FakeClock__auto_advance")}


def only_clock_state(obj, name):
    return name in ("_FakeClock__now", "_FakeClock__auto_advance")


def _mut(c):
    c.setup = _setup
    c.allow_mutation = only_clock_state
    c.crosscheck = 0


@contract(FC + ".get_current_instant", "C19")
def _(c):
    c.arg("self", FakeClockG())
    _mut(c)
    nxt = lambda a: V.inst_ns(now(a.self)) + V.ns(aa(a.self))  # noqa: E731
    c.returns(
        lambda a, r, W: And(V.inst_ns(r) == V.inst_ns(now(a.self)), V.is_instant_of(W(a.self, "_FakeClock__now"), nxt(a)), V.ns(W(a.self, "_FakeClock__auto_advance")) == V.ns(aa(a.self))),
        when=lambda a: V.inst_in_range(nxt(a)),
    )
    c.raises(*RANGE_ERR, when=lambda a: Not(V.inst_in_range(nxt(a))))


@contract(FC + ".advance", "C19")
def _(c):
    c.arg("self", FakeClockG()).arg("duration", DurationG())
    _mut(c)
    nxt = lambda a: V.inst_ns(now(a.self)) + V.ns(a.duration)  # noqa: E731
    c.returns(lambda a, r, W: And(r is None, V.is_instant_of(W(a.self, "_FakeClock__now"), nxt(a)), V.ns(W(a.self, "_FakeClock__auto_advance")) == V.ns(aa(a.self))), when=lambda a: V.inst_in_range(nxt(a)))
    c.raises(*RANGE_ERR, when=lambda a: Not(V.inst_in_range(nxt(a))))


for _n, _u in (("nanoseconds", 1), ("ticks", V.NPT), ("milliseconds", V.NPMS), ("seconds", V.NPS), ("minutes", V.NPM), ("hours", V.NPH), ("days", V.NPD)):

    def _mk(n=_n, u=_u):
        @contract(f"{FC}.advance_{n}", "C19", name=f"FakeClock.advance_{n} completes and moves the clock by exactly that amount")
        def _(c):
            c.arg("self", FakeClockG()).arg("k", Int())
            _mut(c)
            nxt = lambda a: V.inst_ns(now(a.self)) + a.k * u  # noqa: E731
            ok = lambda a: And(V.inst_in_range(nxt(a)), V.dur_in_range(a.k * u))  # noqa: E731
            c.returns(lambda a, r, W: And(r is None, V.is_instant_of(W(a.self, "_FakeClock__now"), nxt(a))), when=ok)
            c.raises(*RANGE_ERR, when=lambda a: Not(ok(a)))

    _mk()


@contract(FC + ".reset", "C19")
def _(c):
    c.arg("self", FakeClockG()).arg("instant", InstantG())
    _mut(c)
    c.returns(lambda a, r, W: And(r is None, V.inst_ns(W(a.self, "_FakeClock__now")) == V.inst_ns(a.instant), V.ns(W(a.self, "_FakeClock__auto_advance")) == V.ns(aa(a.self))))


@contract(FC + ".auto_advance", "C19", name="FakeClock.auto_advance (getter)")
def _(c):
    c.arg("self", FakeClockG())
    _mut(c)
    c.returns(lambda a, r, W: And(V.ns(r) == V.ns(aa(a.self)), V.inst_ns(W(a.self, "_FakeClock__now")) == V.inst_ns(now(a.self))))


@contract(FC, "C19", name="FakeClock(initial, auto_advance) starts at the model state")
def _(c):
    c.arg("initial", InstantG()).arg("auto_advance", DurationG())
    c.crosscheck = 0
    c.returns(lambda a, r: And(V.inst_ns(now(r)) == V.inst_ns(a.initial), V.ns(aa(r)) == V.ns(a.auto_advance)))


@contract(FC + ".advance", "C19", name="CANARY FakeClock.advance leaves the clock unchanged", canary=True)
def _(c):
    c.arg("self", FakeClockG()).arg("duration", DurationG())
    _mut(c)
    c.requires(lambda a: V.ns(a.duration) != 0)
    c.returns(lambda a, r, W: V.inst_ns(W(a.self, "_FakeClock__now")) == V.inst_ns(now(a.self)))
    c.raises(*RANGE_ERR)


# ------------------------------------------------------------------------------------------ ZonedClock and SystemClock
ZC = "pyoda_time._zoned_clock:ZonedClock"


def ZonedClockG() -> Obj:
    from pyoda_time import CalendarSystem, DateTimeZone

    return Obj(ZC, {"_ZonedClock__clock": FakeClockG(), "_ZonedClock__zone": Const(lambda: DateTimeZone.utc), "_ZonedClock__calendar": Const(lambda: CalendarSystem.iso)})


@contract(ZC + ".get_current_instant", "C19", name="ZonedClock.get_current_instant is the wrapped clock's reading (and advances the wrapped clock exactly as the clock itself would)")
def _(c):
    c.arg("self", ZonedClockG())
    _mut(c)
    inner = lambda a: V.fld(a.self, "_ZonedClock__clock")  # noqa: E731
    nxt = lambda a: V.inst_ns(now(inner(a))) + V.ns(aa(inner(a)))  # noqa: E731
    c.returns(lambda a, r, W: And(V.inst_ns(r) == V.inst_ns(now(inner(a))), V.is_instant_of(W(inner(a), "_FakeClock__now"), nxt(a))), when=lambda a: V.inst_in_range(nxt(a)))
    c.raises(*RANGE_ERR, when=lambda a: Not(V.inst_in_range(nxt(a))))


@contract(ZC, "C19", name="ZonedClock(clock, zone, calendar) keeps its three parts; None is refused")
def _(c):
    from pyoda_time import CalendarSystem, DateTimeZone
    from pyvc.contracts import OneOf

    c.arg("clock", OneOf(lambda: [None, "clock"])).arg("zone", OneOf(lambda: [None, DateTimeZone.utc])).arg("calendar", OneOf(lambda: [None, CalendarSystem.iso]))
    c.crosscheck = 0
    ok = lambda a: a.clock is not None and a.zone is not None and a.calendar is not None  # noqa: E731
    c.returns(lambda a, r: And(V.fld(r, "_ZonedClock__clock") is a.clock, V.fld(r, "_ZonedClock__zone") is a.zone, V.fld(r, "_ZonedClock__calendar") is a.calendar), when=ok)
    c.raises(TypeError, ValueError, when=lambda a: not ok(a))


def _sys_setup(eng):
    """A12: time.time_ns() is the operating-system time: the ghost input `t`, an arbitrary non-negative integer"""
    import time

    def time_ns(eng):
        eng.assumptions_used.add("A12")
        return eng.contract_ns.t

    eng.models[time.time_ns] = time_ns


@contract("pyoda_time._system_clock:SystemClock.get_current_instant", "C19", name="SystemClock.get_current_instant is the Unix epoch plus the operating system's nanosecond count (or raises beyond the range of Instant)")
def _(c):
    from pyoda_time import SystemClock

    c.arg("self", Const(lambda: SystemClock.instance)).ghost("t", Int(0, None))
    c.setup = _sys_setup
    c.crosscheck = 0
    c.replayable = False
    c.allow_mutation = lambda obj, n: "'item'" in str(n)  # PyodaConstants.UNIX_EPOCH may fill the ISO year cache (transparent: C13)
    c.returns(lambda a, r: V.is_instant_of(r, a.t), when=lambda a: V.inst_in_range(a.t))
    c.raises(*RANGE_ERR, when=lambda a: Not(V.inst_in_range(a.t)))


# ------------------------------------------------------------------------------------------ ZonedClock: the derived views
from specs import cal_abs as CA  # noqa: E402

from .c01_generic import ld_dse, ld_valid_in  # noqa: E402
from .gens import AbsCalG  # noqa: E402


class _ZonedClockAbsG(Obj):
    """ZonedClock over a FakeClock, the UTC zone and a SYMBOLIC calendar"""

    def __init__(self):
        pass

    def make(self, name, b):
        from pyvc.values import SObj
        from pyoda_time import DateTimeZone
        from pyoda_time._zoned_clock import ZonedClock

        return SObj(ZonedClock, {"_ZonedClock__clock": FakeClockG().make(name + ".clock", b), "_ZonedClock__zone": DateTimeZone.utc, "_ZonedClock__calendar": b.named["cal"].system}, owner=-1, tag=name)


def _zc_setup(eng):
    _setup(eng)
    from specs import cal_abs

    cal_abs.install(eng)


def _mk_view(meth, post):
    @contract(ZC + "." + meth, "C19", name=f"ZonedClock.{meth}: one reading of the wrapped clock, shown in the clock's zone (UTC here) and in the clock's OWN calendar")
    def _(c):
        from .gens import IsoAbsCalG

        # the ISO calendar is present too (as an abstract calendar of ordinal 0): a view that falls back to the default
        # calendar instead of the clock's own is then a decided violation, not an unsupported lookup
        c.ghost("cal", AbsCalG()).ghost("iso", IsoAbsCalG("iso")).arg("self", _ZonedClockAbsG())
        c.requires(lambda a: a.cal.ordinal != 0)
        c.setup = _zc_setup
        c.allow_mutation = only_clock_state
        c.crosscheck = 0
        c.timeout_s = 120
        inner = lambda a: V.fld(a.self, "_ZonedClock__clock")  # noqa: E731
        t = lambda a: V.inst_ns(now(inner(a)))  # noqa: E731
        nxt = lambda a: t(a) + V.ns(aa(inner(a)))  # noqa: E731
        day_ok = lambda a: And(t(a) // V.NPD >= CA.soy(a.cal.cid, a.cal.min_year), t(a) // V.NPD <= CA.soy(a.cal.cid, a.cal.max_year + 1) - 1)  # noqa: E731
        c.returns(lambda a, r, W: And(post(a, r, t(a)), V.is_instant_of(W(inner(a), "_FakeClock__now"), nxt(a))), when=lambda a: And(V.inst_in_range(nxt(a)), day_ok(a)))
        c.raises(*RANGE_ERR, when=lambda a: Or(Not(V.inst_in_range(nxt(a))), Not(day_ok(a))))


_mk_view("get_current_date", lambda a, r, t: And(ld_valid_in(a.cal, r), ld_dse(a, r) == t // V.NPD))
_mk_view("get_curent_time_of_day", lambda a, r, t: V.lt_nanos(r) == t % V.NPD)
_mk_view("get_current_local_date_time", lambda a, r, t: And(ld_valid_in(a.cal, V.ldt_date(r)), ld_dse(a, V.ldt_date(r)) == t // V.NPD, V.lt_nanos(V.ldt_time(r)) == t % V.NPD))
_mk_view("get_current_offset_date_time", lambda a, r, t: And(ld_valid_in(a.cal, V.odt_date(r)), ld_dse(a, V.odt_date(r)) == t // V.NPD, V.ot_n(V.odt_ot(r)) == t % V.NPD, V.ot_off(V.odt_ot(r)) == 0))
