"""C01 layers A/B and C02: every calculator class against its own consistency laws and the published algorithms.

Year-indexed facts are decided in G-mode (every year of [minY-1, maxY+1] enumerated, the real source executed by
the interpreter on concrete values); the day-of-year split is decided symbolically (year and day symbolic).
"""

from __future__ import annotations

from pyvc.contracts import Const, Int, OneOf, contract
from pyvc.sym import And, Iff, Implies, Not, Or
from specs import calendars as S
from specs import views as V

H = "harness.cal:"
N_ORD = 19


def calc_of(o: int):
    from pyoda_time import CalendarSystem
    from pyoda_time._calendar_ordinal import _CalendarOrdinal

    return CalendarSystem._for_ordinal(_CalendarOrdinal(o))._year_month_day_calculator


def cal_name(o: int) -> str:
    from pyoda_time._calendar_ordinal import _CalendarOrdinal

    return _CalendarOrdinal(o).name


def items(x):
    return x.items if hasattr(x, "items") and not isinstance(x, dict) else list(x)


def cache_ok(obj, name):
    return True


SPECS = S.by_ordinal()
# ordinals sharing one calculator object are verified once (GREGORIAN shares ISO's calculator)
DISTINCT = [o for o in range(N_ORD) if o != 1]


def _years(o, lo_extra, hi_extra):
    c = calc_of(o)
    return range(c._min_year - lo_extra, c._max_year + hi_extra + 1)


def _mk_year(o: int) -> None:
    spec = SPECS.get(o)

    props = ("C01", "C02") if spec is not None else ("C01",)

    @contract(H + "year_facts", *props, name=f"[{cal_name(o)}] year starts and year lengths agree, for every year", ground_chunks=2 if o not in (17, 18) else 1)
    def _(c):
        c.arg("calc", Const(lambda: calc_of(o))).arg("y", Int())
        c.ground = lambda: [{"calc": calc_of(o), "y": y} for y in _years(o, 1, 0)]
        c.allow_mutation = cache_ok

        def post(a, r):
            soy, soy1, diy = r
            ok = And(diy == soy1 - soy, diy >= 300, diy <= 400)
            lo = spec.first_year_with_spec or spec.min_year if spec is not None else 0
            if spec is not None and a.y >= lo:
                # the published algorithm fixes every year start inside the supported range (and the end of the last year)
                ok = And(ok, soy == spec.soy(a.y), soy1 == spec.soy(a.y + 1))
            return ok

        c.returns(post)

    @contract(H + "month_facts", *props, name=f"[{cal_name(o)}] month lengths, month starts and leap years agree, for every year", ground_chunks=2 if o not in (17, 18) else 1)
    def _(c):
        c.arg("calc", Const(lambda: calc_of(o))).arg("y", Int())
        c.ground = lambda: [{"calc": calc_of(o), "y": y} for y in _years(o, 0, 0)]
        c.allow_mutation = cache_ok

        def post(a, r):
            miy, leap, dims, dsms, diy = r
            dims, dsms = items(dims), items(dsms)
            ok = 1 <= miy <= 32 and len(dims) == miy and all(1 <= d <= 64 for d in dims) and sum(dims) == diy
            # month starts are the running sums of the month lengths, in the calendar's own month order
            order = sorted(range(miy), key=lambda i: dsms[i])
            run = 0
            for i in order:
                ok = ok and dsms[i] == run
                run += dims[i]
            if spec is not None and (spec.first_year_with_spec is None or a.y >= spec.first_year_with_spec):
                ok = ok and miy == spec.miy(a.y) and bool(leap) == bool(spec.leap(a.y))
                ok = ok and all(dims[m - 1] == spec.dim(a.y, m) for m in range(1, miy + 1))
                ok = ok and all(dsms[m - 1] == spec.dsm(a.y, m) for m in range(1, miy + 1))
            return ok

        c.returns(post)


for _o in DISTINCT:
    _mk_year(_o)


# ------------------------------------------------------------------------------------------ layer B: day-of-year split
def _hebrew_setup(eng):
    """Contract for _HebrewScripturalCalculator.__get_or_populate_cache(year): some word E*4 + h + 2k with
    h, k in {0, 1} not both set -- a function of the year only (cache transparency is C13's obligation; the values
    of E, h, k are tied to the published algorithm by the year-level G-mode contracts above)."""
    import z3

    from pyvc import sym
    from pyoda_time.calendars._hebrew_scriptural_calculator import _HebrewScripturalCalculator as HS

    E = z3.Function("heb_elapsed", z3.IntSort(), z3.IntSort())
    Hb = z3.Function("heb_heshvan_long", z3.IntSort(), z3.IntSort())
    Kb = z3.Function("heb_kislev_short", z3.IntSort(), z3.IntSort())
    f = vars(HS)["_HebrewScripturalCalculator__get_or_populate_cache"].__func__

    def model(eng, cls, year):
        yt = sym.SInt.lift(year)
        h, k = sym.mk_int(Hb(yt)), sym.mk_int(Kb(yt))
        eng.assume(And(h >= 0, h <= 1, k >= 0, k <= 1, h + k <= 1))
        # year length = 354 + 30*leap + long-heshvan - short-kislev; justified for every year by the G-mode contract
        # "[HEBREW_*] month lengths ... agree" (sum of month lengths == days in year)
        leap = ((year * 7) + 1) % 19 < 7
        y1 = sym.SInt.lift(year + 1)
        eng.assume(sym.mk_int(E(y1)) - sym.mk_int(E(yt)) == 354 + sym.ite(leap, 30, 0) + h - k)
        return sym.mk_int(E(yt)) * 4 + h + 2 * k

    eng.func_models[f] = model


def _split_setup(o: int, abstract_leap: bool = False):
    def setup(eng):
        from specs import packmodel

        packmodel.install(eng)
        if o in (4, 5):
            _hebrew_setup(eng)
        if o == 8 and getattr(setup, "abstract_leap", False):
            # Persian astronomical leap years are a 9378-entry bit table: in proofs that only need "leap is a function
            # of the year" the table lookup is replaced by an uninterpreted predicate (the table itself is covered
            # entry by entry by the G-mode year contracts)
            import z3

            from pyvc import sym
            from pyoda_time.calendars._persian_year_month_day_calculator import _PersianAstronomicalYearMonthDayCalculator as PA

            L = z3.Function("persian_astro_leap", z3.IntSort(), z3.BoolSort())
            eng.func_models[vars(PA)["_is_leap_year"]] = lambda eng, self_, year: sym.mk_bool(L(sym.SInt.lift(year)))

    setup.abstract_leap = abstract_leap
    return setup


def _mk_split(o: int) -> None:
    @contract(H + "split_doy", "C01", name=f"[{cal_name(o)}] day-of-year splits into a valid (month, day) of that year, for every year and day")
    def _(c):
        calc = calc_of(o)
        c.arg("calc", Const(lambda: calc_of(o))).arg("y", Int(calc._min_year, calc._max_year)).arg("doy", Int(1, 400))
        c.setup = _split_setup(o)
        c.unroll = {"pyoda_time.calendars._um_al_qura_year_month_day_calculator:_UmAlQuraYearMonthDayCalculator._get_days_from_start_of_year_to_start_of_month": 13}
        c.timeout_s = 60

        def post(a, r):
            if r is None:  # doy beyond the year's length (guarded in the harness)
                return True
            y, m, d, dsm, dim, miy, diy = r
            return And(a.doy <= diy, y == a.y, m >= 1, m <= miy, d >= 1, d <= dim, dsm + d == a.doy)

        # no exception is allowed for 1 <= doy <= days-in-year
        c.returns(post)


for _o in DISTINCT:
    _mk_split(_o)


# ------------------------------------------------------------------------------------------ first-guess year stays in range
def _mk_estimate(o: int) -> None:
    @contract(H + "estimate_year", "C01", name=f"[{cal_name(o)}] first-guess year of _get_year lies in [minY-1, maxY+1] at both ends of the day range and is monotone")
    def _(c):
        calc = calc_of(o)
        lo = calc._get_start_of_year_in_days(calc._min_year)
        hi = calc._get_start_of_year_in_days(calc._max_year + 1) - 1
        c.arg("calc", Const(lambda: calc_of(o))).arg("days", Int(lo, hi))
        c.returns(lambda a, r: And(r >= calc._min_year - 1, r <= calc._max_year + 1))


for _o in DISTINCT:
    _mk_estimate(_o)


@contract(H + "year_facts", "C01", name="CANARY Gregorian year length 367", canary=True)
def _(c):
    c.arg("calc", Const(lambda: calc_of(0))).arg("y", Int())
    c.ground = lambda: [{"calc": calc_of(0), "y": y} for y in range(2000, 2003)]
    c.allow_mutation = cache_ok
    c.returns(lambda a, r: r[2] == 367)


# ------------------------------------------------------------------------------------------ compare() is the day-number order
def _mk_compare(o: int) -> None:
    @contract(H + "compare_chain", "C01", "C12", name=f"[{cal_name(o)}] compare() agrees with the day-number order on every month start/end of every year", ground_chunks=2 if o not in (17, 18) else 1)
    def _(c):
        c.arg("calc", Const(lambda: calc_of(o))).arg("y", Int())
        c.ground = lambda: [{"calc": calc_of(o), "y": y} for y in _years(o, 0, 0)]
        c.allow_mutation = cache_ok
        c.ground_interp_stride = 1009

        def post(a, r):
            ok = True
            for dn, ab, ba, aa in items(r):
                ok = ok and aa == 0 and ((dn > 0 and ab < 0 and ba > 0) or (dn == 0 and ab == 0 and ba == 0))
            return ok and len(items(r)) >= 2

        c.returns(post)


for _o in DISTINCT:
    _mk_compare(_o)


# interface fact CAL-RANGE used by clients that convert dates to local instants: the supported days of every calendar lie
# inside the range of _LocalInstant / Instant day numbers
for _o in DISTINCT:

    def _mk_range(o=_o):
        @contract(H + "day_range", "C01", "C09", name=f"[{cal_name(o)}] CAL-RANGE: the calendar's days lie within the local-instant day range")
        def _(c):
            c.arg("calc", Const(lambda: calc_of(o)))
            c.ground = lambda: [{"calc": calc_of(o)}]
            c.ground_interp_stride = 1
            c.allow_mutation = cache_ok
            c.returns(lambda a, r: V.INSTANT_MIN_DAYS <= r[0] <= r[1] <= V.INSTANT_MAX_DAYS)

    _mk_range()


# ------------------------------------------------------------------------------------------ the Gregorian fast paths (used for every ISO date)
GREG = "pyoda_time.calendars._gregorian_year_month_day_calculator:_GregorianYearMonthDayCalculator."


def _py_leap(y):
    return y % 4 == 0 and (y % 100 != 0 or y % 400 == 0)


def _py_dim(y, m):
    return (31, 29 if _py_leap(y) else 28, 31, 30, 31, 30, 31, 31, 30, 31, 30, 31)[m - 1]


def _py_soy(y):
    p = y - 1
    return 365 * p + p // 4 - p // 100 + p // 400 + 1 - S.RD_UNIX


def _validate_domain():
    # every year of the range and two beyond each end, every month 0..13, every day 0..32
    return [{"year": y, "month": m, "day": d} for y in range(-10000, 10002) for m in range(0, 14) for d in (0, 1, 20, 21, 27, 28, 29, 30, 31, 32)]


@contract(GREG + "_validate_gregorian_year_month_day", "C01", "C02", name="[ISO] Gregorian fast-path validation accepts exactly the dates of the proleptic Gregorian calendar in years -9998..9999 (every year x month x boundary day)")
def _(c):
    c.arg("year", Int()).arg("month", Int()).arg("day", Int())
    c.ground = _validate_domain
    c.ground_chunks = 16
    c.ground_interp_stride = 99991
    ok = lambda a: -9998 <= a.year <= 9999 and 1 <= a.month <= 12 and 1 <= a.day <= _py_dim(a.year, a.month)  # noqa: E731
    c.returns(lambda a, r: r is None, when=ok)
    c.raises(ValueError, when=lambda a: not ok(a))


def _days_domain():
    lo, hi = _py_soy(-9998), _py_soy(10000) - 1
    return [{"days_since_epoch": d} for d in range(lo - 2, hi + 3)]


def _py_date_of(days):
    # proleptic Gregorian date of a day number by the published 400-year-cycle arithmetic
    y = (days + S.RD_UNIX - 1) // 146097 * 400 + 1
    while _py_soy(y + 1) <= days:
        step = max(1, (days - _py_soy(y + 1)) // 366)
        y += step
    while _py_soy(y) > days:
        y -= 1
    doy = days - _py_soy(y)
    m = 1
    while doy >= _py_dim(y, m):
        doy -= _py_dim(y, m)
        m += 1
    return y, m, doy + 1


@contract(GREG + "_get_gregorian_year_month_day_calendar_from_days_since_epoch", "C01", "C02", name="[ISO] Gregorian fast-path day -> date: the proleptic Gregorian date of EVERY day number of the supported range (ISO ordinal), ValueError outside it")
def _(c):
    c.arg("days_since_epoch", Int())
    c.ground = _days_domain
    c.ground_chunks = 16
    c.ground_interp_stride = 999983
    c.allow_mutation = cache_ok
    lo, hi = _py_soy(-9998), _py_soy(10000) - 1

    def post(a, r):
        y, m, d = _py_date_of(a.days_since_epoch)
        return (r._year, r._month, r._day, int(r._calendar_ordinal)) == (y, m, d, 0)

    c.returns(post, when=lambda a: lo <= a.days_since_epoch <= hi)
    c.raises(ValueError, when=lambda a: not (lo <= a.days_since_epoch <= hi))
