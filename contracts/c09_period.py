"""C09 -- Period.between laws, normalisation and duration conversion."""

from __future__ import annotations

from pyvc.contracts import Const, EnumInt, Int, Obj, contract
from pyvc.sym import And, Iff, Implies, Not, Or, ite, trunc_div
from specs import cal_abs as CA
from specs import views as V

from .c01_generic import ld_dse
from .gens import AbsCalG, LocalDateG, LocalTimeG

H = "harness.period:"
P = "pyoda_time._period:Period."


def bit(u, k):
    return (u // k) % 2 == 1


def _mk_between_dates(mask: int) -> None:
    names = "+".join(n for n, k in (("YEARS", 1), ("MONTHS", 2), ("WEEKS", 4), ("DAYS", 8)) if mask & k)

    @contract(H + "between_dates", "C09", name=f"Period.between(LocalDate, LocalDate, {names}): only requested units, lands between start and end, reaches end with DAYS, one sign")
    def _(c):
        c.ghost("cal", AbsCalG()).arg("start", LocalDateG()).arg("end", LocalDateG()).arg("units", Const(lambda: __import__("pyoda_time").PeriodUnits(mask)))
        c.timeout_s = 60
        c.max_paths = 20000

        def setup(eng):
            # modular: the four date period fields by their contracts (proved in c09_date_fields.py / below)
            from specs import cal_abs, field_models

            cal_abs.install(eng)
            field_models.install(eng)

        c.setup = setup

        def post(a, r):
            years, months, weeks, days, has_time, landing = r
            s, e = ld_dse(a, a.start), ld_dse(a, a.end)
            return And(
                Not(has_time) if not isinstance(has_time, bool) else (not has_time),
                True if mask & 1 else years == 0,
                True if mask & 2 else months == 0,
                True if mask & 4 else weeks == 0,
                True if mask & 8 else days == 0,
                *[Implies(s <= e, x) for x in (s <= landing, landing <= e, years >= 0, months >= 0, weeks >= 0, days >= 0)],
                *[Implies(s >= e, x) for x in (e <= landing, landing <= s, years <= 0, months <= 0, weeks <= 0, days <= 0)],
                landing == e if mask & 8 else True,
                days == e - s if mask == 8 else True,
                weeks == trunc_div(e - s, 7) if mask == 4 else True,
            )

        c.returns(post)


for _mask in range(1, 16):
    _mk_between_dates(_mask)


@contract(H + "years_between_maximal", "C09", name="_YearsPeriodField.units_between: greatest year count whose addition does not pass the end date")
def _(c):
    c.ghost("cal", AbsCalG()).arg("start", LocalDateG()).arg("end", LocalDateG())

    def post(a, r):
        n, y_here, here = r
        s, e = ld_dse(a, a.start), ld_dse(a, a.end)
        ys, ye = V.ld_y(a.start), V.ld_y(a.end)
        return And(
            y_here == ys + n,
            Implies(s == e, n == 0),
            Implies(s <= e, And(n >= 0, s <= here, here <= e, n >= ye - ys - 1, n <= ye - ys)),
            Implies(s >= e, And(n <= 0, e <= here, here <= s, n <= ye - ys + 1, n >= ye - ys)),
        )

    c.returns(post)


class _TimeUnits(Int):
    def make(self, name, b):
        from pyvc import sym

        v = sym.var_int(name + "_bits")
        b.assume(And(v >= 1, v <= 63))
        return v * 16


@contract(H + "between_times", "C09", name="Period.between(LocalTime, LocalTime, units): only requested units, lands between, reaches end with NANOSECONDS, one sign")
def _(c):
    c.arg("start", LocalTimeG()).arg("end", LocalTimeG()).arg("units", Int(1, 63))
    c.timeout_s = 90
    c.max_paths = 20000

    class U:
        pass

    def post(a, r):
        h, mi, s_, ms, t, ns, has_date, landing = r
        s, e = V.lt_nanos(a.start), V.lt_nanos(a.end)
        u = a.units  # already shifted: time-unit bits start at 16
        comps = (h, mi, s_, ms, t, ns)
        return And(
            Not(has_date) if not isinstance(has_date, bool) else (not has_date),
            Implies(Not(bit(u, 16)), h == 0),
            Implies(Not(bit(u, 32)), mi == 0),
            Implies(Not(bit(u, 64)), s_ == 0),
            Implies(Not(bit(u, 128)), ms == 0),
            Implies(Not(bit(u, 256)), t == 0),
            Implies(Not(bit(u, 512)), ns == 0),
            Implies(s <= e, And(s <= landing, landing <= e, *[x >= 0 for x in comps])),
            Implies(s >= e, And(e <= landing, landing <= s, *[x <= 0 for x in comps])),
            Implies(bit(u, 512), landing == e),
            Implies(bit(u, 256), And(landing // 100 == e // 100) if False else True),
            Implies(u == 16, h == trunc_div(e - s, V.NPH)),
            Implies(u == 512, ns == e - s),
        )

    c.returns(post)
    c.args[2] = ("units", EnumInt("pyoda_time._period_units:PeriodUnits", 1, 63, scale=16))




from .gens import YearMonthG  # noqa: E402


def _mk_between_ym(mask: int) -> None:
    names = "+".join(n for n, k in (("YEARS", 1), ("MONTHS", 2)) if mask & k)

    @contract(H + "between_year_months", "C09", name=f"Period.between(YearMonth, YearMonth, {names}): returned in the units asked for, lands between, one sign")
    def _(c):
        c.ghost("cal", AbsCalG()).arg("start", YearMonthG()).arg("end", YearMonthG()).arg("units", Const(lambda: __import__("pyoda_time").PeriodUnits(mask)))
        c.timeout_s = 60

        def setup(eng):
            from specs import cal_abs, field_models

            cal_abs.install(eng)
            field_models.install(eng)

        c.setup = setup

        def first(a, ym):
            o = V.fld(ym, "_YearMonth__start_of_month")
            return CA.dse(a.cal.cid, V.fld(o, "$y"), V.fld(o, "$m"), 1)

        def post(a, r):
            years, months, weeks, days, has_time, landing = r
            s, e = first(a, a.start), first(a, a.end)
            return And(
                Not(has_time) if not isinstance(has_time, bool) else (not has_time),
                weeks == 0,
                days == 0,
                True if mask & 1 else years == 0,
                True if mask & 2 else months == 0,
                *[Implies(s <= e, x) for x in (s <= landing, landing <= e, years >= 0, months >= 0)],
                *[Implies(s >= e, x) for x in (e <= landing, landing <= s, years <= 0, months <= 0)],
            )

        c.returns(post)


for _mask in (1, 2, 3):
    _mk_between_ym(_mask)


# ------------------------------------------------------------------------------------------------- Period.between(LocalDateTime, LocalDateTime)
from .gens import LocalDateTimeG  # noqa: E402

_UNIT_BITS = (("YEARS", 1), ("MONTHS", 2), ("WEEKS", 4), ("DAYS", 8), ("HOURS", 16), ("MINUTES", 32), ("SECONDS", 64), ("MILLISECONDS", 128), ("TICKS", 256), ("NANOSECONDS", 512))
_UNIT_NS = {16: V.NPH, 32: V.NPM, 64: V.NPS, 128: V.NPMS, 256: V.NPT, 512: 1}


def _mk_between_ldt(mask: int) -> None:
    names = "+".join(n for n, k in _UNIT_BITS if mask & k)

    @contract(H + "between_date_times", "C09", name=f"Period.between(LocalDateTime, LocalDateTime, {names}): only requested units, one sign, exact/maximal in fixed-length units")
    def _(c):
        c.ghost("cal", AbsCalG()).arg("start", LocalDateTimeG()).arg("end", LocalDateTimeG()).arg("units", Const(lambda: __import__("pyoda_time").PeriodUnits(mask)))
        c.timeout_s = 120
        c.max_paths = 40000
        # interface fact CAL-RANGE (a ground obligation per calculator class, contracts/c01_calendars.py): every calendar's days lie
        # inside the range of local instants
        c.requires(lambda a: And(CA.soy(a.cal.cid, a.cal.min_year) >= V.INSTANT_MIN_DAYS, CA.soy(a.cal.cid, a.cal.max_year + 1) - 1 <= V.INSTANT_MAX_DAYS))

        def setup(eng):
            from specs import cal_abs, field_models

            cal_abs.install(eng)
            field_models.install(eng)

        c.setup = setup

        def local_ns(a, x):
            return ld_dse(a, V.ldt_date(x)) * V.NPD + V.lt_nanos(V.ldt_time(x))

        def post(a, r):
            comps = dict(zip((k for _, k in _UNIT_BITS), r))
            s, e = local_ns(a, a.start), local_ns(a, a.end)
            diff = e - s
            conj = [comps[k] == 0 for _, k in _UNIT_BITS if not mask & k]
            conj += [Implies(diff >= 0, comps[k] >= 0) for _, k in _UNIT_BITS if mask & k]
            conj += [Implies(diff <= 0, comps[k] <= 0) for _, k in _UNIT_BITS if mask & k]
            fixed = [k for _, k in _UNIT_BITS if mask & k and k >= 4]
            if not mask & 3 and fixed:
                # only fixed-length units: the period's total length is the difference truncated to the smallest unit asked for
                total = 0
                for k in fixed:
                    total = total + comps[k] * ({4: 7 * V.NPD, 8: V.NPD} | _UNIT_NS)[k]
                smallest = min(({4: 7 * V.NPD, 8: V.NPD} | _UNIT_NS)[k] for k in fixed)
                conj.append(total == trunc_div(diff, smallest) * smallest)
                # canonical carry: every unit but the largest stays below the next larger requested unit
                sizes = sorted((({4: 7 * V.NPD, 8: V.NPD} | _UNIT_NS)[k], k) for k in fixed)
                for (sz, k), (sz2, _k2) in zip(sizes, sizes[1:]):
                    conj.append(And(comps[k] * sz < sz2, comps[k] * sz > -sz2))
            return And(*conj)

        c.returns(post)


for _mask in (8, 4, 16, 512, 8 | 16, 8 | 512, 4 | 8 | 64, 1, 2, 1 | 2 | 8, 1 | 2 | 8 | 16 | 512):
    _mk_between_ldt(_mask)


# ------------------------------------------------------------------------------------------------- Period.normalize / to_duration
from .gens import PeriodG  # noqa: E402

_NAMES = ("years", "months", "weeks", "days", "hours", "minutes", "seconds", "milliseconds", "ticks", "nanoseconds")


def _total_ns(p):
    return (
        V.per(p, "nanoseconds")
        + V.per(p, "ticks") * V.NPT
        + V.per(p, "milliseconds") * V.NPMS
        + V.per(p, "seconds") * V.NPS
        + V.per(p, "minutes") * V.NPM
        + V.per(p, "hours") * V.NPH
        + V.per(p, "days") * V.NPD
        + V.per(p, "weeks") * 7 * V.NPD
    )


@contract(P + "normalize", "C09", name="Period.normalize: same years/months and same total length; weeks and ticks become 0; every unit in its natural range; one sign")
def _(c):
    c.arg("self", PeriodG(-(10**12), 10**12))
    units = ("days", "hours", "minutes", "seconds", "milliseconds", "nanoseconds")
    g = lambda r, n: V.per(r, n)  # noqa: E731
    # truncated mixed-radix decomposition of the total, one step per lemma (each is proved on its own from the definitions
    # of truncated division / C#-style remainder, then available to the posts): with x_u = trunc(total / u),
    #   x_small == x_big * k + crem(x_small, k)        and        total == x_ms * NPMS + crem(total, NPMS)
    T = lambda a: _total_ns(a.self)  # noqa: E731
    crem = lambda x, k: ite(And(x < 0, x % k > 0), x % k - k, x % k)  # noqa: E731  (the value _csharp_modulo computes)
    for _big, _small, _k in ((V.NPD, V.NPH, 24), (V.NPH, V.NPM, 60), (V.NPM, V.NPS, 60), (V.NPS, V.NPMS, 1000)):
        c.lemma((lambda big, small, k: lambda a: trunc_div(T(a), small) == trunc_div(T(a), big) * k + crem(trunc_div(T(a), small), k))(_big, _small, _k))
    c.lemma(lambda a: T(a) == trunc_div(T(a), V.NPMS) * V.NPMS + crem(T(a), V.NPMS))
    c.returns(lambda a, r: And(g(r, "years") == V.per(a.self, "years"), g(r, "months") == V.per(a.self, "months"), g(r, "weeks") == 0, g(r, "ticks") == 0), label="kept-and-cleared")
    # the same statement per sign of the total: each half is free of the case splits of truncated division
    c.returns(lambda a, r: Implies(_total_ns(a.self) >= 0, _total_ns(r) == _total_ns(a.self)), label="same-total-nonnegative")
    c.returns(lambda a, r: Implies(_total_ns(a.self) < 0, _total_ns(r) == _total_ns(a.self)), label="same-total-negative")
    c.returns(lambda a, r: Implies(_total_ns(a.self) >= 0, And(*[g(r, u) >= 0 for u in units])), label="sign-positive")
    c.returns(lambda a, r: Implies(_total_ns(a.self) <= 0, And(*[g(r, u) <= 0 for u in units])), label="sign-negative")
    c.returns(
        lambda a, r: And(g(r, "hours") > -24, g(r, "hours") < 24, g(r, "minutes") > -60, g(r, "minutes") < 60, g(r, "seconds") > -60, g(r, "seconds") < 60, g(r, "milliseconds") > -1000, g(r, "milliseconds") < 1000, g(r, "nanoseconds") > -V.NPMS, g(r, "nanoseconds") < V.NPMS),
        label="natural-ranges",
    )


@contract(P + "to_duration", "C09", name="Period.to_duration: the total length of the fixed-length units; refused when years or months are present")
def _(c):
    c.arg("self", PeriodG(-(10**12), 10**12))
    has_ym = lambda a: Or(V.per(a.self, "years") != 0, V.per(a.self, "months") != 0)  # noqa: E731
    c.returns(lambda a, r: V.is_duration_of(r, _total_ns(a.self)), when=lambda a: And(Not(has_ym(a)), V.dur_in_range(_total_ns(a.self))))
    c.raises(RuntimeError, when=has_ym)
    c.raises(OverflowError, ValueError, when=lambda a: And(Not(has_ym(a)), Not(V.dur_in_range(_total_ns(a.self)))))
