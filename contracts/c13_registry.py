"""C13 -- calendar systems are singletons per id, whatever was asked before.

The lazily filled registry CalendarSystem.__CALENDAR_BY_ORDINAL is replaced by an ABSTRACT registry state: an arbitrary
subset S of the 19 ordinals has already been materialised (19 symbolic booleans), and by the representation invariant
RI (every entry stored under ordinal o is THE calendar for o) the entries are the live calendars of this process.
Every factory / lookup is verified for all S at once: the result is the calendar with the requested ordinal and id,
it is the registered object when there is one, and every write keeps RI.  So no history of earlier lookups can change
what a lookup returns."""

from __future__ import annotations

import subprocess
import sys

from pyvc import sym
from pyvc.contracts import Const, Gen, OneOf, contract
from pyvc.sym import And, Implies, Not, Or, SBool
from specs import views as V

CS = "pyoda_time._calendar_system:CalendarSystem."
N_ORD = 19


def live(o: int):
    from pyoda_time import CalendarSystem
    from pyoda_time._calendar_ordinal import _CalendarOrdinal

    return CalendarSystem._for_ordinal(_CalendarOrdinal(o))


class AbsRegistry:
    """dict[_CalendarOrdinal, CalendarSystem] in an arbitrary RI-state; writes of the current path are kept in the
    engine's overlay so that they roll back with the path."""

    pyvc_model = True
    pyvc_symbolic = True
    pyvc_pytype = dict

    def __init__(self, present: list) -> None:
        self.present = present

    def _written(self, eng, o):
        return eng.overlay.get((id(self), ("item", int(o))), None)

    def pyvc_contains(self, eng, key):
        if sym.is_sym(key):
            raise sym.Unsupported("symbolic registry key")
        if self._written(eng, key) is not None:
            return True
        return self.present[int(key)]

    def pyvc_getitem(self, eng, key):
        w = self._written(eng, key)
        if w is not None:
            return w
        if eng.truth(self.present[int(key)]):
            return live(int(key))
        eng.raise_(KeyError, repr(key))

    def get(self, key, default=None):
        from pyvc import core

        eng = core.CURRENT[0]
        w = self._written(eng, key)
        if w is not None:
            return w
        if eng.truth(self.present[int(key)]):
            return live(int(key))
        return default

    def pyvc_setitem(self, eng, key, value):
        # RI obligation: only THE calendar of ordinal `key` may be stored under `key`, and an existing entry is never replaced
        o = eng.get_attr(value, "_CalendarSystem__ordinal")
        eng.oblige(o == int(key), f"registry RI: value stored under ordinal {int(key)} has that ordinal", kind="invariant", site=eng.cur_site())
        eng.oblige(Not(self.present[int(key)]) if self._written(eng, key) is None else False, f"registry RI: entry {int(key)} is never replaced", kind="invariant", site=eng.cur_site())
        eng.set_overlay(self, ("item", int(key)), value)

    def pyvc_binop(self, eng, dn, other, reflected):
        raise sym.Unsupported("registry operator")

    def pyvc_compare(self, eng, dn, other, reflected):
        return NotImplemented

    def pyvc_concretize(self, ev, live_):
        return sorted(o for o in range(N_ORD) if ev(self.present[o]))


class RegistryG(Gen):
    def make(self, name, b):
        reg = AbsRegistry([sym.var_bool(f"{name}.has[{o}]") for o in range(N_ORD)])
        return reg


def _setup(eng):
    from pyoda_time import CalendarSystem

    reg = eng.contract_ns_registry = None
    _ = reg


def _install(eng, reg):
    from pyoda_time import CalendarSystem

    real = vars(CalendarSystem)["_CalendarSystem__CALENDAR_BY_ORDINAL"]
    eng.alias[id(real)] = reg


class _RegisteredG(RegistryG):
    """generator that also installs the alias when the engine registers inputs"""

    def make(self, name, b):
        reg = super().make(name, b)
        reg.register = lambda eng, reg=reg: _install(eng, reg)  # type: ignore[attr-defined]
        return reg


# documented id scheme (CalendarSystem.for_id docs), independent of the code under test
_DOC_IDS = {
    "ISO": "ISO", "GREGORIAN": "Gregorian", "JULIAN": "Julian", "COPTIC": "Coptic", "BADI": "Badi", "UM_AL_QURA": "Um Al Qura",
    "HEBREW_CIVIL": "Hebrew Civil", "HEBREW_SCRIPTURAL": "Hebrew Scriptural",
    "PERSIAN_SIMPLE": "Persian Simple", "PERSIAN_ARITHMETIC": "Persian Arithmetic", "PERSIAN_ASTRONOMICAL": "Persian Algorithmic",
}
for _e in ("CIVIL", "ASTRONOMICAL"):
    for _pn, _pc in (("BASE15", "Base15"), ("BASE16", "Base16"), ("INDIAN", "Indian"), ("HABASH_AL_HASIB", "HabashAlHasib")):
        _DOC_IDS[f"ISLAMIC_{_e}_{_pn}"] = f"Hijri {_e.capitalize()}-{_pc}"


def expected_id(o: int) -> str:
    from pyoda_time._calendar_ordinal import _CalendarOrdinal

    return _DOC_IDS[_CalendarOrdinal(o).name]


def is_cal(r, o, a):
    """r is the calendar for ordinal o: the registered object when o was materialised, else a new one with ordinal/id o"""
    had = a.reg.present[o]
    same = r is live(o)
    if V.fld(r, "_CalendarSystem__ordinal") != o or V.fld(r, "_CalendarSystem__id") != expected_id(o):
        return False
    if same:
        return True
    fresh_ok = True
    # a new object is only acceptable when nothing was registered for o
    return And(Not(had), fresh_ok)


def _replay(target_desc):
    def hook(vals):
        present = vals["reg"] if isinstance(vals.get("reg"), list) else []
        code = f"""
import sys
sys.path.insert(0, {sys.path[0]!r}); sys.path.insert(0, '/verif')
from pyvc import loader; loader.load()
from pyoda_time import CalendarSystem
from pyoda_time._calendar_ordinal import _CalendarOrdinal
reg = vars(CalendarSystem)['_CalendarSystem__CALENDAR_BY_ORDINAL']
reg.clear()
for o in {present!r}:
    CalendarSystem._for_ordinal(_CalendarOrdinal(o))
before = dict(reg)
{target_desc}
ok = int(r._CalendarSystem__ordinal) == want and r.id == want_id and (want not in before or before[_CalendarOrdinal(want)] is r)
print('OK' if ok else f'BAD history={present!r} -> ordinal {{int(r._CalendarSystem__ordinal)}} id {{r.id!r}}, wanted ordinal {{want}} id {{want_id!r}}')
"""
        out = subprocess.run([sys.executable, "-c", code], capture_output=True, text=True, timeout=120)
        txt = (out.stdout + out.stderr).strip()[-400:]
        return {"confirmed": txt.startswith("BAD"), "observed": txt, "history_of_materialised_ordinals": present}

    return hook


for _o in range(N_ORD):

    def _mk(o=_o):
        @contract(CS + "_for_ordinal", "C13", name=f"CalendarSystem._for_ordinal({o}) returns THE calendar {o} from every registry state (singleton per id)")
        def _(c):
            from pyoda_time._calendar_ordinal import _CalendarOrdinal

            c.ghost("reg", _RegisteredG()).arg("ordinal", Const(_CalendarOrdinal(o)))
            c.pure = False
            c.allow_mutation = lambda obj, n: True
            c.crosscheck = 0
            c.max_paths = 2000000
            c.timeout_s = 60
            c.returns(lambda a, r: is_cal(r, o, a))
            c.replay_hook = _replay(f"want = {o}; want_id = {expected_id(o)!r}; r = CalendarSystem._for_ordinal(_CalendarOrdinal({o}))")

    _mk()


def _islamic_cases():
    from pyoda_time.calendars import IslamicEpoch, IslamicLeapYearPattern

    return [(p, e) for e in IslamicEpoch for p in IslamicLeapYearPattern]


def _mk_islamic(p, e):
    from pyoda_time import CalendarSystem

    want = int(CalendarSystem.get_islamic_calendar(p, e)._CalendarSystem__ordinal) if False else None
    # the expected ordinal comes from the documented id scheme, not from the function under test
    from pyoda_time._calendar_ordinal import _CalendarOrdinal

    name = f"ISLAMIC_{e.name}_{p.name}"
    o = int(_CalendarOrdinal[name])
    _ = want

    @contract(CS + "get_islamic_calendar", "C13", name=f"CalendarSystem.get_islamic_calendar({p.name}, {e.name}) returns THE calendar {name} from every registry state")
    def _(c):
        c.ghost("reg", _RegisteredG()).arg("leap_year_pattern", Const(p)).arg("epoch", Const(e))
        c.pure = False
        c.allow_mutation = lambda obj, n: True
        c.crosscheck = 0
        c.max_paths = 2000000
        c.timeout_s = 60
        c.returns(lambda a, r: is_cal(r, o, a))
        c.replay_hook = _replay(f"from pyoda_time.calendars import IslamicEpoch, IslamicLeapYearPattern\nwant = {o}; want_id = {expected_id(o)!r}; r = CalendarSystem.get_islamic_calendar(IslamicLeapYearPattern.{p.name}, IslamicEpoch.{e.name})")


for _p, _e in _islamic_cases():
    _mk_islamic(_p, _e)


def _mk_hebrew(numbering):
    from pyoda_time._calendar_ordinal import _CalendarOrdinal

    o = int(_CalendarOrdinal["HEBREW_" + numbering.name])

    @contract(CS + "get_hebrew_calendar", "C13", name=f"CalendarSystem.get_hebrew_calendar({numbering.name}) returns THE calendar HEBREW_{numbering.name} from every registry state")
    def _(c):
        c.ghost("reg", _RegisteredG()).arg("month_numbering", Const(numbering))
        c.pure = False
        c.allow_mutation = lambda obj, n: True
        c.crosscheck = 0
        c.max_paths = 2000000
        c.timeout_s = 60
        c.returns(lambda a, r: is_cal(r, o, a))
        c.replay_hook = _replay(f"from pyoda_time.calendars import HebrewMonthNumbering\nwant = {o}; want_id = {expected_id(o)!r}; r = CalendarSystem.get_hebrew_calendar(HebrewMonthNumbering.{numbering.name})")


def _hebrew():
    from pyoda_time.calendars import HebrewMonthNumbering

    for n in HebrewMonthNumbering:
        _mk_hebrew(n)


_hebrew()


def _ids():
    return sorted(_DOC_IDS.values())


for _id in _ids():

    def _mk_id(cid=_id):
        from pyoda_time._calendar_ordinal import _CalendarOrdinal

        o = int(_CalendarOrdinal[next(k for k, v in _DOC_IDS.items() if v == cid)])

        @contract(CS + "for_id", "C13", name=f"CalendarSystem.for_id({cid!r}) returns the same calendar whatever was materialised before")
        def _(c):
            c.ghost("reg", _RegisteredG()).arg("id_", Const(cid))
            c.pure = False
            c.allow_mutation = lambda obj, n: True
            c.crosscheck = 0
            c.max_paths = 2000000
            c.timeout_s = 60
            c.returns(lambda a, r: is_cal(r, o, a))
            c.replay_hook = _replay(f"want = {o}; want_id = {cid!r}; r = CalendarSystem.for_id({cid!r})")

    _mk_id()


_ = (Implies, Or, OneOf)
