"""C16 -- week-year rules (all 71 rules as symbolic parameters) and weekday navigation, over the calendar contract CAL."""

from __future__ import annotations

from pyvc.contracts import Bool, Const, Int, Obj, contract
from pyvc.sym import And, Iff, Implies, Not, Or, ite
from specs import cal_abs as CA
from specs import views as V

from .c01_generic import ld_dse, ld_valid_in, system_self
from .gens import AbsCalG, LocalDateG

H = "harness.weeks:"
R = "pyoda_time.calendars._simple_week_year_rule:_SimpleWeekYearRule."
LD = "pyoda_time._local_date:LocalDate."


def RuleG() -> Obj:
    return Obj(
        "pyoda_time.calendars._simple_week_year_rule:_SimpleWeekYearRule",
        {"_SimpleWeekYearRule__min_days_in_first_week": Int(1, 7), "_SimpleWeekYearRule__first_day_of_week": Int(1, 7), "_SimpleWeekYearRule__irregular_weeks": Bool()},
    )


from specs.week_models import W, WEEKS, WY, dow, first, irregular, mind, wy_range  # noqa: E402,F401
from specs import week_models as WM  # noqa: E402


def _setup(eng):
    from specs import cal_abs, field_models

    cal_abs.install(eng)
    field_models.install(eng)


@contract(H + "week_year_start", "C16", name="_SimpleWeekYearRule: start of a week-year follows the rule's definition (all 98 parameter combinations, symbolic)")
def _(c):
    c.ghost("cal", AbsCalG()).arg("rule", RuleG()).arg("calendar", system_self()).arg("year", Int())
    c.requires(lambda a: And(a.year >= a.cal.min_year - 1, a.year <= a.cal.max_year + 1))
    c.returns(lambda a, r: And(r == W(a.rule, a.cal.cid, a.year), dow(r) == first(a.rule), r >= CA.soy(a.cal.cid, a.year) - 6, r <= CA.soy(a.cal.cid, a.year) + 6))


def _setup_with(*which):
    def setup(eng):
        _setup(eng)
        WM.install(eng, set(which))

    return setup


@contract(R + "get_weeks_in_week_year", "C16", name="_SimpleWeekYearRule.get_weeks_in_week_year == WEEKS(rule, y); ValueError outside the rule's week-year range")
def _(c):
    c.ghost("cal", AbsCalG()).arg("self", RuleG()).arg("week_year", Int()).arg("calendar", system_self())
    c.setup = _setup_with("W")
    ok = lambda a: And(a.week_year >= wy_range(a.self, a.cal)[0], a.week_year <= wy_range(a.self, a.cal)[1])  # noqa: E731
    c.returns(lambda a, r: And(r == WEEKS(a.self, a.cal.cid, a.week_year), r >= 1), when=ok)
    c.raises(ValueError, when=lambda a: Not(ok(a)))
    c.timeout_s = 60


@contract(H + "weeks_tile", "C16", name="_SimpleWeekYearRule: regular week-years tile the day line; irregular ones are cut at the year boundary")
def _(c):
    c.ghost("cal", AbsCalG()).arg("rule", RuleG()).arg("calendar", system_self()).arg("year", Int())
    c.setup = _setup_with("W")
    c.requires(lambda a: And(a.year >= a.cal.min_year, a.year <= a.cal.max_year - 1))
    c.returns(
        lambda a, r: And(
            r[2] >= 42, r[2] <= 59,
            Implies(Not(irregular(a.rule)), r[0] + 7 * r[2] == r[1]),
            Implies(irregular(a.rule), And(r[0] + 7 * (r[2] - 1) <= CA.soy(a.cal.cid, a.year + 1) - 1, CA.soy(a.cal.cid, a.year + 1) - 1 < r[0] + 7 * r[2])),
        )
    )


@contract(R + "get_week_year", "C16", name="_SimpleWeekYearRule.get_week_year == WY(rule, date)")
def _(c):
    c.ghost("cal", AbsCalG()).arg("self", RuleG()).arg("date", LocalDateG())
    c.setup = _setup_with("W", "WEEKS")
    c.requires(lambda a: And(V.ld_y(a.date) > a.cal.min_year, V.ld_y(a.date) < a.cal.max_year))
    c.returns(lambda a, r: r == WY(a.self, a.cal.cid, V.ld_y(a.date), ld_dse(a, a.date)))
    c.timeout_s = 60


@contract(R + "get_week_of_week_year", "C16", name="_SimpleWeekYearRule.get_week_of_week_year == (day - W(week-year)) // 7 + 1: weeks advance by one every seven days from the rule's first day of week")
def _(c):
    c.ghost("cal", AbsCalG()).arg("self", RuleG()).arg("date", LocalDateG())
    c.setup = _setup_with("W", "WEEKS", "WY")
    c.requires(lambda a: And(V.ld_y(a.date) > a.cal.min_year, V.ld_y(a.date) < a.cal.max_year))

    def post(a, r):
        n = ld_dse(a, a.date)
        wy = WY(a.self, a.cal.cid, V.ld_y(a.date), n)
        ws = W(a.self, a.cal.cid, wy)
        return And(r == (n - ws) // 7 + 1, n >= ws, r >= 1, r <= WEEKS(a.self, a.cal.cid, wy), dow(ws) == first(a.self))

    c.returns(post)
    c.timeout_s = 90


@contract(R + "get_local_date", "C16", name="_SimpleWeekYearRule.get_local_date lands on W(week-year) + 7*(week-1) + weekday offset, or ValueError")
def _(c):
    c.ghost("cal", AbsCalG()).arg("self", RuleG()).arg("week_year", Int()).arg("week", Int()).arg("day_of_week", Int()).arg("calendar", system_self())
    c.setup = _setup_with("W", "WEEKS", "WY")
    c.requires(lambda a: And(a.week_year > a.cal.min_year, a.week_year < a.cal.max_year))
    target = lambda a: W(a.self, a.cal.cid, a.week_year) + 7 * (a.week - 1) + (a.day_of_week - first(a.self)) % 7  # noqa: E731
    okargs = lambda a: And(a.day_of_week >= 1, a.day_of_week <= 7, a.week >= 1, a.week <= WEEKS(a.self, a.cal.cid, a.week_year))  # noqa: E731

    def post(a, r):
        return And(okargs(a), ld_valid_in(a.cal, r), ld_dse(a, r) == target(a), dow(ld_dse(a, r)) == a.day_of_week)

    c.returns(post)
    # invalid arguments, or (irregular rules) a day of the cut week that belongs to the neighbouring week-year
    c.raises(ValueError, when=lambda a: Or(Not(okargs(a)), irregular(a.self)))
    c.timeout_s = 90


def _mk_roundtrip(irr: bool) -> None:
    @contract(H + "wy_roundtrip", "C16", name=f"_SimpleWeekYearRule(irregular={irr}): (week-year, week, weekday) of a date converts back to the same date (lemma over the method contracts)")
    def _(c):
        rule = Obj(
            "pyoda_time.calendars._simple_week_year_rule:_SimpleWeekYearRule",
            {"_SimpleWeekYearRule__min_days_in_first_week": Int(1, 7), "_SimpleWeekYearRule__first_day_of_week": Int(1, 7), "_SimpleWeekYearRule__irregular_weeks": Const(irr)},
        )
        c.ghost("cal", AbsCalG()).arg("rule", rule).arg("date", LocalDateG())
        c.setup = _setup_with("W", "WEEKS", "WY")
        c.timeout_s = 200
        c.vc_chunks = 6
        c.requires(lambda a: And(V.ld_y(a.date) > a.cal.min_year + 1, V.ld_y(a.date) < a.cal.max_year - 1))

        def post(a, r):
            wy, w, weeks, back = r
            return And(back == ld_dse(a, a.date), w >= 1, w <= weeks)

        c.returns(post)


_mk_roundtrip(False)
_mk_roundtrip(True)


@contract(LD + "next", "C16", name="LocalDate.next(weekday) is the nearest strictly later date with that weekday")
def _(c):
    c.ghost("cal", AbsCalG()).arg("self", LocalDateG()).arg("target", Int(1, 7))
    c.setup = _setup
    n = lambda a: ld_dse(a, a.self)  # noqa: E731
    inr = lambda a, t: And(t >= CA.soy(a.cal.cid, a.cal.min_year), t <= CA.soy(a.cal.cid, a.cal.max_year + 1) - 1)  # noqa: E731
    c.returns(lambda a, r: And(ld_valid_in(a.cal, r), ld_dse(a, r) > n(a), ld_dse(a, r) <= n(a) + 7, dow(ld_dse(a, r)) == a.target))
    c.raises(OverflowError, ValueError, when=lambda a: Not(inr(a, n(a) + (a.target - dow(n(a)) - 1) % 7 + 1)))


@contract(LD + "previous", "C16", name="LocalDate.previous(weekday) is the nearest strictly earlier date with that weekday")
def _(c):
    c.ghost("cal", AbsCalG()).arg("self", LocalDateG()).arg("target", Int(1, 7))
    c.setup = _setup
    n = lambda a: ld_dse(a, a.self)  # noqa: E731
    inr = lambda a, t: And(t >= CA.soy(a.cal.cid, a.cal.min_year), t <= CA.soy(a.cal.cid, a.cal.max_year + 1) - 1)  # noqa: E731
    c.returns(lambda a, r: And(ld_valid_in(a.cal, r), ld_dse(a, r) < n(a), ld_dse(a, r) >= n(a) - 7, dow(ld_dse(a, r)) == a.target))
    c.raises(OverflowError, ValueError, when=lambda a: Not(inr(a, n(a) - ((dow(n(a)) - a.target - 1) % 7 + 1))))


# ------------------------------------------------------------------------------------------ n-th weekday of a month (ISO through CAL)
from .gens import IsoAbsCalG  # noqa: E402

LDC = "pyoda_time._local_date:LocalDate."


@contract(LDC + "from_year_month_week_and_day", "C16", name="LocalDate.from_year_month_week_and_day returns the n-th (or last, for 5) occurrence of the requested weekday in that month")
def _(c):
    c.ghost("cal", IsoAbsCalG()).arg("year", Int()).arg("month", Int()).arg("occurrence", Int(1, 5)).arg("day_of_week", Int(1, 7))
    c.setup = _setup
    c.requires(lambda a: And(a.year >= a.cal.min_year, a.year <= a.cal.max_year, a.month >= 1, a.month <= CA.miy(a.cal.cid, a.year), CA.dim(a.cal.cid, a.year, a.month) >= 28))

    def post(a, r):
        d = V.ld_d(r)
        dim = CA.dim(a.cal.cid, a.year, a.month)
        nth = (d - 1) // 7 + 1
        return And(ld_valid_in(a.cal, r), V.ld_y(r) == a.year, V.ld_m(r) == a.month, dow(ld_dse(a, r)) == a.day_of_week, Or(nth == a.occurrence, And(a.occurrence == 5, nth == 4, d + 7 > dim)))

    c.returns(post)
    c.timeout_s = 60


# ------------------------------------------------------------------------------------------ ISO 8601
@contract("harness.cal:lemma", "C16", name="lemma: the (4, MONDAY, regular) rule is ISO 8601 -- week 1 is the Monday-based week containing the year's first Thursday (4 January)")
def _(c):
    c.ghost("cal", AbsCalG()).ghost("y", Int())
    rule = Obj(
        "pyoda_time.calendars._simple_week_year_rule:_SimpleWeekYearRule",
        {"_SimpleWeekYearRule__min_days_in_first_week": Const(4), "_SimpleWeekYearRule__first_day_of_week": Const(1), "_SimpleWeekYearRule__irregular_weeks": Const(False)},
    )
    c.ghost("rule", rule)
    c.requires(lambda a: And(a.y >= a.cal.min_year, a.y <= a.cal.max_year))

    def post(a, r):
        w = W(a.rule, a.cal.cid, a.y)
        jan4 = CA.soy(a.cal.cid, a.y) + 3
        return And(dow(w) == 1, w <= jan4, jan4 <= w + 6, Or(*[And(dow(w + k) == 4, w + k >= CA.soy(a.cal.cid, a.y), w + k <= CA.soy(a.cal.cid, a.y) + 6) for k in range(7)]))

    c.returns(post)
    c.crosscheck = 0


# ------------------------------------------------------------------------------------------ stock adjusters and the date-time variants
from pyvc.contracts import Const, EnumInt  # noqa: E402

from .gens import LocalDateTimeG  # noqa: E402

HW = "harness.weeks:"
LDTC = "pyoda_time._local_date_time:LocalDateTime."


def _in_cal(a, t):
    return And(t >= CA.soy(a.cal.cid, a.cal.min_year), t <= CA.soy(a.cal.cid, a.cal.max_year + 1) - 1)


def _mk_adjuster(kind):
    @contract(HW + "adjust", "C16", name=f"DateAdjusters.{kind}: the nearest date with that weekday on the stated side (same date allowed for *_or_same)")
    def _(c):
        c.ghost("cal", AbsCalG()).arg("kind", Const(kind)).arg("arg", EnumInt("pyoda_time._iso_day_of_week:IsoDayOfWeek", 1, 7)).arg("date", LocalDateG())
        c.setup = _setup
        n = lambda a: ld_dse(a, a.date)  # noqa: E731
        fwd = kind.startswith("next")
        same = kind.endswith("or_same")

        def post(a, r):
            d = ld_dse(a, r)
            lo, hi = (0 if same else 1), (6 if same else 7)
            side = And(d - n(a) >= lo, d - n(a) <= hi) if fwd else And(n(a) - d >= lo, n(a) - d <= hi)
            return And(ld_valid_in(a.cal, r), side, dow(d) == a.arg)

        c.returns(post)
        c.raises(OverflowError, ValueError, when=lambda a: Or(Not(_in_cal(a, n(a) + 7)), Not(_in_cal(a, n(a) - 7))))

    return _


for _k in ("next", "previous", "next_or_same", "previous_or_same"):
    _mk_adjuster(_k)


for _k, _first in (("start_of_month", True), ("end_of_month", False)):

    def _mk_month(kind=_k, first=_first):
        @contract(HW + "adjust", "C16", name=f"DateAdjusters.{kind}: the {'first' if first else 'last'} day of the date's month")
        def _(c):
            c.ghost("cal", AbsCalG()).arg("kind", Const(kind)).arg("arg", Const(None)).arg("date", LocalDateG())
            c.setup = _setup
            c.returns(lambda a, r: And(ld_valid_in(a.cal, r), V.ld_y(r) == V.ld_y(a.date), V.ld_m(r) == V.ld_m(a.date), V.ld_d(r) == (1 if first else CA.dim(a.cal.cid, V.ld_y(a.date), V.ld_m(a.date)))))

    _mk_month()


for _k, _fwd in (("next", True), ("previous", False)):

    def _mk_ldt(kind=_k, fwd=_fwd):
        @contract(LDTC + kind, "C16", name=f"LocalDateTime.{kind}(weekday): the date moves like LocalDate.{kind}, the time of day is kept")
        def _(c):
            c.ghost("cal", AbsCalG()).arg("self", LocalDateTimeG()).arg("target_day_of_week", Int(1, 7))
            c.setup = _setup
            n = lambda a: ld_dse(a, V.ldt_date(a.self))  # noqa: E731

            def post(a, r):
                d = ld_dse(a, V.ldt_date(r))
                side = And(d > n(a), d <= n(a) + 7) if fwd else And(d < n(a), d >= n(a) - 7)
                return And(ld_valid_in(a.cal, V.ldt_date(r)), side, dow(d) == a.target_day_of_week, V.lt_nanos(V.ldt_time(r)) == V.lt_nanos(V.ldt_time(a.self)))

            c.returns(post)
            c.raises(OverflowError, ValueError, when=lambda a: Or(Not(_in_cal(a, n(a) + 7)), Not(_in_cal(a, n(a) - 7))))

    _mk_ldt()
