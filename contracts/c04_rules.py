"""C04 / C06 -- the yearly rule: _ZoneYearOffset._get_occurrence_for_year against plain calendar arithmetic, for every
rule (month, day-of-month incl. negative = from the end, day-of-week with advance/retreat, 24:00 flag, time of day)
and every year, over the ISO calendar seen through the calendar interface contract."""

from __future__ import annotations

from pyvc.contracts import Bool, Const, Int, Obj, OneOf, contract
from pyvc.sym import And, Implies, Not, Or, ite
from specs import cal_abs as CA
from specs import views as V

from .gens import IsoStdCalG, LocalTimeG

ZYO = "pyoda_time.time_zones._zone_year_offset:_ZoneYearOffset."
P = "_ZoneYearOffset__"


def _setup(eng):
    # modular: LocalDate.plus_days through the day field's contract (exact day arithmetic, proved in c09_date_fields.py)
    from specs import cal_abs, field_models

    cal_abs.install(eng)
    field_models.install(eng)


def YearOffsetG():
    from pyoda_time.time_zones._transition_mode import _TransitionMode

    return Obj(
        "pyoda_time.time_zones._zone_year_offset:_ZoneYearOffset",
        {
            P + "transition_mode": Const(_TransitionMode.WALL),
            P + "day_of_month": Int(-31, 31),
            P + "day_of_week": Int(0, 7),
            P + "month_of_year": Int(1, 12),
            # concrete flags (four variants): keeps the merged return paths small
            P + "add_day": OneOf([False, True]),
            P + "advance_day_of_week": OneOf([False, True]),
            P + "time_of_day": LocalTimeG(),
        },
        inv=lambda o: V.fld(o, P + "day_of_month") != 0,
    )


def weekday(n):
    return (n + 3) % 7 + 1


def rule(a):
    """(valid, D, overflow_after_max) of the spec: the day number the rule denotes in year a.year"""
    o, y, c = a.self, a.year, a.cal.cid
    dom, dow, mon = V.fld(o, P + "day_of_month"), V.fld(o, P + "day_of_week"), V.fld(o, P + "month_of_year")
    dim = CA.dim(c, y, mon)
    actual = ite(dom > 0, dom, dim + dom + 1)
    actual = ite(And(mon == 2, dom == 29, Not(CA.leap(c, y))), 28, actual)
    valid = And(y >= a.cal.min_year, y <= a.cal.max_year, actual >= 1, actual <= dim)
    base = CA.dse(c, y, mon, actual)
    return valid, base


@contract(ZYO + "_get_occurrence_for_year", "C04", "C06", name="_ZoneYearOffset._get_occurrence_for_year: the rule's day by plain calendar arithmetic (last-day counting, Feb 29, weekday advance/retreat, 24:00) plus the time of day, for every rule and year")
def _(c):
    c.ghost("cal", IsoStdCalG("cal")).arg("self", YearOffsetG()).arg("year", Int())
    c.setup = _setup
    c.timeout_s = 60  # x6 in the thorough tier
    c.max_paths = 20000
    c.vc_chunks = 1
    c.tiers = ("thorough",)  # four obligations need 20-120 s each (cvc5); the quick tier decides the property's own domain (the stored rules) below

    def in_range(a, d):
        return And(d >= CA.soy(a.cal.cid, a.cal.min_year), d <= CA.soy(a.cal.cid, a.cal.max_year + 1) - 1)

    def fields(a):
        o = a.self
        return V.fld(o, P + "day_of_week"), V.fld(o, P + "advance_day_of_week"), V.fld(o, P + "add_day"), V.lt_nanos(V.fld(o, P + "time_of_day"))

    def adj(a):
        """the weekday adjustment as a function of the base day: 0 when no weekday is asked for or the base day already has
        it, else the distance to the next (advance) / previous (retreat) day with that weekday"""
        dow, adv, add, tod = fields(a)
        wd = weekday(rule(a)[1])
        diff = dow - wd
        return ite(Or(dow == 0, diff == 0), 0, ite(diff > 0, ite(adv, diff, diff - 7), ite(adv, diff + 7, diff)))

    # LEMMA (own obligation, pure arithmetic): base + adj has the requested weekday and lies within the week after / before base
    def adj_lemma(a):
        dow, adv, add, tod = fields(a)
        base = rule(a)[1]
        d = base + adj(a)
        return Implies(dow != 0, And(weekday(d) == dow, Implies(adv, And(d >= base, d <= base + 6)), Implies(Not(adv), And(d <= base, d >= base - 6))))

    c.lemma(adj_lemma)

    def post(a, r):
        valid, base = rule(a)
        dow, adv, add, tod = fields(a)
        n = V.linst_ns(r)
        d = base + adj(a)
        normal = And(Not(V.is_after_max(r, "_LocalInstant")), n == (d + (1 if add else 0)) * V.NPD + tod)
        # 24:00 on 9999-12-31 has no representable next day: the 'after the end of time' marker
        special = And(V.is_after_max(r, "_LocalInstant"), add, a.year == 9999)
        return And(valid, Or(normal, special) if add else normal)

    c.returns(post)
    c.raises(ValueError, OverflowError, when=lambda a: Or(Not(rule(a)[0]), Not(in_range(a, rule(a)[1] - 7)), Not(in_range(a, rule(a)[1] + 8))))


_ = (OneOf,)



# ------------------------------------------------------------------------------------------------- the property's own domain: every stored rule, every year
def _stored_rules():
    """distinct yearly rules of both real database files (decoded by the independent decoder specs/nzd.py)"""
    import os

    from pyvc import loader
    from specs import nzd

    rules = set()
    for path in (os.path.join(loader.REPO, "pyoda_time", "time_zones", "Tzdb.nzd"), os.path.join(loader.REPO, "tests", "test_data", "Tzdb2013bFromNodaTime1.1.nzd")):
        if not os.path.exists(path):
            continue
        with open(path, "rb") as f:
            dec = nzd.decode_file(f.read())
        for z in dec["zones"].values():
            if z.get("tail"):
                rules.add(z["tail"]["std"][1:])
                rules.add(z["tail"]["dst"][1:])
    return sorted(rules)


def _real_rule(t):
    from pyoda_time import LocalTime
    from pyoda_time.time_zones._transition_mode import _TransitionMode
    from pyoda_time.time_zones._zone_year_offset import _ZoneYearOffset

    mode, month, dom, dow, advance, add_day, ms = t
    return _ZoneYearOffset._ctor(_TransitionMode(mode), month, dom, dow, advance, LocalTime.from_milliseconds_since_midnight(ms), add_day)


def _ground():
    out = []
    for t in _stored_rules():
        obj = _real_rule(t)
        for y in range(1, 10000):
            out.append({"self": obj, "year": y, "rule": t})
    return out


@contract(ZYO + "_get_occurrence_for_year", "C04", "C06", name="every yearly rule stored in the two database files x every year 1..9999: occurrence == independent calendar arithmetic (datetime.date)")
def _(c):
    from specs import nzd

    c.arg("self", Int()).arg("year", Int())
    c.ground = _ground
    c.ground_chunks = 16
    c.ground_interp_stride = 20011
    c.allow_mutation = lambda obj, n: True

    def post(a, r):
        want = nzd.rule_local_ticks(("",) + tuple(a.rule), a.year)
        if want == nzd.INF:
            return not r._is_valid
        return r._is_valid and r._time_since_local_epoch.to_nanoseconds() == want * 100

    c.returns(post)


@contract(ZYO + "_get_occurrence_for_year", "C04", name="YEAR-LOCAL discharged for the real data: for every stored rule and every year 1..9999 the occurrence lies in that year (the interface fact the recurrence contracts rely on)")
def _(c):
    import datetime as _dt

    c.arg("self", Int()).arg("year", Int())
    c.ground = _ground
    c.ground_chunks = 16
    c.ground_interp_stride = 10**9
    c.allow_mutation = lambda obj, n: True
    epoch = _dt.date(1970, 1, 1).toordinal()

    def post(a, r):
        if not r._is_valid:
            return a.year == 9999  # 24:00 on the last day of the last year: the end-of-time marker
        days = r._time_since_local_epoch.floor_days if hasattr(r._time_since_local_epoch, "floor_days") else r._time_since_local_epoch._floor_days
        return _dt.date.fromordinal(days + epoch).year == a.year

    c.returns(post)
