"""C04 / C06 -- the yearly rule: _ZoneYearOffset._get_occurrence_for_year against plain calendar arithmetic, for every
rule (month, day-of-month incl. negative = from the end, day-of-week with advance/retreat, 24:00 flag, time of day)
and every year, over the ISO calendar seen through the calendar interface contract."""

from __future__ import annotations

from pyvc.contracts import Bool, Const, Int, Obj, OneOf, contract
from pyvc.sym import And, Implies, Not, Or, ite
from specs import cal_abs as CA
from specs import views as V

from .gens import IsoStdCalG, LocalTimeG

ZYO = "pyoda_time.time_zones._zone_year_offset:_ZoneYearOffset."
P = "_ZoneYearOffset__"


def _setup(eng):
    from specs import cal_abs

    cal_abs.install(eng)


def YearOffsetG():
    from pyoda_time.time_zones._transition_mode import _TransitionMode

    return Obj(
        "pyoda_time.time_zones._zone_year_offset:_ZoneYearOffset",
        {
            P + "transition_mode": Const(_TransitionMode.WALL),
            P + "day_of_month": Int(-31, 31),
            P + "day_of_week": Int(0, 7),
            P + "month_of_year": Int(1, 12),
            P + "add_day": Bool(),
            P + "advance_day_of_week": Bool(),
            P + "time_of_day": LocalTimeG(),
        },
        inv=lambda o: V.fld(o, P + "day_of_month") != 0,
    )


def weekday(n):
    return (n + 3) % 7 + 1


def rule(a):
    """(valid, D, overflow_after_max) of the spec: the day number the rule denotes in year a.year"""
    o, y, c = a.self, a.year, a.cal.cid
    dom, dow, mon = V.fld(o, P + "day_of_month"), V.fld(o, P + "day_of_week"), V.fld(o, P + "month_of_year")
    dim = CA.dim(c, y, mon)
    actual = ite(dom > 0, dom, dim + dom + 1)
    actual = ite(And(mon == 2, dom == 29, Not(CA.leap(c, y))), 28, actual)
    valid = And(y >= a.cal.min_year, y <= a.cal.max_year, actual >= 1, actual <= dim)
    base = CA.dse(c, y, mon, actual)
    return valid, base


@contract(ZYO + "_get_occurrence_for_year", "C04", "C06", name="_ZoneYearOffset._get_occurrence_for_year: the rule's day by plain calendar arithmetic (last-day counting, Feb 29, weekday advance/retreat, 24:00) plus the time of day, for every rule and year")
def _(c):
    c.ghost("cal", IsoStdCalG("cal")).arg("self", YearOffsetG()).arg("year", Int())
    c.setup = _setup
    c.timeout_s = 120
    c.max_paths = 20000
    c.vc_chunks = 4

    def in_range(a, d):
        return And(d >= CA.soy(a.cal.cid, a.cal.min_year), d <= CA.soy(a.cal.cid, a.cal.max_year + 1) - 1)

    def post(a, r):
        valid, base = rule(a)
        o = a.self
        dow, adv, add = V.fld(o, P + "day_of_week"), V.fld(o, P + "advance_day_of_week"), V.fld(o, P + "add_day")
        tod = V.lt_nanos(V.fld(o, P + "time_of_day"))
        last_day = CA.soy(a.cal.cid, 10000) - 1
        if V.isinst(r, "_LocalInstant") and not hasattr(r, "fields"):
            pass
        after_max = V.is_after_max(r, "_LocalInstant")
        n = V.linst_ns(r)
        # D: the day after the weekday adjustment (described, not computed): right weekday, within a week on the right side
        d = ite(add, n // V.NPD - 1, n // V.NPD)
        day_ok = And(
            Implies(dow == 0, d == base),
            Implies(dow != 0, And(weekday(d) == dow, Implies(adv, And(d >= base, d <= base + 6)), Implies(Not(adv), And(d <= base, d >= base - 6)))),
        )
        normal = And(Not(after_max), n % V.NPD == tod, day_ok)
        # 24:00 on 9999-12-31 has no representable next day: the 'after the end of time' marker
        special = And(after_max, add, a.year == 9999)
        return And(valid, Or(normal, special))

    c.returns(post)
    c.raises(ValueError, OverflowError, when=lambda a: Or(Not(rule(a)[0]), Not(in_range(a, rule(a)[1] - 7)), Not(in_range(a, rule(a)[1] + 8))))


_ = (OneOf,)
