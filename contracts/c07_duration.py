"""C07 -- Duration patterns (invariant culture): parse(format(d)) == d to the resolution of the pattern's fields, for
EVERY duration (symbolic execution of the real format and parse actions the builder produced for that text)."""

from __future__ import annotations

from pyvc.contracts import Const, contract
from pyvc.sym import And, ite, trunc_div
from specs import views as V

from .c17_iso import H, _pat, _setup, hms_lemma
from .gens import DurationG

DURATION_PATTERNS = {
    # pattern text: nanoseconds kept (unit): parse(format(d)) == trunc(d / unit) * unit
    "-D:hh:mm:ss": V.NPS,
    "-D:hh:mm": V.NPM,
    "-H:mm:ss": V.NPS,
    "-M:ss": V.NPS,
    "-D:hh:mm:ss.fffffffff": 1,
}

for _pt, _unit in DURATION_PATTERNS.items():

    def _mk(pt=_pt, unit=_unit):
        @contract(H + "pattern_rt", "C07", name=f"DurationPattern({pt!r}): parse(format(d)) == d truncated towards zero to the pattern's resolution, for every duration")
        def _(c):
            c.arg("pattern", Const(_pat(f"T.DurationPattern.create_with_invariant_culture({pt!r})"))).arg("value", DurationG())
            c.setup = _setup
            c.timeout_s = 120
            c.max_paths = 60000
            c.weight = 8 if "fff" in pt else 3  # long ones first in the pool
            # the fields are cut from |nanosecond of day|, which is the stored nanosecond of the floor day for d >= 0 and its
            # complement to a day otherwise
            c.lemma(lambda a: hms_lemma(V.d_nano(a.value)))
            c.lemma(lambda a: hms_lemma(ite(V.d_nano(a.value) == 0, 0, V.NPD - V.d_nano(a.value))))
            c.returns(lambda a, r: And(r[0], V.ns(r[1]) == trunc_div(V.ns(a.value), unit) * unit) if r[1] is not None else False)

    _mk()
