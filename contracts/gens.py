"""Symbolic input generators for the value types."""

from __future__ import annotations

from pyvc.contracts import Int, Obj
from specs import views as V


def DurationG() -> Obj:
    return Obj("pyoda_time._duration:Duration", {"_Duration__days": Int(), "_Duration__nano_of_day": Int()}, inv=V.inv_duration)


def OffsetG() -> Obj:
    return Obj("pyoda_time._offset:Offset", {"_Offset__seconds": Int()}, inv=V.inv_offset)


def InstantG() -> Obj:
    return Obj("pyoda_time._instant:Instant", {"_Instant__duration": DurationG()}, inv=V.inv_instant_valid)


def LocalTimeG() -> Obj:
    return Obj("pyoda_time._local_time:LocalTime", {"_LocalTime__nanoseconds": Int()}, inv=V.inv_local_time)


def InstantAnyG() -> Obj:
    return Obj("pyoda_time._instant:Instant", {"_Instant__duration": DurationG()}, inv=V.inv_instant_any)


def LocalInstantG() -> Obj:
    return Obj("pyoda_time._local_instant:_LocalInstant", {"_LocalInstant__duration": DurationG()}, inv=V.inv_linstant_valid)


def LocalInstantAnyG() -> Obj:
    return Obj("pyoda_time._local_instant:_LocalInstant", {"_LocalInstant__duration": DurationG()}, inv=V.inv_linstant_any)


# ------------------------------------------------------------------------------------------ abstract calendars
from pyvc.contracts import Gen  # noqa: E402


class AbsCalG(Gen):
    """A symbolic calendar satisfying the CAL interface contract (specs/cal_abs.py)."""

    def __init__(self, name: str = "cal") -> None:
        self.name = name

    def make(self, name, b):
        from specs import cal_abs

        ac = cal_abs.new_calendar(b, self.name)
        b.named[self.name] = ac
        return ac

    def concretize(self, v, ev, live):
        return v

    def realize(self, v, ev, ctx):
        from specs import cal_abs

        o = ctx.get("ordinal_override", {}).get(self.name)
        if o is None:
            o = ev(v.ordinal)
        cc = cal_abs.ConcreteCal(o)
        ctx.setdefault("cals", {})[self.name] = cc
        return cc


class YmdG(Gen):
    """A valid (year, month, day) of the named abstract calendar, as a packed _YearMonthDay (with ghost components)."""

    def __init__(self, cal: str = "cal", valid: bool = True) -> None:
        self.cal, self.valid = cal, valid

    def make(self, name, b):
        from pyvc import sym
        from pyvc.values import SObj
        from pyoda_time._year_month_day import _YearMonthDay
        from specs import packmodel

        ac = b.named[self.cal]
        y, m, d = sym.var_int(f"{name}.y"), sym.var_int(f"{name}.m"), sym.var_int(f"{name}.d")
        if self.valid:
            b.assume(ac.valid_date(y, m, d))
            for ax in ac.ax_year(y) + [ac.ax_month(y, m)]:
                b.assume(ax)
        return SObj(_YearMonthDay, {"_YearMonthDay__value": packmodel.pack_ymd(y, m, d), "$y": y, "$m": m, "$d": d}, owner=-1, tag=name)

    def realize(self, v, ev, ctx):
        from pyoda_time._year_month_day import _YearMonthDay

        cc = ctx["cals"][self.cal]
        y, m, d = cc.clamp(ev(v.fields["$y"]), ev(v.fields["$m"]), ev(v.fields["$d"]))
        o = _YearMonthDay._ctor(year=y, month=m, day=d)
        for k, x in (("$y", y), ("$m", m), ("$d", d)):
            object.__setattr__(o, k, x)
        return o


class LocalDateG(Gen):
    """A valid LocalDate of the named abstract calendar."""

    def __init__(self, cal: str = "cal") -> None:
        self.cal = cal

    def make(self, name, b):
        from pyvc import sym
        from pyvc.values import SObj
        from pyoda_time._local_date import LocalDate
        from pyoda_time._year_month_day_calendar import _YearMonthDayCalendar
        from specs import packmodel

        ac = b.named[self.cal]
        y, m, d = sym.var_int(f"{name}.y"), sym.var_int(f"{name}.m"), sym.var_int(f"{name}.d")
        b.assume(ac.valid_date(y, m, d))
        for ax in ac.ax_year(y) + ac.ax_year(y + 1) + [ac.ax_month(y, m)]:
            b.assume(ax)
        ymdc = SObj(_YearMonthDayCalendar, {"_YearMonthDayCalendar__value": packmodel.pack_ymd(y, m, d) * 64 + ac.ordinal, "$y": y, "$m": m, "$d": d, "$o": ac.ordinal}, owner=-1, tag=name + ".ymdc")
        return SObj(LocalDate, {"_LocalDate__year_month_day_calendar": ymdc}, owner=-1, tag=name)

    def realize(self, v, ev, ctx):
        from pyoda_time import LocalDate

        cc = ctx["cals"][self.cal]
        f = v.fields["_LocalDate__year_month_day_calendar"].fields
        y, m, d = cc.clamp(ev(f["$y"]), ev(f["$m"]), ev(f["$d"]))
        return ghosted_date(LocalDate(y, m, d, cc.system))


class YearMonthG(Gen):
    def __init__(self, cal: str = "cal") -> None:
        self.cal = cal

    def make(self, name, b):
        from pyvc import sym
        from pyvc.sym import And
        from pyvc.values import SObj
        from pyoda_time._year_month import YearMonth
        from pyoda_time._year_month_day_calendar import _YearMonthDayCalendar
        from specs import cal_abs, packmodel

        ac = b.named[self.cal]
        y, m = sym.var_int(f"{name}.y"), sym.var_int(f"{name}.m")
        b.assume(And(y >= ac.min_year, y <= ac.max_year, m >= 1, m <= cal_abs.miy(ac.cid, y)))
        for ax in ac.ax_year(y) + ac.ax_year(y + 1) + [ac.ax_month(y, m)]:
            b.assume(ax)
        ymdc = SObj(_YearMonthDayCalendar, {"_YearMonthDayCalendar__value": packmodel.pack_ymd(y, m, 1) * 64 + ac.ordinal, "$y": y, "$m": m, "$d": 1, "$o": ac.ordinal}, owner=-1, tag=name + ".ymdc")
        return SObj(YearMonth, {"_YearMonth__start_of_month": ymdc}, owner=-1, tag=name)

    def realize(self, v, ev, ctx):
        from pyoda_time import YearMonth

        cc = ctx["cals"][self.cal]
        f = v.fields["_YearMonth__start_of_month"].fields
        y, m, _ = cc.clamp(ev(f["$y"]), ev(f["$m"]), 1)
        ym = YearMonth(year=y, month=m, calendar=cc.system)
        o = object.__getattribute__(ym, "_YearMonth__start_of_month")
        for k, x in (("$y", y), ("$m", m), ("$d", 1), ("$o", cc.ordinal)):
            object.__setattr__(o, k, x)
        return ym


def ghosted_date(ld):
    """Attach the ghost components ($y, $m, $d, $o) to a real LocalDate so that the views work on it."""
    o = object.__getattribute__(ld, "_LocalDate__year_month_day_calendar")
    for k, x in (("$y", o._year), ("$m", o._month), ("$d", o._day), ("$o", int(o._calendar_ordinal))):
        object.__setattr__(o, k, x)
    return ld


class LocalDateTimeG(Gen):
    def __init__(self, cal: str = "cal") -> None:
        self.cal = cal

    def make(self, name, b):
        from pyvc.values import SObj
        from pyoda_time._local_date_time import LocalDateTime

        d = LocalDateG(self.cal).make(name + ".date", b)
        t = LocalTimeG().make(name + ".time", b)
        return SObj(LocalDateTime, {"_LocalDateTime__date": d, "_LocalDateTime__time": t}, owner=-1, tag=name)

    def realize(self, v, ev, ctx):
        from pyoda_time import LocalDateTime, LocalTime

        d = LocalDateG(self.cal).realize(v.fields["_LocalDateTime__date"], ev, ctx)
        n = ev(v.fields["_LocalDateTime__time"].fields["_LocalTime__nanoseconds"])
        return LocalDateTime._ctor(local_date=d, local_time=LocalTime._ctor(nanoseconds=n))


def PeriodG(lo: int = -(10**18), hi: int = 10**18) -> Obj:
    names = ["years", "months", "weeks", "days", "hours", "minutes", "seconds", "milliseconds", "ticks", "nanoseconds"]
    return Obj("pyoda_time._period:Period", {f"_Period__{n}": Int(lo, hi) for n in names})


class DateIntervalG(Gen):
    def __init__(self, cal: str = "cal") -> None:
        self.cal = cal

    def make(self, name, b):
        from pyvc.values import SObj
        from pyoda_time._date_interval import DateInterval
        from specs import cal_abs as CA
        from specs import views as V

        ac = b.named[self.cal]
        s = LocalDateG(self.cal).make(name + ".start", b)
        e = LocalDateG(self.cal).make(name + ".end", b)
        ds = CA.dse(ac.cid, V.ld_y(s), V.ld_m(s), V.ld_d(s))
        de = CA.dse(ac.cid, V.ld_y(e), V.ld_m(e), V.ld_d(e))
        b.assume(ds <= de)
        return SObj(DateInterval, {"_DateInterval__start": s, "_DateInterval__end": e}, owner=-1, tag=name)

    def realize(self, v, ev, ctx):
        from pyoda_time import DateInterval

        s = LocalDateG(self.cal).realize(v.fields["_DateInterval__start"], ev, ctx)
        e = LocalDateG(self.cal).realize(v.fields["_DateInterval__end"], ev, ctx)
        if e < s:
            s, e = e, s
        return DateInterval(ghosted_date(s), ghosted_date(e))


def IntervalG() -> Obj:
    from specs import views as V

    return Obj("pyoda_time._interval:Interval", {"_Interval__start": InstantAnyG(), "_Interval__end": InstantAnyG()}, inv=lambda o: V.inst_ns(V.fld(o, "_Interval__start")) <= V.inst_ns(V.fld(o, "_Interval__end")))


class IsoAbsCalG(AbsCalG):
    """The ISO calendar seen through the calendar interface contract: an abstract calendar with ordinal 0 that also
    stands in for the live `CalendarSystem.iso` object (default arguments, `CalendarSystem.iso`)."""

    fixed_ordinal = 0

    def make(self, name, b):
        ac = super().make(name, b)
        b.assume(ac.ordinal == 0)
        orig_register = ac.register

        def register(eng, ac=ac, orig=orig_register):
            orig(eng)
            from pyoda_time import CalendarSystem

            eng.alias[id(CalendarSystem.iso)] = ac.system
            from specs import iso_models

            iso_models.install(eng, ac)

        ac.register = register
        return ac

    def realize(self, v, ev, ctx):
        ctx.setdefault("ordinal_override", {})[self.name] = 0
        ctx["iso_only"] = True
        return super().realize(v, ev, ctx)


class OffsetTimeG(Gen):
    """OffsetTime: nanosecond-of-day and offset seconds packed as n | (off << 47) (ghosts $n, $off)."""

    def make(self, name, b):
        from pyvc import sym
        from pyvc.sym import And
        from pyvc.values import SObj
        from pyoda_time._offset_time import OffsetTime

        n, off = sym.var_int(f"{name}.n"), sym.var_int(f"{name}.off")
        b.assume(And(n >= 0, n < V.NPD, off >= -64800, off <= 64800))
        return SObj(OffsetTime, {"_OffsetTime__nanoseconds_and_offset": n + off * (1 << 47), "$n": n, "$off": off}, owner=-1, tag=name)

    def realize(self, v, ev, ctx):
        from pyoda_time._offset_time import OffsetTime

        o = OffsetTime._ctor(nanosecond_of_day=ev(v.fields["$n"]), offset_seconds=ev(v.fields["$off"]))
        return o


class OffsetDateTimeG(Gen):
    def __init__(self, cal: str = "cal") -> None:
        self.cal = cal

    def make(self, name, b):
        from pyvc.values import SObj
        from pyoda_time._offset_date_time import OffsetDateTime

        d = LocalDateG(self.cal).make(name + ".date", b)
        t = OffsetTimeG().make(name + ".ot", b)
        return SObj(OffsetDateTime, {"_OffsetDateTime__local_date": d, "_OffsetDateTime__offset_time": t}, owner=-1, tag=name)

    def realize(self, v, ev, ctx):
        from pyoda_time._offset_date_time import OffsetDateTime

        d = LocalDateG(self.cal).realize(v.fields["_OffsetDateTime__local_date"], ev, ctx)
        t = OffsetTimeG().realize(v.fields["_OffsetDateTime__offset_time"], ev, ctx)
        return OffsetDateTime._ctor(local_date=d, offset_time=t)


def ZoneYearOffsetG() -> Obj:
    from pyvc.contracts import Bool
    from pyvc.sym import And, Or

    def inv(o):
        f = lambda n: V.fld(o, "_ZoneYearOffset__" + n)  # noqa: E731
        dom = f("day_of_month")
        return And(
            f("transition_mode") >= 0, f("transition_mode") <= 2, f("month_of_year") >= 1, f("month_of_year") <= 12,
            Or(And(dom >= 1, dom <= 31), And(dom >= -31, dom <= -1)), f("day_of_week") >= 0, f("day_of_week") <= 7,
            # the format stores the time of day in whole milliseconds
            V.lt_nanos(f("time_of_day")) % V.NPMS == 0,
        )

    return Obj(
        "pyoda_time.time_zones._zone_year_offset:_ZoneYearOffset",
        {
            "_ZoneYearOffset__transition_mode": Int(),
            "_ZoneYearOffset__month_of_year": Int(),
            "_ZoneYearOffset__day_of_month": Int(),
            "_ZoneYearOffset__day_of_week": Int(),
            "_ZoneYearOffset__advance_day_of_week": Bool(),
            "_ZoneYearOffset__add_day": Bool(),
            "_ZoneYearOffset__time_of_day": LocalTimeG(),
        },
        inv=inv,
    )


# ------------------------------------------------------------------------------------------ stdlib datetime values (C15)
GREGORIAN_ORDINAL = 1


class GregAbsCalG(AbsCalG):
    """The Gregorian calendar seen through the calendar interface contract; it stands in for the live
    `CalendarSystem.gregorian` AND for the proleptic Gregorian calendar of the standard library (specs/dt_models.py).
    The facts assumed here about it (year range, 12 months, day numbers of 0001-01-01 and 9999-12-31) are ground
    obligations of the real Gregorian calculator in contracts/c15_bridge.py."""

    fixed_ordinal = GREGORIAN_ORDINAL

    def make(self, name, b):
        from pyvc.sym import And
        from specs import cal_abs, dt_models

        ac = super().make(name, b)
        b.assume(ac.ordinal == GREGORIAN_ORDINAL)
        greg_facts(ac, b)
        orig_register = ac.register

        def register(eng, ac=ac, orig=orig_register):
            orig(eng)
            from pyoda_time import CalendarSystem

            eng.alias[id(CalendarSystem.gregorian)] = ac.system
            dt_models.GREG[0] = ac

        ac.register = register
        return ac

    def realize(self, v, ev, ctx):
        ctx.setdefault("ordinal_override", {})[self.name] = GREGORIAN_ORDINAL
        return super().realize(v, ev, ctx)


def greg_facts(ac, b):
    """Year range and the day numbers of 0001-01-01 / 9999-12-31 of the Gregorian/ISO calculator (ground obligations
    of the real calculator in contracts/c15_bridge.py)."""
    from pyvc.sym import And
    from specs import cal_abs, dt_models

    ac.fixed_miy = 12  # ground obligations of the real calculator in contracts/c15_bridge.py (12 months, month lengths 28..31)
    ac.min_dim = 28
    b.assume(And(ac.min_year == -9998, ac.max_year == 9999))
    for y in (1, 10000):
        for ax in ac.ax_year(y):
            b.assume(ax)
    b.assume(And(cal_abs.soy(ac.cid, 1) == dt_models.MIN_ORD, cal_abs.soy(ac.cid, 10000) == dt_models.MAX_ORD + 1, cal_abs.soy(ac.cid, -9998) == -4371222))
    b.assume(ac.ax_mono(1, 10000))
    b.assume(ac.ax_mono(-9998, 1))


class IsoStdCalG(IsoAbsCalG):
    """ISO calendar (shares the Gregorian calculator) with the same facts."""

    def make(self, name, b):
        ac = super().make(name, b)
        greg_facts(ac, b)
        return ac


class _StdG(Gen):
    def realize(self, v, ev, ctx):
        if ctx.get("randomised"):
            # boundary-biased draw: abstract counterexamples about stdlib values usually sit at the range ends
            from pyvc.sym import SInt
            from specs import dt_models as DT

            rng = ctx["rng"]

            def bev(x):
                if not isinstance(x, SInt):
                    return x
                nm = str(x.t)
                if nm.endswith(".ord"):
                    return rng.choice([DT.MIN_ORD + rng.randint(0, 400), DT.MAX_ORD - rng.randint(0, 400), rng.randint(DT.MIN_ORD, DT.MAX_ORD)])
                if nm.endswith(".us") and "utcoffset" not in nm:
                    return rng.choice([0, DT.US_DAY - 1, rng.randint(0, DT.US_DAY - 1)])
                if nm.endswith("utcoffset_us"):
                    return rng.choice([-1, 1, 0]) * rng.choice([3600, 64800, 1800, 86399]) * 1_000_000
                return ev(x)

            try:
                return v.pyvc_concretize(bev, True)
            except (ValueError, OverflowError):
                pass
        return v.pyvc_concretize(ev, True)


class StdDateG(_StdG):
    def make(self, name, b):
        from pyvc import sym
        from pyvc.sym import And
        from specs import dt_models as DT

        o = sym.var_int(f"{name}.ord")
        b.assume(And(o >= DT.MIN_ORD, o <= DT.MAX_ORD))
        return DT.MDate(o)


class StdTimeG(_StdG):
    def make(self, name, b):
        from pyvc import sym
        from pyvc.sym import And
        from specs import dt_models as DT

        h, mi, s, us = (sym.var_int(f"{name}.{k}") for k in ("hour", "minute", "second", "microsecond"))
        b.assume(And(h >= 0, h <= 23, mi >= 0, mi <= 59, s >= 0, s <= 59, us >= 0, us <= 999_999))
        return DT.MTime(h, mi, s, us, None)


class StdDatetimeG(_StdG):
    """naive (aware=False) or aware with a fixed utcoffset of whole microseconds strictly within +-24 h."""

    def __init__(self, aware: bool = False) -> None:
        self.aware = aware

    def make(self, name, b):
        from pyvc import sym
        from pyvc.sym import And
        from specs import dt_models as DT

        o, us = sym.var_int(f"{name}.ord"), sym.var_int(f"{name}.us")
        b.assume(And(o >= DT.MIN_ORD, o <= DT.MAX_ORD, us >= 0, us < DT.US_DAY))
        tz = None
        if self.aware:
            off = sym.var_int(f"{name}.utcoffset_us")
            b.assume(And(off > -DT.US_DAY, off < DT.US_DAY))
            tz = DT.MTz(off)
        return DT.MDateTime(o, us, tz)


class StdTimedeltaG(_StdG):
    def make(self, name, b):
        from pyvc import sym
        from pyvc.sym import And
        from specs import dt_models as DT

        us = sym.var_int(f"{name}.us")
        b.assume(And(us >= -DT.TD_MAX_DAYS * DT.US_DAY, us < (DT.TD_MAX_DAYS + 1) * DT.US_DAY))
        return DT.MDelta(us)
