"""Symbolic input generators for the value types."""

from __future__ import annotations

from pyvc.contracts import Int, Obj
from specs import views as V


def DurationG() -> Obj:
    return Obj("pyoda_time._duration:Duration", {"_Duration__days": Int(), "_Duration__nano_of_day": Int()}, inv=V.inv_duration)


def OffsetG() -> Obj:
    return Obj("pyoda_time._offset:Offset", {"_Offset__seconds": Int()}, inv=V.inv_offset)


def InstantG() -> Obj:
    return Obj("pyoda_time._instant:Instant", {"_Instant__duration": DurationG()}, inv=V.inv_instant_valid)


def LocalTimeG() -> Obj:
    return Obj("pyoda_time._local_time:LocalTime", {"_LocalTime__nanoseconds": Int()}, inv=V.inv_local_time)


def InstantAnyG() -> Obj:
    return Obj("pyoda_time._instant:Instant", {"_Instant__duration": DurationG()}, inv=V.inv_instant_any)


def LocalInstantG() -> Obj:
    return Obj("pyoda_time._local_instant:_LocalInstant", {"_LocalInstant__duration": DurationG()}, inv=V.inv_linstant_valid)


def LocalInstantAnyG() -> Obj:
    return Obj("pyoda_time._local_instant:_LocalInstant", {"_LocalInstant__duration": DurationG()}, inv=V.inv_linstant_any)
