"""Symbolic input generators for the value types."""

from __future__ import annotations

from pyvc.contracts import Int, Obj
from specs import views as V


def DurationG() -> Obj:
    return Obj("pyoda_time._duration:Duration", {"_Duration__days": Int(), "_Duration__nano_of_day": Int()}, inv=V.inv_duration)


def OffsetG() -> Obj:
    return Obj("pyoda_time._offset:Offset", {"_Offset__seconds": Int()}, inv=V.inv_offset)


def InstantG() -> Obj:
    return Obj("pyoda_time._instant:Instant", {"_Instant__duration": DurationG()}, inv=V.inv_instant_valid)


def LocalTimeG() -> Obj:
    return Obj("pyoda_time._local_time:LocalTime", {"_LocalTime__nanoseconds": Int()}, inv=V.inv_local_time)


def InstantAnyG() -> Obj:
    return Obj("pyoda_time._instant:Instant", {"_Instant__duration": DurationG()}, inv=V.inv_instant_any)


def LocalInstantG() -> Obj:
    return Obj("pyoda_time._local_instant:_LocalInstant", {"_LocalInstant__duration": DurationG()}, inv=V.inv_linstant_valid)


def LocalInstantAnyG() -> Obj:
    return Obj("pyoda_time._local_instant:_LocalInstant", {"_LocalInstant__duration": DurationG()}, inv=V.inv_linstant_any)


# ------------------------------------------------------------------------------------------ abstract calendars
from pyvc.contracts import Gen  # noqa: E402


class AbsCalG(Gen):
    """A symbolic calendar satisfying the CAL interface contract (specs/cal_abs.py)."""

    def __init__(self, name: str = "cal") -> None:
        self.name = name

    def make(self, name, b):
        from specs import cal_abs

        ac = cal_abs.new_calendar(b, self.name)
        b.named[self.name] = ac
        return ac

    def concretize(self, v, ev, live):
        return v


class YmdG(Gen):
    """A valid (year, month, day) of the named abstract calendar, as a packed _YearMonthDay (with ghost components)."""

    def __init__(self, cal: str = "cal", valid: bool = True) -> None:
        self.cal, self.valid = cal, valid

    def make(self, name, b):
        from pyvc import sym
        from pyvc.values import SObj
        from pyoda_time._year_month_day import _YearMonthDay
        from specs import packmodel

        ac = b.named[self.cal]
        y, m, d = sym.var_int(f"{name}.y"), sym.var_int(f"{name}.m"), sym.var_int(f"{name}.d")
        if self.valid:
            b.assume(ac.valid_date(y, m, d))
            for ax in ac.ax_year(y) + [ac.ax_month(y, m)]:
                b.assume(ax)
        return SObj(_YearMonthDay, {"_YearMonthDay__value": packmodel.pack_ymd(y, m, d), "$y": y, "$m": m, "$d": d}, owner=-1, tag=name)


class LocalDateG(Gen):
    """A valid LocalDate of the named abstract calendar."""

    def __init__(self, cal: str = "cal") -> None:
        self.cal = cal

    def make(self, name, b):
        from pyvc import sym
        from pyvc.values import SObj
        from pyoda_time._local_date import LocalDate
        from pyoda_time._year_month_day_calendar import _YearMonthDayCalendar
        from specs import packmodel

        ac = b.named[self.cal]
        y, m, d = sym.var_int(f"{name}.y"), sym.var_int(f"{name}.m"), sym.var_int(f"{name}.d")
        b.assume(ac.valid_date(y, m, d))
        for ax in ac.ax_year(y) + ac.ax_year(y + 1) + [ac.ax_month(y, m)]:
            b.assume(ax)
        ymdc = SObj(_YearMonthDayCalendar, {"_YearMonthDayCalendar__value": packmodel.pack_ymd(y, m, d) * 64 + ac.ordinal, "$y": y, "$m": m, "$d": d, "$o": ac.ordinal}, owner=-1, tag=name + ".ymdc")
        return SObj(LocalDate, {"_LocalDate__year_month_day_calendar": ymdc}, owner=-1, tag=name)
