"""Symbolic input generators for the value types."""

from __future__ import annotations

from pyvc.contracts import Int, Obj
from specs import views as V


def DurationG() -> Obj:
    return Obj("pyoda_time._duration:Duration", {"_Duration__days": Int(), "_Duration__nano_of_day": Int()}, inv=V.inv_duration)


def OffsetG() -> Obj:
    return Obj("pyoda_time._offset:Offset", {"_Offset__seconds": Int()}, inv=V.inv_offset)


def InstantG() -> Obj:
    return Obj("pyoda_time._instant:Instant", {"_Instant__duration": DurationG()}, inv=V.inv_instant_valid)


def LocalTimeG() -> Obj:
    return Obj("pyoda_time._local_time:LocalTime", {"_LocalTime__nanoseconds": Int()}, inv=V.inv_local_time)


def InstantAnyG() -> Obj:
    return Obj("pyoda_time._instant:Instant", {"_Instant__duration": DurationG()}, inv=V.inv_instant_any)


def LocalInstantG() -> Obj:
    return Obj("pyoda_time._local_instant:_LocalInstant", {"_LocalInstant__duration": DurationG()}, inv=V.inv_linstant_valid)


def LocalInstantAnyG() -> Obj:
    return Obj("pyoda_time._local_instant:_LocalInstant", {"_LocalInstant__duration": DurationG()}, inv=V.inv_linstant_any)


# ------------------------------------------------------------------------------------------ abstract calendars
from pyvc.contracts import Gen  # noqa: E402


class AbsCalG(Gen):
    """A symbolic calendar satisfying the CAL interface contract (specs/cal_abs.py)."""

    def __init__(self, name: str = "cal") -> None:
        self.name = name

    def make(self, name, b):
        from specs import cal_abs

        ac = cal_abs.new_calendar(b, self.name)
        b.named[self.name] = ac
        return ac

    def concretize(self, v, ev, live):
        return v

    def realize(self, v, ev, ctx):
        from specs import cal_abs

        o = ctx.get("ordinal_override", {}).get(self.name)
        if o is None:
            o = ev(v.ordinal)
        cc = cal_abs.ConcreteCal(o)
        ctx.setdefault("cals", {})[self.name] = cc
        return cc


class YmdG(Gen):
    """A valid (year, month, day) of the named abstract calendar, as a packed _YearMonthDay (with ghost components)."""

    def __init__(self, cal: str = "cal", valid: bool = True) -> None:
        self.cal, self.valid = cal, valid

    def make(self, name, b):
        from pyvc import sym
        from pyvc.values import SObj
        from pyoda_time._year_month_day import _YearMonthDay
        from specs import packmodel

        ac = b.named[self.cal]
        y, m, d = sym.var_int(f"{name}.y"), sym.var_int(f"{name}.m"), sym.var_int(f"{name}.d")
        if self.valid:
            b.assume(ac.valid_date(y, m, d))
            for ax in ac.ax_year(y) + [ac.ax_month(y, m)]:
                b.assume(ax)
        return SObj(_YearMonthDay, {"_YearMonthDay__value": packmodel.pack_ymd(y, m, d), "$y": y, "$m": m, "$d": d}, owner=-1, tag=name)

    def realize(self, v, ev, ctx):
        from pyoda_time._year_month_day import _YearMonthDay

        cc = ctx["cals"][self.cal]
        y, m, d = cc.clamp(ev(v.fields["$y"]), ev(v.fields["$m"]), ev(v.fields["$d"]))
        o = _YearMonthDay._ctor(year=y, month=m, day=d)
        for k, x in (("$y", y), ("$m", m), ("$d", d)):
            object.__setattr__(o, k, x)
        return o


class LocalDateG(Gen):
    """A valid LocalDate of the named abstract calendar."""

    def __init__(self, cal: str = "cal") -> None:
        self.cal = cal

    def make(self, name, b):
        from pyvc import sym
        from pyvc.values import SObj
        from pyoda_time._local_date import LocalDate
        from pyoda_time._year_month_day_calendar import _YearMonthDayCalendar
        from specs import packmodel

        ac = b.named[self.cal]
        y, m, d = sym.var_int(f"{name}.y"), sym.var_int(f"{name}.m"), sym.var_int(f"{name}.d")
        b.assume(ac.valid_date(y, m, d))
        for ax in ac.ax_year(y) + ac.ax_year(y + 1) + [ac.ax_month(y, m)]:
            b.assume(ax)
        ymdc = SObj(_YearMonthDayCalendar, {"_YearMonthDayCalendar__value": packmodel.pack_ymd(y, m, d) * 64 + ac.ordinal, "$y": y, "$m": m, "$d": d, "$o": ac.ordinal}, owner=-1, tag=name + ".ymdc")
        return SObj(LocalDate, {"_LocalDate__year_month_day_calendar": ymdc}, owner=-1, tag=name)

    def realize(self, v, ev, ctx):
        from pyoda_time import LocalDate

        cc = ctx["cals"][self.cal]
        f = v.fields["_LocalDate__year_month_day_calendar"].fields
        y, m, d = cc.clamp(ev(f["$y"]), ev(f["$m"]), ev(f["$d"]))
        return ghosted_date(LocalDate(y, m, d, cc.system))


class YearMonthG(Gen):
    def __init__(self, cal: str = "cal") -> None:
        self.cal = cal

    def make(self, name, b):
        from pyvc import sym
        from pyvc.sym import And
        from pyvc.values import SObj
        from pyoda_time._year_month import YearMonth
        from pyoda_time._year_month_day_calendar import _YearMonthDayCalendar
        from specs import cal_abs, packmodel

        ac = b.named[self.cal]
        y, m = sym.var_int(f"{name}.y"), sym.var_int(f"{name}.m")
        b.assume(And(y >= ac.min_year, y <= ac.max_year, m >= 1, m <= cal_abs.miy(ac.cid, y)))
        for ax in ac.ax_year(y) + ac.ax_year(y + 1) + [ac.ax_month(y, m)]:
            b.assume(ax)
        ymdc = SObj(_YearMonthDayCalendar, {"_YearMonthDayCalendar__value": packmodel.pack_ymd(y, m, 1) * 64 + ac.ordinal, "$y": y, "$m": m, "$d": 1, "$o": ac.ordinal}, owner=-1, tag=name + ".ymdc")
        return SObj(YearMonth, {"_YearMonth__start_of_month": ymdc}, owner=-1, tag=name)

    def realize(self, v, ev, ctx):
        from pyoda_time import YearMonth

        cc = ctx["cals"][self.cal]
        f = v.fields["_YearMonth__start_of_month"].fields
        y, m, _ = cc.clamp(ev(f["$y"]), ev(f["$m"]), 1)
        ym = YearMonth(year=y, month=m, calendar=cc.system)
        o = object.__getattribute__(ym, "_YearMonth__start_of_month")
        for k, x in (("$y", y), ("$m", m), ("$d", 1), ("$o", cc.ordinal)):
            object.__setattr__(o, k, x)
        return ym


def ghosted_date(ld):
    """Attach the ghost components ($y, $m, $d, $o) to a real LocalDate so that the views work on it."""
    o = object.__getattribute__(ld, "_LocalDate__year_month_day_calendar")
    for k, x in (("$y", o._year), ("$m", o._month), ("$d", o._day), ("$o", int(o._calendar_ordinal))):
        object.__setattr__(o, k, x)
    return ld


class LocalDateTimeG(Gen):
    def __init__(self, cal: str = "cal") -> None:
        self.cal = cal

    def make(self, name, b):
        from pyvc.values import SObj
        from pyoda_time._local_date_time import LocalDateTime

        d = LocalDateG(self.cal).make(name + ".date", b)
        t = LocalTimeG().make(name + ".time", b)
        return SObj(LocalDateTime, {"_LocalDateTime__date": d, "_LocalDateTime__time": t}, owner=-1, tag=name)

    def realize(self, v, ev, ctx):
        from pyoda_time import LocalDateTime, LocalTime

        d = LocalDateG(self.cal).realize(v.fields["_LocalDateTime__date"], ev, ctx)
        n = ev(v.fields["_LocalDateTime__time"].fields["_LocalTime__nanoseconds"])
        return LocalDateTime._ctor(local_date=d, local_time=LocalTime._ctor(nanoseconds=n))


def PeriodG(lo: int = -(10**18), hi: int = 10**18) -> Obj:
    names = ["years", "months", "weeks", "days", "hours", "minutes", "seconds", "milliseconds", "ticks", "nanoseconds"]
    return Obj("pyoda_time._period:Period", {f"_Period__{n}": Int(lo, hi) for n in names})


class DateIntervalG(Gen):
    def __init__(self, cal: str = "cal") -> None:
        self.cal = cal

    def make(self, name, b):
        from pyvc.values import SObj
        from pyoda_time._date_interval import DateInterval
        from specs import cal_abs as CA
        from specs import views as V

        ac = b.named[self.cal]
        s = LocalDateG(self.cal).make(name + ".start", b)
        e = LocalDateG(self.cal).make(name + ".end", b)
        ds = CA.dse(ac.cid, V.ld_y(s), V.ld_m(s), V.ld_d(s))
        de = CA.dse(ac.cid, V.ld_y(e), V.ld_m(e), V.ld_d(e))
        b.assume(ds <= de)
        return SObj(DateInterval, {"_DateInterval__start": s, "_DateInterval__end": e}, owner=-1, tag=name)

    def realize(self, v, ev, ctx):
        from pyoda_time import DateInterval

        s = LocalDateG(self.cal).realize(v.fields["_DateInterval__start"], ev, ctx)
        e = LocalDateG(self.cal).realize(v.fields["_DateInterval__end"], ev, ctx)
        if e < s:
            s, e = e, s
        return DateInterval(ghosted_date(s), ghosted_date(e))


def IntervalG() -> Obj:
    from specs import views as V

    return Obj("pyoda_time._interval:Interval", {"_Interval__start": InstantAnyG(), "_Interval__end": InstantAnyG()}, inv=lambda o: V.inst_ns(V.fld(o, "_Interval__start")) <= V.inst_ns(V.fld(o, "_Interval__end")))


class IsoAbsCalG(AbsCalG):
    """The ISO calendar seen through the calendar interface contract: an abstract calendar with ordinal 0 that also
    stands in for the live `CalendarSystem.iso` object (default arguments, `CalendarSystem.iso`)."""

    def make(self, name, b):
        ac = super().make(name, b)
        b.assume(ac.ordinal == 0)
        orig_register = ac.register

        def register(eng, ac=ac, orig=orig_register):
            orig(eng)
            from pyoda_time import CalendarSystem

            eng.alias[id(CalendarSystem.iso)] = ac.system
            from specs import iso_models

            iso_models.install(eng, ac)

        ac.register = register
        return ac

    def realize(self, v, ev, ctx):
        ctx.setdefault("ordinal_override", {})[self.name] = 0
        ctx["iso_only"] = True
        return super().realize(v, ev, ctx)


class OffsetTimeG(Gen):
    """OffsetTime: nanosecond-of-day and offset seconds packed as n | (off << 47) (ghosts $n, $off)."""

    def make(self, name, b):
        from pyvc import sym
        from pyvc.sym import And
        from pyvc.values import SObj
        from pyoda_time._offset_time import OffsetTime

        n, off = sym.var_int(f"{name}.n"), sym.var_int(f"{name}.off")
        b.assume(And(n >= 0, n < V.NPD, off >= -64800, off <= 64800))
        return SObj(OffsetTime, {"_OffsetTime__nanoseconds_and_offset": n + off * (1 << 47), "$n": n, "$off": off}, owner=-1, tag=name)

    def realize(self, v, ev, ctx):
        from pyoda_time._offset_time import OffsetTime

        o = OffsetTime._ctor(nanosecond_of_day=ev(v.fields["$n"]), offset_seconds=ev(v.fields["$off"]))
        return o


class OffsetDateTimeG(Gen):
    def __init__(self, cal: str = "cal") -> None:
        self.cal = cal

    def make(self, name, b):
        from pyvc.values import SObj
        from pyoda_time._offset_date_time import OffsetDateTime

        d = LocalDateG(self.cal).make(name + ".date", b)
        t = OffsetTimeG().make(name + ".ot", b)
        return SObj(OffsetDateTime, {"_OffsetDateTime__local_date": d, "_OffsetDateTime__offset_time": t}, owner=-1, tag=name)

    def realize(self, v, ev, ctx):
        from pyoda_time._offset_date_time import OffsetDateTime

        d = LocalDateG(self.cal).realize(v.fields["_OffsetDateTime__local_date"], ev, ctx)
        t = OffsetTimeG().realize(v.fields["_OffsetDateTime__offset_time"], ev, ctx)
        return OffsetDateTime._ctor(local_date=d, offset_time=t)


def ZoneYearOffsetG() -> Obj:
    from pyvc.contracts import Bool
    from pyvc.sym import And, Or

    def inv(o):
        f = lambda n: V.fld(o, "_ZoneYearOffset__" + n)  # noqa: E731
        dom = f("day_of_month")
        return And(
            f("transition_mode") >= 0, f("transition_mode") <= 2, f("month_of_year") >= 1, f("month_of_year") <= 12,
            Or(And(dom >= 1, dom <= 31), And(dom >= -31, dom <= -1)), f("day_of_week") >= 0, f("day_of_week") <= 7,
            # the format stores the time of day in whole milliseconds
            V.lt_nanos(f("time_of_day")) % V.NPMS == 0,
        )

    return Obj(
        "pyoda_time.time_zones._zone_year_offset:_ZoneYearOffset",
        {
            "_ZoneYearOffset__transition_mode": Int(),
            "_ZoneYearOffset__month_of_year": Int(),
            "_ZoneYearOffset__day_of_month": Int(),
            "_ZoneYearOffset__day_of_week": Int(),
            "_ZoneYearOffset__advance_day_of_week": Bool(),
            "_ZoneYearOffset__add_day": Bool(),
            "_ZoneYearOffset__time_of_day": LocalTimeG(),
        },
        inv=inv,
    )
