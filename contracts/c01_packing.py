"""C01 layer D -- bit packing of (year, month, day[, calendar ordinal]) is lossless and order-preserving."""

from __future__ import annotations

from pyvc.contracts import Int, Obj, contract
from pyvc.sym import And, Iff, Implies, Not, Or
from specs import views as V

YMD = "pyoda_time._year_month_day:_YearMonthDay."
YMDC = "pyoda_time._year_month_day_calendar:_YearMonthDayCalendar."


def ymd_value(o):
    return V.fld(o, "_YearMonthDay__value")


def ymdc_value(o):
    return V.fld(o, "_YearMonthDayCalendar__value")


def pack_ymd(y, m, d):
    return ((y - 1) * 32 + (m - 1)) * 64 + (d - 1)


def pack_ymdc(y, m, d, o):
    return pack_ymd(y, m, d) * 64 + o


def _ranges(a):
    return And(a.year >= -16383, a.year <= 16384, a.month >= 1, a.month <= 32, a.day >= 1, a.day <= 64)


@contract(YMD + "_ctor", "C01", "C12", name="_YearMonthDay._ctor(year, month, day)")
def _(c):
    c.kwarg("year", Int()).kwarg("month", Int()).kwarg("day", Int())
    c.requires(_ranges)
    c.returns(lambda a, r: ymd_value(r) == pack_ymd(a.year, a.month, a.day))


def YmdG():
    return Obj("pyoda_time._year_month_day:_YearMonthDay", {"_YearMonthDay__value": Int()})


def _unpack(target, cls_prefix, fieldname, comp):
    @contract(target, "C01", "C12", name=f"{target.split(':')[1]} recovers the packed component")
    def _(c):
        c.ghost("year", Int()).ghost("month", Int()).ghost("day", Int())
        c.requires(_ranges)
        # the receiver is built from the packed word
        c.arg("self", _PackedG(cls_prefix, fieldname))
        c.returns(lambda a, r: r == comp(a))


class _PackedG(Obj):
    def __init__(self, cls, fieldname, with_ord=False):
        self.cls, self.fieldname, self.with_ord = cls, fieldname, with_ord
        self.inv = None
        self.fields = {}

    def make(self, name, b):
        from pyvc import sym
        from pyvc.contracts import resolve
        from pyvc.values import SObj

        y, m, d = sym.var_int("year"), sym.var_int("month"), sym.var_int("day")
        if self.with_ord:
            o = sym.var_int("ordinal")
            val = pack_ymdc(y, m, d, o)
        else:
            val = pack_ymd(y, m, d)
        return SObj(resolve(self.cls), {self.fieldname: val}, owner=-1, tag=name)


_unpack(YMD + "_year", "pyoda_time._year_month_day:_YearMonthDay", "_YearMonthDay__value", lambda a: a.year)
_unpack(YMD + "_month", "pyoda_time._year_month_day:_YearMonthDay", "_YearMonthDay__value", lambda a: a.month)
_unpack(YMD + "_day", "pyoda_time._year_month_day:_YearMonthDay", "_YearMonthDay__value", lambda a: a.day)


def _unpack_c(target, comp):
    @contract(target, "C01", "C12", name=f"{target.split(':')[1]} recovers the packed component")
    def _(c):
        c.arg("self", _PackedG("pyoda_time._year_month_day_calendar:_YearMonthDayCalendar", "_YearMonthDayCalendar__value", True))
        c.ghost("year", Int()).ghost("month", Int()).ghost("day", Int()).ghost("ordinal", Int(0, 18))
        c.requires(_ranges)
        c.returns(lambda a, r: r == comp(a))


_unpack_c(YMDC + "_year", lambda a: a.year)
_unpack_c(YMDC + "_month", lambda a: a.month)
_unpack_c(YMDC + "_day", lambda a: a.day)
_unpack_c(YMDC + "_calendar_ordinal", lambda a: a.ordinal)


@contract(YMDC + "_to_year_month_day", "C01", "C12")
def _(c):
    c.arg("self", _PackedG("pyoda_time._year_month_day_calendar:_YearMonthDayCalendar", "_YearMonthDayCalendar__value", True))
    c.ghost("year", Int()).ghost("month", Int()).ghost("day", Int()).ghost("ordinal", Int(0, 18))
    c.requires(_ranges)
    c.returns(lambda a, r: ymd_value(r) == pack_ymd(a.year, a.month, a.day))


@contract(YMDC + "_ctor", "C01", "C12", name="_YearMonthDayCalendar._ctor(year, month, day, ordinal)")
def _(c):
    c.kwarg("year", Int()).kwarg("month", Int()).kwarg("day", Int()).kwarg("calendar_ordinal", Int(0, 18))
    c.requires(_ranges)
    c.returns(lambda a, r: ymdc_value(r) == pack_ymdc(a.year, a.month, a.day, a.calendar_ordinal))


@contract(YMDC + "_ctor", "C01", "C12", name="_YearMonthDayCalendar._ctor(year_month_day, ordinal)")
def _(c):
    c.kwarg("year_month_day", Int()).kwarg("calendar_ordinal", Int(0, 18))
    c.returns(lambda a, r: ymdc_value(r) == a.year_month_day * 64 + a.calendar_ordinal)


@contract(YMD + "_with_calendar_ordinal", "C01")
def _(c):
    c.arg("self", YmdG()).arg("calendar_ordinal", Int(0, 18))
    c.returns(lambda a, r: ymdc_value(r) == ymd_value(a.self) * 64 + a.calendar_ordinal)


@contract(YMD + "compare_to", "C01", "C12", name="_YearMonthDay.compare_to is the lexicographic (y, m, d) order")
def _(c):
    c.ghost("y1", Int()).ghost("m1", Int(1, 32)).ghost("d1", Int(1, 64)).ghost("y2", Int()).ghost("m2", Int(1, 32)).ghost("d2", Int(1, 64))

    class G2(Obj):
        def __init__(self, i):
            self.i = i
            self.inv = None
            self.fields = {}

        def make(self, name, b):
            from pyvc import sym
            from pyvc.contracts import resolve
            from pyvc.values import SObj

            y, m, d = sym.var_int(f"y{self.i}"), sym.var_int(f"m{self.i}"), sym.var_int(f"d{self.i}")
            return SObj(resolve("pyoda_time._year_month_day:_YearMonthDay"), {"_YearMonthDay__value": pack_ymd(y, m, d)}, owner=-1, tag=name)

    c.arg("self", G2(1)).arg("other", G2(2))
    lex_lt = lambda a: Or(a.y1 < a.y2, And(a.y1 == a.y2, Or(a.m1 < a.m2, And(a.m1 == a.m2, a.d1 < a.d2))))  # noqa: E731
    lex_eq = lambda a: And(a.y1 == a.y2, a.m1 == a.m2, a.d1 == a.d2)  # noqa: E731
    c.returns(lambda a, r: And(Iff(r < 0, lex_lt(a)), Iff(r == 0, lex_eq(a))))


@contract(YMD + "_year", "C01", name="CANARY _YearMonthDay._year off by one", canary=True)
def _(c):
    c.arg("self", _PackedG("pyoda_time._year_month_day:_YearMonthDay", "_YearMonthDay__value"))
    c.ghost("year", Int()).ghost("month", Int()).ghost("day", Int())
    c.requires(_ranges)
    c.returns(lambda a, r: r == a.year + 1)
