"""C03 -- Instant, Offset, _LocalInstant, _TickArithmetic against the integer views."""

from __future__ import annotations

from pyvc.contracts import Int, contract
from pyvc.sym import And, Iff, Implies, Not, Or, ite, trunc_div
from specs import views as V

from .gens import DurationG, InstantAnyG, InstantG, LocalInstantAnyG, LocalInstantG, OffsetG

I = "pyoda_time._instant:Instant."
O = "pyoda_time._offset:Offset."
L = "pyoda_time._local_instant:_LocalInstant."
T = "pyoda_time.utility._tick_arithmetic:_TickArithmetic."
RANGE_ERR = (ValueError, OverflowError)


# ------------------------------------------------------------------------------------------ Instant
@contract(I + "__add__", "C03", "C11")
def _(c):
    c.arg("self", InstantG()).arg("other", DurationG())
    exact = lambda a: V.inst_ns(a.self) + V.ns(a.other)  # noqa: E731
    c.returns(lambda a, r: V.is_instant_of(r, exact(a)), when=lambda a: V.inst_in_range(exact(a)))
    c.raises(*RANGE_ERR, when=lambda a: Not(V.inst_in_range(exact(a))))


@contract(I + "__sub__", "C03", "C11", name="Instant.__sub__(Duration)")
def _(c):
    c.arg("self", InstantG()).arg("other", DurationG())
    exact = lambda a: V.inst_ns(a.self) - V.ns(a.other)  # noqa: E731
    c.returns(lambda a, r: V.is_instant_of(r, exact(a)), when=lambda a: V.inst_in_range(exact(a)))
    c.raises(*RANGE_ERR, when=lambda a: Not(V.inst_in_range(exact(a))))


@contract(I + "__sub__", "C03", "C11", name="Instant.__sub__(Instant)")
def _(c):
    c.arg("self", InstantG()).arg("other", InstantG())
    c.returns(lambda a, r: V.is_duration_of(r, V.inst_ns(a.self) - V.inst_ns(a.other)))


def _from_unix(name: str, unit: int) -> None:
    @contract(I + name, "C03", name=f"Instant.{name}")
    def _(c):
        c.arg("x", Int())
        exact = lambda a: a.x * unit  # noqa: E731
        c.returns(lambda a, r: V.is_instant_of(r, exact(a)), when=lambda a: V.inst_in_range(exact(a)))
        c.raises(*RANGE_ERR, when=lambda a: Not(V.inst_in_range(exact(a))))


_from_unix("from_unix_time_seconds", V.NPS)
_from_unix("from_unix_time_milliseconds", V.NPMS)
_from_unix("from_unix_time_ticks", V.NPT)


def _to_unix(name: str, unit: int) -> None:
    @contract(I + name, "C03", name=f"Instant.{name}")
    def _(c):
        c.arg("self", InstantG())
        # floor toward the start of time
        c.returns(lambda a, r: r == V.inst_ns(a.self) // unit)


_to_unix("to_unix_time_seconds", V.NPS)
_to_unix("to_unix_time_milliseconds", V.NPMS)
_to_unix("to_unix_time_ticks", V.NPT)


def _plus_unit(name: str, unit: int) -> None:
    @contract(I + name, "C03", name=f"Instant.{name}")
    def _(c):
        c.arg("self", InstantG()).arg("x", Int())
        exact = lambda a: V.inst_ns(a.self) + a.x * unit  # noqa: E731
        c.returns(lambda a, r: V.is_instant_of(r, exact(a)), when=lambda a: V.inst_in_range(exact(a)))
        c.raises(*RANGE_ERR, when=lambda a: Not(V.inst_in_range(exact(a))))


_plus_unit("plus_ticks", V.NPT)
_plus_unit("plus_nanoseconds", 1)


@contract(I + "_from_untrusted_duration", "C03")
def _(c):
    c.arg("duration", DurationG())
    c.returns(lambda a, r: V.is_instant_of(r, V.ns(a.duration)), when=lambda a: V.inst_in_range(V.ns(a.duration)))
    c.raises(OverflowError, when=lambda a: Not(V.inst_in_range(V.ns(a.duration))))


@contract(I + "_is_valid", "C03")
def _(c):
    c.arg("self", InstantAnyG())
    c.returns(lambda a, r: Iff(r, V.inv_instant_valid(a.self)))


@contract(I + "_plus", "C03", "C11")
def _(c):
    c.arg("self", InstantG()).arg("offset", OffsetG())
    exact = lambda a: V.inst_ns(a.self) + V.off_seconds(a.offset) * V.NPS  # noqa: E731
    c.returns(lambda a, r: V.is_linstant_of(r, exact(a)), when=lambda a: V.inst_in_range(exact(a)))
    c.raises(*RANGE_ERR, when=lambda a: Not(V.inst_in_range(exact(a))))


@contract(I + "_safe_plus", "C03", "C05")
def _(c):
    # saturating addition: sentinels are absorbing, out-of-range results saturate to the matching sentinel
    c.arg("self", InstantAnyG()).arg("offset", OffsetG())
    exact = lambda a: V.inst_ns(a.self) + V.off_seconds(a.offset) * V.NPS  # noqa: E731
    c.returns(
        lambda a, r: And(
            V.inv_linstant_any(r),
            Implies(V.is_before_min(a.self), V.is_before_min(r, "_LocalInstant")),
            Implies(V.is_after_max(a.self), V.is_after_max(r, "_LocalInstant")),
            Implies(V.inv_instant_valid(a.self), And(
                Implies(V.inst_in_range(exact(a)), V.is_linstant_of(r, exact(a))),
                Implies(exact(a) < V.INSTANT_MIN_NS, V.is_before_min(r, "_LocalInstant")),
                Implies(exact(a) > V.INSTANT_MAX_NS, V.is_after_max(r, "_LocalInstant")),
            )),
        )
    )


for _n, _rel in (("__eq__", lambda x, y: x == y), ("__ne__", lambda x, y: x != y), ("__lt__", lambda x, y: x < y), ("__le__", lambda x, y: x <= y), ("__gt__", lambda x, y: x > y), ("__ge__", lambda x, y: x >= y)):

    def _mk(n=_n, rel=_rel):
        @contract(I + n, "C03", "C12", name=f"Instant.{n}")
        def _(c):
            c.arg("self", InstantAnyG()).arg("other", InstantAnyG())
            c.returns(lambda a, r: Iff(r, rel(V.inst_ns(a.self), V.inst_ns(a.other))))

    _mk()


@contract(I + "compare_to", "C03", "C12")
def _(c):
    c.arg("self", InstantAnyG()).arg("other", InstantAnyG())
    c.returns(lambda a, r: V.sign_agrees(r, V.inst_ns(a.self) - V.inst_ns(a.other)))


@contract(I + "_before_min_value", "C03")
def _(c):
    c.returns(lambda a, r: And(V.is_before_min(r), Not(V.inv_instant_valid(r))))


@contract(I + "_after_max_value", "C03")
def _(c):
    c.returns(lambda a, r: And(V.is_after_max(r), Not(V.inv_instant_valid(r))))


@contract("pyoda_time._instant:_InstantMeta.min_value", "C03")
def _(c):
    from pyvc.contracts import Const
    c.arg("self", Const(lambda: __import__("pyoda_time").Instant))
    c.returns(lambda a, r: V.is_instant_of(r, V.INSTANT_MIN_NS))


@contract("pyoda_time._instant:_InstantMeta.max_value", "C03")
def _(c):
    from pyvc.contracts import Const
    c.arg("self", Const(lambda: __import__("pyoda_time").Instant))
    c.returns(lambda a, r: V.is_instant_of(r, V.INSTANT_MAX_NS))


# ------------------------------------------------------------------------------------------ Offset
def _off_from(name: str, per_second_num: int, per_second_den: int, lo: int, hi: int) -> None:
    @contract(O + name, "C03", name=f"Offset.{name}")
    def _(c):
        c.arg("x", Int())
        inr = lambda a: And(a.x >= lo, a.x <= hi)  # noqa: E731
        # seconds = trunc(x * num / den)
        c.returns(lambda a, r: And(V.inv_offset(r), V.off_seconds(r) == trunc_div(a.x * per_second_num, per_second_den)), when=inr)
        c.raises(ValueError, when=lambda a: Not(inr(a)))


_off_from("from_seconds", 1, 1, -64800, 64800)
_off_from("from_milliseconds", 1, 1000, -64800_000, 64800_000)
_off_from("from_ticks", 1, 10_000_000, -64800 * 10_000_000, 64800 * 10_000_000)
_off_from("from_nanoseconds", 1, V.NPS, -64800 * V.NPS, 64800 * V.NPS)
_off_from("from_hours", 3600, 1, -18, 18)


@contract(O + "from_hours_and_minutes", "C03")
def _(c):
    c.arg("hours", Int()).arg("minutes", Int())
    tot = lambda a: a.hours * 3600 + a.minutes * 60  # noqa: E731
    inr = lambda a: And(tot(a) >= -64800, tot(a) <= 64800)  # noqa: E731
    c.returns(lambda a, r: And(V.inv_offset(r), V.off_seconds(r) == tot(a)), when=inr)
    c.raises(ValueError, when=lambda a: Not(inr(a)))


for _n, _f in (("__add__", lambda x, y: x + y), ("__sub__", lambda x, y: x - y)):

    def _mk2(n=_n, f=_f):
        @contract(O + n, "C03", "C12", name=f"Offset.{n}")
        def _(c):
            c.arg("self", OffsetG()).arg("other", OffsetG())
            tot = lambda a: f(V.off_seconds(a.self), V.off_seconds(a.other))  # noqa: E731
            inr = lambda a: And(tot(a) >= -64800, tot(a) <= 64800)  # noqa: E731
            c.returns(lambda a, r: And(V.inv_offset(r), V.off_seconds(r) == tot(a)), when=inr)
            c.raises(ValueError, when=lambda a: Not(inr(a)))

    _mk2()


@contract(O + "__neg__", "C03", "C12")
def _(c):
    c.arg("self", OffsetG())
    c.returns(lambda a, r: And(V.inv_offset(r), V.off_seconds(r) == -V.off_seconds(a.self)))


for _n, _k in (("seconds", 1), ("milliseconds", 1000), ("ticks", 10_000_000), ("nanoseconds", V.NPS)):

    def _mk3(n=_n, k=_k):
        @contract(O + n, "C03", name=f"Offset.{n}")
        def _(c):
            c.arg("self", OffsetG())
            c.returns(lambda a, r: r == V.off_seconds(a.self) * k)

    _mk3()


for _n, _rel in (("__eq__", lambda x, y: x == y), ("__ne__", lambda x, y: x != y), ("__lt__", lambda x, y: x < y), ("__le__", lambda x, y: x <= y), ("__gt__", lambda x, y: x > y), ("__ge__", lambda x, y: x >= y)):

    def _mk4(n=_n, rel=_rel):
        @contract(O + n, "C03", "C12", name=f"Offset.{n}")
        def _(c):
            c.arg("self", OffsetG()).arg("other", OffsetG())
            c.returns(lambda a, r: Iff(r, rel(V.off_seconds(a.self), V.off_seconds(a.other))))

    _mk4()


@contract(O + "compare_to", "C03", "C12")
def _(c):
    c.arg("self", OffsetG()).arg("other", OffsetG())
    c.returns(lambda a, r: V.sign_agrees(r, V.off_seconds(a.self) - V.off_seconds(a.other)))


for _n in ("max", "min"):

    def _mk5(n=_n):
        @contract(O + n, "C03", "C12", name=f"Offset.{n}")
        def _(c):
            c.arg("x", OffsetG()).arg("y", OffsetG())
            sx, sy = (lambda a: V.off_seconds(a.x)), (lambda a: V.off_seconds(a.y))
            want = (lambda a: ite(sx(a) >= sy(a), sx(a), sy(a))) if n == "max" else (lambda a: ite(sx(a) <= sy(a), sx(a), sy(a)))
            c.returns(lambda a, r: And(V.inv_offset(r), V.off_seconds(r) == want(a)))

    _mk5()


# ------------------------------------------------------------------------------------------ _LocalInstant
@contract(L + "_minus", "C03", "C11")
def _(c):
    c.arg("self", LocalInstantG()).arg("offset", OffsetG())
    exact = lambda a: V.linst_ns(a.self) - V.off_seconds(a.offset) * V.NPS  # noqa: E731
    c.returns(lambda a, r: V.is_instant_of(r, exact(a)), when=lambda a: V.inst_in_range(exact(a)))
    c.raises(*RANGE_ERR, when=lambda a: Not(V.inst_in_range(exact(a))))


@contract(L + "_minus_zero_offset", "C03")
def _(c):
    c.arg("self", LocalInstantG())
    c.returns(lambda a, r: V.is_instant_of(r, V.linst_ns(a.self)))


@contract(L + "_safe_minus", "C03", "C05")
def _(c):
    c.arg("self", LocalInstantAnyG()).arg("offset", OffsetG())
    exact = lambda a: V.linst_ns(a.self) - V.off_seconds(a.offset) * V.NPS  # noqa: E731
    c.returns(
        lambda a, r: And(
            V.inv_instant_any(r),
            Implies(V.is_before_min(a.self, "_LocalInstant"), V.is_before_min(r)),
            Implies(V.is_after_max(a.self, "_LocalInstant"), V.is_after_max(r)),
            Implies(V.inv_linstant_valid(a.self), And(
                Implies(V.inst_in_range(exact(a)), V.is_instant_of(r, exact(a))),
                Implies(exact(a) < V.INSTANT_MIN_NS, V.is_before_min(r)),
                Implies(exact(a) > V.INSTANT_MAX_NS, V.is_after_max(r)),
            )),
        )
    )


@contract(L + "_ctor", "C03", name="_LocalInstant._ctor(nanoseconds=Duration)")
def _(c):
    c.kwarg("nanoseconds", DurationG())
    c.returns(lambda a, r: V.is_linstant_of(r, V.ns(a.nanoseconds)), when=lambda a: V.inst_in_range(V.ns(a.nanoseconds)))
    c.raises(OverflowError, when=lambda a: Not(V.inst_in_range(V.ns(a.nanoseconds))))


# ------------------------------------------------------------------------------------------ _TickArithmetic
@contract(T + "ticks_to_days_and_tick_of_day", "C03")
def _(c):
    c.arg("ticks", Int())
    c.returns(lambda a, r: And(r[0] == a.ticks // V.TPD, r[1] == a.ticks % V.TPD, r[1] >= 0, r[1] < V.TPD, r[0] * V.TPD + r[1] == a.ticks))


@contract(T + "days_and_tick_of_day_to_ticks", "C03")
def _(c):
    c.arg("days", Int()).arg("tick_of_day", Int())
    c.returns(lambda a, r: r == a.days * V.TPD + a.tick_of_day)


@contract(T + "bounded_days_and_tick_of_day_to_ticks", "C03")
def _(c):
    c.arg("days", Int()).arg("tick_of_day", Int())
    c.returns(lambda a, r: r == a.days * V.TPD + a.tick_of_day)


@contract(T + "ticks_to_days_and_tick_of_day", "C03", name="CANARY ticks_to_days wrong remainder", canary=True)
def _(c):
    c.arg("ticks", Int())
    c.returns(lambda a, r: r[1] == a.ticks % (V.TPD - 1))
