"""C03 -- Duration: exact integer arithmetic on nanoseconds."""

from __future__ import annotations

from pyvc.contracts import Int, contract
from pyvc.sym import And, Not, Or, trunc_div, trunc_mod
from specs import views as V

from .gens import DurationG

D = "pyoda_time._duration:Duration."
RANGE_ERR = (ValueError, OverflowError)


def _factory(name: str, unit_ns: int) -> None:
    @contract(D + name, "C03", name=f"Duration.{name}(int)")
    def _(c):
        c.arg("x", Int())
        exact = lambda a: a.x * unit_ns  # noqa: E731
        c.returns(lambda a, r: V.is_duration_of(r, exact(a)), when=lambda a: V.dur_in_range(exact(a)))
        c.raises(*RANGE_ERR, when=lambda a: Not(V.dur_in_range(exact(a))))


for _n, _u in [
    ("from_days", V.NPD),
    ("from_hours", V.NPH),
    ("from_minutes", V.NPM),
    ("from_seconds", V.NPS),
    ("from_milliseconds", V.NPMS),
    ("from_microseconds", V.NPUS),
    ("from_ticks", V.NPT),
    ("from_nanoseconds", 1),
]:
    _factory(_n, _u)


@contract(D + "__add__", "C03", "C12")
def _(c):
    c.arg("self", DurationG()).arg("other", DurationG())
    exact = lambda a: V.ns(a.self) + V.ns(a.other)  # noqa: E731
    c.returns(lambda a, r: V.is_duration_of(r, exact(a)), when=lambda a: V.dur_in_range(exact(a)))
    c.raises(*RANGE_ERR, when=lambda a: Not(V.dur_in_range(exact(a))))


@contract(D + "__sub__", "C03", "C12")
def _(c):
    c.arg("self", DurationG()).arg("other", DurationG())
    exact = lambda a: V.ns(a.self) - V.ns(a.other)  # noqa: E731
    c.returns(lambda a, r: V.is_duration_of(r, exact(a)), when=lambda a: V.dur_in_range(exact(a)))
    c.raises(*RANGE_ERR, when=lambda a: Not(V.dur_in_range(exact(a))))


@contract(D + "__neg__", "C03", "C12")
def _(c):
    c.arg("self", DurationG())
    exact = lambda a: -V.ns(a.self)  # noqa: E731
    c.returns(lambda a, r: V.is_duration_of(r, exact(a)), when=lambda a: V.dur_in_range(exact(a)))
    c.raises(*RANGE_ERR, when=lambda a: Not(V.dur_in_range(exact(a))))


@contract(D + "__add__", "C03", name="CANARY Duration.__add__ off by one", canary=True)
def _(c):
    c.arg("self", DurationG()).arg("other", DurationG())
    c.returns(lambda a, r: V.ns(r) == V.ns(a.self) + V.ns(a.other) + 1)
    c.raises(*RANGE_ERR)
