"""C03 -- Duration: exact integer arithmetic on nanoseconds."""

from __future__ import annotations

from pyvc.contracts import Int, contract
from pyvc.sym import And, Not, Or, trunc_div, trunc_mod
from specs import views as V

from .gens import DurationG

D = "pyoda_time._duration:Duration."
RANGE_ERR = (ValueError, OverflowError)


def _factory(name: str, unit_ns: int) -> None:
    @contract(D + name, "C03", name=f"Duration.{name}(int)")
    def _(c):
        c.arg("x", Int())
        exact = lambda a: a.x * unit_ns  # noqa: E731
        c.returns(lambda a, r: V.is_duration_of(r, exact(a)), when=lambda a: V.dur_in_range(exact(a)))
        c.raises(*RANGE_ERR, when=lambda a: Not(V.dur_in_range(exact(a))))


for _n, _u in [
    ("from_days", V.NPD),
    ("from_hours", V.NPH),
    ("from_minutes", V.NPM),
    ("from_seconds", V.NPS),
    ("from_milliseconds", V.NPMS),
    ("from_microseconds", V.NPUS),
    ("from_ticks", V.NPT),
    ("from_nanoseconds", 1),
]:
    _factory(_n, _u)


@contract(D + "__add__", "C03", "C12")
def _(c):
    c.arg("self", DurationG()).arg("other", DurationG())
    exact = lambda a: V.ns(a.self) + V.ns(a.other)  # noqa: E731
    c.returns(lambda a, r: V.is_duration_of(r, exact(a)), when=lambda a: V.dur_in_range(exact(a)))
    c.raises(*RANGE_ERR, when=lambda a: Not(V.dur_in_range(exact(a))))


@contract(D + "__sub__", "C03", "C12")
def _(c):
    c.arg("self", DurationG()).arg("other", DurationG())
    exact = lambda a: V.ns(a.self) - V.ns(a.other)  # noqa: E731
    c.returns(lambda a, r: V.is_duration_of(r, exact(a)), when=lambda a: V.dur_in_range(exact(a)))
    c.raises(*RANGE_ERR, when=lambda a: Not(V.dur_in_range(exact(a))))


@contract(D + "__neg__", "C03", "C12")
def _(c):
    c.arg("self", DurationG())
    exact = lambda a: -V.ns(a.self)  # noqa: E731
    c.returns(lambda a, r: V.is_duration_of(r, exact(a)), when=lambda a: V.dur_in_range(exact(a)))
    c.raises(*RANGE_ERR, when=lambda a: Not(V.dur_in_range(exact(a))))


@contract(D + "__add__", "C03", name="CANARY Duration.__add__ off by one", canary=True)
def _(c):
    c.arg("self", DurationG()).arg("other", DurationG())
    c.returns(lambda a, r: V.ns(r) == V.ns(a.self) + V.ns(a.other) + 1)
    c.raises(*RANGE_ERR)


# ------------------------------------------------------------------------------------------ accessors
def _accessor(name: str, expect, props=("C03",)) -> None:
    @contract(D + name, *props, name=f"Duration.{name}")
    def _(c):
        c.arg("self", DurationG())
        c.returns(lambda a, r: r == expect(V.ns(a.self)))


_nod = lambda n: n - V.NPD * trunc_div(n, V.NPD)  # noqa: E731  truncated-day remainder
_accessor("days", lambda n: trunc_div(n, V.NPD))
_accessor("nanosecond_of_day", _nod)
_accessor("hours", lambda n: trunc_div(_nod(n), V.NPH))
_accessor("minutes", lambda n: trunc_mod(trunc_div(_nod(n), V.NPM), 60))
_accessor("seconds", lambda n: trunc_mod(trunc_div(_nod(n), V.NPS), 60))
_accessor("milliseconds", lambda n: trunc_mod(trunc_div(_nod(n), V.NPMS), 1000))
_accessor("microseconds", lambda n: trunc_mod(trunc_div(_nod(n), V.NPUS), 1_000_000))
_accessor("subsecond_ticks", lambda n: trunc_mod(trunc_div(_nod(n), V.NPT), 10_000_000))
_accessor("subsecond_nanoseconds", lambda n: trunc_mod(n, V.NPS))
_accessor("bcl_compatible_ticks", lambda n: trunc_div(n, V.NPT))
_accessor("to_nanoseconds", lambda n: n)
_accessor("_floor_days", lambda n: n // V.NPD)
_accessor("_nanosecond_of_floor_day", lambda n: n % V.NPD)


@contract(D + "_plus_small_nanoseconds", "C03")
def _(c):
    c.arg("self", DurationG()).arg("small_nanos", Int())
    small = lambda a: And(a.small_nanos >= -V.NPD, a.small_nanos <= V.NPD)  # noqa: E731
    exact = lambda a: V.ns(a.self) + a.small_nanos  # noqa: E731
    c.returns(lambda a, r: V.is_duration_of(r, exact(a)), when=lambda a: And(small(a), V.dur_in_range(exact(a))))
    c.raises(*RANGE_ERR, when=lambda a: Or(Not(small(a)), Not(V.dur_in_range(exact(a)))))


@contract(D + "_minus_small_nanoseconds", "C03")
def _(c):
    c.arg("self", DurationG()).arg("small_nanos", Int(-V.NPD, V.NPD))
    exact = lambda a: V.ns(a.self) - a.small_nanos  # noqa: E731
    c.returns(lambda a, r: V.is_duration_of(r, exact(a)), when=lambda a: V.dur_in_range(exact(a)))
    c.raises(*RANGE_ERR, when=lambda a: Not(V.dur_in_range(exact(a))))


@contract(D + "__mul__", "C03")
def _(c):
    c.arg("self", DurationG()).arg("other", Int())
    exact = lambda a: V.ns(a.self) * a.other  # noqa: E731
    c.returns(lambda a, r: V.is_duration_of(r, exact(a)), when=lambda a: V.dur_in_range(exact(a)))
    c.raises(*RANGE_ERR, when=lambda a: Not(V.dur_in_range(exact(a))))


@contract(D + "__rmul__", "C03")
def _(c):
    c.arg("self", DurationG()).arg("other", Int())
    exact = lambda a: V.ns(a.self) * a.other  # noqa: E731
    c.returns(lambda a, r: V.is_duration_of(r, exact(a)), when=lambda a: V.dur_in_range(exact(a)))
    c.raises(*RANGE_ERR, when=lambda a: Not(V.dur_in_range(exact(a))))


@contract(D + "__truediv__", "C03", name="Duration.__truediv__(int)")
def _(c):
    c.arg("self", DurationG()).arg("other", Int())
    c.requires(lambda a: a.other != 0)
    exact = lambda a: trunc_div(V.ns(a.self), a.other)  # noqa: E731
    c.returns(lambda a, r: V.is_duration_of(r, exact(a)), when=lambda a: V.dur_in_range(exact(a)))
    c.raises(*RANGE_ERR, when=lambda a: Not(V.dur_in_range(exact(a))))


# ------------------------------------------------------------------------------------------ comparisons (C12 too)
def _cmp(name: str, rel) -> None:
    @contract(D + name, "C03", "C12", name=f"Duration.{name}")
    def _(c):
        c.arg("self", DurationG()).arg("other", DurationG())
        c.returns(lambda a, r: V.Iff(r, rel(V.ns(a.self), V.ns(a.other))))


_cmp("__eq__", lambda x, y: x == y)
_cmp("__ne__", lambda x, y: x != y)
_cmp("__lt__", lambda x, y: x < y)
_cmp("__le__", lambda x, y: x <= y)
_cmp("__gt__", lambda x, y: x > y)
_cmp("__ge__", lambda x, y: x >= y)


@contract(D + "compare_to", "C03", "C12")
def _(c):
    c.arg("self", DurationG()).arg("other", DurationG())
    c.returns(lambda a, r: V.sign_agrees(r, V.ns(a.self) - V.ns(a.other)))


for _mm, _rel in (("max", lambda r, x, y: And(r >= x, r >= y)), ("min", lambda r, x, y: And(r <= x, r <= y))):

    def _mk(mm=_mm, rel=_rel):
        @contract(D + mm, "C03", "C12", name=f"Duration.{mm}")
        def _(c):
            c.arg("x", DurationG()).arg("y", DurationG())
            c.returns(lambda a, r: And(V.inv_duration(r), Or(V.ns(r) == V.ns(a.x), V.ns(r) == V.ns(a.y)), rel(V.ns(r), V.ns(a.x), V.ns(a.y))))

    _mk()
