"""C13 -- the 512-slot zone-interval cache answers like an uncached computation, whatever it holds.

`__HashArrayCache.get_zone_interval` is verified from ANY state of the slot it looks at: empty, holding the node chain
of the requested 32-day period (by the representation invariant that chain IS what `_create_node` builds for the
period), or holding the chain of ANOTHER period that collides in the slot (periods a multiple of 512 apart).  In every
case the answer is the walk of the requested period's own chain -- a stale chain is never consulted -- and a refill stores
the new chain under the slot of its own period.  `_create_node` (the underlying map queries) is used through this
interface only; chains of 1..3 intervals per period (longer ones: the bounded stand-in)."""

from __future__ import annotations

from pyvc import sym
from pyvc.contracts import Gen, contract
from pyvc.sym import And, Implies, Not, Or
from pyvc.values import SList, SObj
from specs import views as V

from .gens import InstantG

MOD = "pyoda_time.time_zones._caching_zone_interval_map:"
HAC = MOD + "_CachingZoneIntervalMap._CachingZoneIntervalMap__HashArrayCache."


def _classes():
    from pyoda_time.time_zones._caching_zone_interval_map import _CachingZoneIntervalMap as M

    hac = vars(M)["_CachingZoneIntervalMap__HashArrayCache"]
    return hac, hac._HashCacheNode


def _chain(name, n, period, b):
    """a node chain of n intervals (oldest first in `ivs`); returns (newest node, intervals, raw starts in ns)"""
    from pyoda_time import Duration, Instant
    from pyoda_time.time_zones import ZoneInterval

    _, node_cls = _classes()
    node, ivs, starts = None, [], []
    for k in range(n):
        ns = sym.var_int(f"{name}.start{k}")
        b.assume(And(ns >= V.DUR_MIN_DAYS * V.NPD, ns <= V.DUR_MAX_DAYS * V.NPD))
        start = SObj(Instant, {"_Instant__duration": SObj(Duration, {"_Duration__days": ns // V.NPD, "_Duration__nano_of_day": ns % V.NPD}, owner=-1)}, owner=-1)
        iv = SObj(ZoneInterval, {"_ZoneInterval__raw_start": start}, owner=-1, tag=f"{name}.interval{k}")
        node = SObj(node_cls, {"_HashCacheNode__interval": iv, "_HashCacheNode__period": period, "_HashCacheNode__previous": node}, owner=-1, tag=f"{name}.node{k}")
        ivs.append(iv)
        starts.append(ns)
    return node, ivs, starts


class Slots:
    """the slot list: whatever index is read yields the content chosen for this case; stores are recorded"""

    pyvc_model = True
    pyvc_symbolic = True
    pyvc_pytype = list

    def __init__(self, content):
        self.content = content
        self.stores = SList([], owner=-1)
        self.read_at = []

    def pyvc_getitem(self, eng, idx):
        eng.oblige(And(idx >= 0, idx < 512), "slot index within the 512 slots", kind="index", site=eng.cur_site())
        self.read_at.append(idx)
        return self.content

    def pyvc_setitem(self, eng, idx, value):
        eng.log_write(self.stores, "__append__", None, False)
        self.stores.items.append((idx, value))


class CacheG(Gen):
    def make(self, name, b):
        hac, _ = _classes()
        period = sym.var_int("period")  # tied to the instant by a precondition of the contract
        n = b.pick(name + ".chain_length", [1, 2, 3])
        fresh, ivs, starts = _chain(name + ".own", n, period, b)
        state = b.pick(name + ".slot", ["empty", "own period", "colliding period"])
        if state == "empty":
            content = None
        elif state == "own period":
            content = fresh  # representation invariant: a node stored for period p is what _create_node(p) builds
        else:
            q = sym.var_int("other_period")
            b.assume(And(q != period, q % 512 == period % 512))
            m = b.pick(name + ".other_chain_length", [1, 2])
            content, _, _ = _chain(name + ".other", m, q, b)
        slots = Slots(content)
        slots.info = {"period": period, "fresh": fresh, "ivs": ivs, "starts": starts, "slots": slots, "state": state}
        o = SObj(hac, {"_HashArrayCache__instant_cache": slots, "_HashArrayCache__map": SObj(object, {}, owner=-1, tag="underlying map")}, owner=-1, tag=name)
        return o

    def concretize(self, v, ev, live):
        return v


def _setup(eng):
    _, node_cls = _classes()

    def create(eng, cls, period, map_):
        zc = _zc(eng.contract_ns)
        eng.oblige(period == zc["period"], "_create_node is asked for the period of the instant", kind="callee-pre", site=eng.cur_site())
        return zc["fresh"]

    eng.func_models[vars(node_cls)["_create_node"].__func__] = create


@contract(HAC + "get_zone_interval", "C13", name="zone-interval cache: get_zone_interval answers with the walk of the requested period's own chain from ANY state of the slot (empty, own period, colliding period); a refill goes to the slot of its own period")
def _(c):
    c.arg("self", CacheG()).arg("instant", InstantG())
    c.setup = _setup
    c.crosscheck = 0
    c.replayable = False
    c.pure = False
    c.allow_mutation = lambda obj, name: True
    c.unroll = {MOD + "_CachingZoneIntervalMap.__HashArrayCache.get_zone_interval": 4}

    c.requires(lambda a: _zc(a)["period"] == (V.inst_ns(a.instant) // V.NPD) // 32)

    def post(a, r, W):
        z = _zc(a)
        t = V.inst_ns(a.instant)
        ivs, starts = z["ivs"], z["starts"]
        # walk from the newest node: the first whose raw start is <= t, else the oldest
        want = []
        for k in range(len(ivs) - 1, -1, -1):
            newer_fail = And(*[starts[j] > t for j in range(k + 1, len(ivs))]) if k + 1 < len(ivs) else True
            here = (starts[k] <= t) if k > 0 else True
            want.append(Implies(And(newer_fail, here), r is ivs[k]))
        ok = And(*want)
        slots = z["slots"]
        for idx in slots.read_at:
            ok = And(ok, idx == z["period"] % 512)
        stores = [w for w in W.raw if w[0] is slots.stores]
        if z["state"] == "own period":
            ok = And(ok, len(stores) == 0)  # a hit does not write
        for _cont, _key, (idx, node) in stores:
            ok = And(ok, idx == z["period"] % 512, node is z["fresh"])
        return ok

    c.returns(post)
    _ = (Not, Or)


def _zc(a):
    return a.self.fields["_HashArrayCache__instant_cache"].info


# ------------------------------------------------------------------------------------------ end to end over a small abstract map
_INFO: dict = {}


class AbstractMap:
    """the underlying map: its one method is replaced by its contract (see _e2e_setup)"""

    def get_zone_interval(self, instant):  # pragma: no cover - modelled
        raise NotImplementedError


class MapG(Gen):
    """An underlying interval map consisting of 4 consecutive intervals with unknown boundaries
    (-inf, s1), [s1, s2), [s2, s3), [s3, +inf): every shape a 32-day period can meet with up to three transitions."""

    def make(self, name, b):
        from pyoda_time import Duration, Instant
        from pyoda_time.time_zones import ZoneInterval

        def inst(ns_or_days, marker=False):
            if marker:
                return SObj(Instant, {"_Instant__duration": SObj(Duration, {"_Duration__days": ns_or_days, "_Duration__nano_of_day": 0}, owner=-1)}, owner=-1)
            return SObj(Instant, {"_Instant__duration": SObj(Duration, {"_Duration__days": ns_or_days // V.NPD, "_Duration__nano_of_day": ns_or_days % V.NPD}, owner=-1)}, owner=-1)

        s = [sym.var_int(f"{name}.s{k}") for k in (1, 2, 3)]
        b.assume(And(s[0] >= V.INSTANT_MIN_DAYS * V.NPD, s[0] < s[1], s[1] < s[2], s[2] < (V.INSTANT_MAX_DAYS + 1) * V.NPD))
        bounds = [inst(V.DUR_MIN_DAYS, True)] + [inst(x) for x in s] + [inst(V.DUR_MAX_DAYS, True)]
        ivs = [SObj(ZoneInterval, {"_ZoneInterval__raw_start": bounds[k], "_ZoneInterval__raw_end": bounds[k + 1]}, owner=-1, tag=f"{name}.interval{k}") for k in range(4)]
        m = SObj(AbstractMap, {}, owner=-1, tag=name)
        _INFO[id(m)] = {"s": s, "ivs": ivs, "keep": m}
        b.named[name] = m
        return m

    def concretize(self, v, ev, live):
        return v


def _which(m, t):
    """index of the interval of the abstract map that contains instant t (as four guarded cases)"""
    s = _INFO[id(m)]["s"]
    return [t < s[0], And(t >= s[0], t < s[1]), And(t >= s[1], t < s[2]), t >= s[2]]


class CacheOverMapG(Gen):
    def make(self, name, b):
        hac, _ = _classes()
        m = b.named["map"]
        state = b.pick(name + ".slot", ["empty", "colliding period"])
        content = None
        if state != "empty":
            q = sym.var_int("other_period")
            b.assume(And(q != sym.var_int("period"), q % 512 == sym.var_int("period") % 512))
            content, _, _ = _chain(name + ".other", 2, q, b)
        slots = Slots(content)
        slots.info = {"period": sym.var_int("period"), "state": state, "slots": slots}
        return SObj(hac, {"_HashArrayCache__instant_cache": slots, "_HashArrayCache__map": m}, owner=-1, tag=name)

    def concretize(self, v, ev, live):
        return v


def _e2e_setup(eng):
    def get(eng, self_, instant):
        m = eng.contract_ns.map
        t = V.inst_ns(instant)
        cases = _which(m, t)
        for k in range(3):
            if eng.truth(cases[k]):
                return _INFO[id(m)]["ivs"][k]
        return _INFO[id(m)]["ivs"][3]

    eng.func_models[vars(AbstractMap)["get_zone_interval"]] = get


@contract(HAC + "get_zone_interval", "C13", name="zone-interval cache END TO END over an abstract 4-interval map: a miss (empty or colliding slot) builds the period's chain with the real _create_node and answers with the map's own interval for the instant")
def _(c):
    c.ghost("map", MapG()).arg("self", CacheOverMapG()).arg("instant", InstantG())
    c.crosscheck = 0
    c.replayable = False
    c.pure = False
    c.allow_mutation = lambda obj, name: True
    c.unroll = {MOD + "_CachingZoneIntervalMap.__HashArrayCache.get_zone_interval": 5, MOD + "_CachingZoneIntervalMap.__HashArrayCache._HashCacheNode._create_node": 5}

    c.setup = _e2e_setup
    c.requires(lambda a: _zc(a)["period"] == (V.inst_ns(a.instant) // V.NPD) // 32)

    def post(a, r):
        t = V.inst_ns(a.instant)
        cases = _which(a.map, t)
        return And(*[Implies(cases[k], r is _INFO[id(a.map)]["ivs"][k]) for k in range(4)])

    c.returns(post)
