"""C07 -- custom patterns (invariant culture): for each pattern text of a stated finite family, parse(format(v)) returns
v restricted to what the pattern's fields can represent, for EVERY value (symbolic execution of the real format and
parse actions the builder produced for that text)."""

from __future__ import annotations

from pyvc.contracts import Const, contract
from pyvc.sym import And, Implies, Not, Or
from specs import cal_abs as CA
from specs import views as V

from .c17_iso import H, _pat, _setup, hms_lemma, same_date
from .gens import IsoStdCalG, LocalDateG, LocalTimeG, OffsetG

TIME_PATTERNS = {
    # pattern text: nanoseconds kept by the pattern (unit), i.e. parse(format(t)) == t // unit * unit
    "HH:mm": V.NPM,
    "H:m:s": V.NPS,
    "HH:mm:ss.fff": V.NPMS,
    "HH:mm:ss.FFF": V.NPMS,
    "HH:mm:ss.ffffff": V.NPUS,
    "HH'h'mm'm'": V.NPM,
    "HH\\:mm": V.NPM,
    "hh:mm:ss tt": V.NPS,
    "h:mm t": V.NPM,
    "HHmmss": V.NPS,
}

for _pt, _unit in TIME_PATTERNS.items():

    def _mk(pt=_pt, unit=_unit):
        @contract(H + "pattern_rt", "C07", name=f"LocalTimePattern({pt!r}): parse(format(t)) == t to the resolution of the pattern's fields, for every time of day")
        def _(c):
            c.arg("pattern", Const(_pat(f"T.LocalTimePattern.create_with_invariant_culture({pt!r})"))).arg("value", LocalTimeG())
            c.setup = _setup
            c.timeout_s = 120
            c.max_paths = 40000
            c.lemma(lambda a: hms_lemma(V.lt_nanos(a.value)))
            c.returns(lambda a, r: And(r[0], V.lt_nanos(r[1]) == V.lt_nanos(a.value) // unit * unit) if r[1] is not None else False)

    _mk()


DATE_PATTERNS = ["dd/MM/uuuu", "uuuuMMdd", "d/M/uuuu", "uuuu-MM-dd'T'", "MM/dd/uuuu", "dd MMM uuuu", "d MMMM uuuu", "uuuu-MM-dd ddd"]

for _pt in DATE_PATTERNS:

    def _mk2(pt=_pt):
        @contract(H + "pattern_rt", "C07", name=f"LocalDatePattern({pt!r}): parse(format(d)) == d for every ISO date of years 0..9999")
        def _(c):
            c.ghost("cal", IsoStdCalG("cal")).arg("pattern", Const(_pat(f"T.LocalDatePattern.create_with_invariant_culture({pt!r})"))).arg("value", LocalDateG("cal"))
            c.setup = _setup
            c.timeout_s = 180
            c.max_paths = 60000
            c.vc_chunks = 6 if "MMM" in pt else 1  # month names: hundreds of paths; spread the obligations over the pool
            c.weight = 6 if "MMM" in pt else 1
            c.requires(lambda a: And(V.ld_y(a.value) >= 0, V.ld_y(a.value) <= 9999))
            c.returns(lambda a, r: And(r[0], same_date(r[1], a.value)) if r[1] is not None else False)

    _mk2()


OFFSET_PATTERNS = ["+HH:mm:ss", "+HH:mm", "+HH", "-HH:mm:ss", "Z+HH:mm:ss", "+HHmm"]

for _pt in OFFSET_PATTERNS:

    def _mk3(pt=_pt):
        unit = 1 if "ss" in pt else (60 if "mm" in pt else 3600)

        @contract(H + "pattern_rt", "C07", name=f"OffsetPattern({pt!r}): parse(format(o)) == o to the resolution of the pattern's fields, for every offset within +-18 h")
        def _(c):
            c.arg("pattern", Const(_pat(f"T.OffsetPattern.create_with_invariant_culture({pt!r})"))).arg("value", OffsetG())
            c.setup = _setup
            c.timeout_s = 120
            c.max_paths = 40000
            from pyvc.sym import trunc_div

            c.returns(lambda a, r: And(r[0], V.off_seconds(r[1]) == trunc_div(V.off_seconds(a.value), unit) * unit) if r[1] is not None else False)

    _mk3()


_ = (CA, Implies, Not, Or)
