"""C12 -- equality is equality of the documented components, equal values hash equally, ordering operators agree
with one total order, cross-calendar / unrelated-type comparisons are refused, and nothing mutates its operands
(the frame condition `pure` is checked by the engine on every contract in this repository of contracts)."""

from __future__ import annotations

from pyvc.contracts import Const, Int, contract
from pyvc.sym import And, Iff, Implies, Not, Or
from specs import cal_abs as CA
from specs import views as V

from .c01_generic import ld_dse
from .gens import (
    AbsCalG,
    DateIntervalG,
    DurationG,
    InstantAnyG,
    IntervalG,
    LocalDateG,
    LocalDateTimeG,
    LocalTimeG,
    OffsetDateTimeG,
    OffsetG,
    OffsetTimeG,
    PeriodG,
    YearMonthG,
)

H = "harness.values:"
LD = "pyoda_time._local_date:LocalDate."
LDT = "pyoda_time._local_date_time:LocalDateTime."


def _setup(eng):
    from specs import cal_abs, field_models

    cal_abs.install(eng)
    field_models.install(eng)


def _eq_hash(name, gen, same, abstract=False):
    @contract(H + "eq_hash", "C12", name=f"{name}: == is equality of the documented components, != is its negation, equal values hash equally")
    def _(c):
        if abstract:
            c.ghost("cal", AbsCalG())
            c.setup = _setup
        c.arg("x", gen()).arg("y", gen())

        def post(a, r):
            eq, hx, hy, ne = r
            s = same(a, a.x, a.y)
            return And(Iff(eq, s), Iff(ne, Not(s)), Implies(s, hx == hy))

        c.returns(post)
        c.crosscheck = 0


_eq_hash("Duration", DurationG, lambda a, x, y: V.ns(x) == V.ns(y))
_eq_hash("Instant", InstantAnyG, lambda a, x, y: V.inst_ns(x) == V.inst_ns(y))
_eq_hash("Offset", OffsetG, lambda a, x, y: V.off_seconds(x) == V.off_seconds(y))
_eq_hash("LocalTime", LocalTimeG, lambda a, x, y: V.lt_nanos(x) == V.lt_nanos(y))
_eq_hash("OffsetTime", OffsetTimeG, lambda a, x, y: And(V.ot_n(x) == V.ot_n(y), V.ot_off(x) == V.ot_off(y)))
_eq_hash("Interval", IntervalG, lambda a, x, y: And(V.inst_ns(V.fld(x, "_Interval__start")) == V.inst_ns(V.fld(y, "_Interval__start")), V.inst_ns(V.fld(x, "_Interval__end")) == V.inst_ns(V.fld(y, "_Interval__end"))))
_eq_hash("Period", PeriodG, lambda a, x, y: And(*[V.per(x, n) == V.per(y, n) for n in ("years", "months", "weeks", "days", "hours", "minutes", "seconds", "milliseconds", "ticks", "nanoseconds")]))
_eq_hash("LocalDate", LocalDateG, lambda a, x, y: ld_dse(a, x) == ld_dse(a, y), abstract=True)
_eq_hash("LocalDateTime", LocalDateTimeG, lambda a, x, y: And(ld_dse(a, V.ldt_date(x)) == ld_dse(a, V.ldt_date(y)), V.lt_nanos(V.ldt_time(x)) == V.lt_nanos(V.ldt_time(y))), abstract=True)
_eq_hash(
    "OffsetDateTime",
    OffsetDateTimeG,
    lambda a, x, y: And(ld_dse(a, V.odt_date(x)) == ld_dse(a, V.odt_date(y)), V.ot_n(V.odt_ot(x)) == V.ot_n(V.odt_ot(y)), V.ot_off(V.odt_ot(x)) == V.ot_off(V.odt_ot(y))),
    abstract=True,
)
_eq_hash(
    "DateInterval",
    DateIntervalG,
    lambda a, x, y: And(ld_dse(a, V.fld(x, "_DateInterval__start")) == ld_dse(a, V.fld(y, "_DateInterval__start")), ld_dse(a, V.fld(x, "_DateInterval__end")) == ld_dse(a, V.fld(y, "_DateInterval__end"))),
    abstract=True,
)


def _ym_first(a, ym):
    o = V.fld(ym, "_YearMonth__start_of_month")
    return CA.dse(a.cal.cid, V.fld(o, "$y"), V.fld(o, "$m"), 1)


_eq_hash("YearMonth", YearMonthG, lambda a, x, y: _ym_first(a, x) == _ym_first(a, y), abstract=True)


# ------------------------------------------------------------------------------------------ ordering within one calendar
def _order(name, gen, key, abstract=True):
    @contract(H + "order_ops", "C12", name=f"{name}: <, <=, >, >=, compare_to agree with one total order (the day number / timeline)")
    def _(c):
        if abstract:
            c.ghost("cal", AbsCalG())
            c.setup = _setup
        c.arg("x", gen()).arg("y", gen())

        def post(a, r):
            lt, le, gt, ge, cmp_, eq = r
            kx, ky = key(a, a.x), key(a, a.y)
            return And(Iff(lt, kx < ky), Iff(le, kx <= ky), Iff(gt, kx > ky), Iff(ge, kx >= ky), V.sign_agrees(cmp_, kx - ky), Iff(eq, kx == ky))

        c.returns(post)
        c.crosscheck = 0


_order("LocalDate", LocalDateG, lambda a, x: ld_dse(a, x))
_order("LocalDateTime", LocalDateTimeG, lambda a, x: ld_dse(a, V.ldt_date(x)) * V.NPD + V.lt_nanos(V.ldt_time(x)))
_order("YearMonth", YearMonthG, _ym_first)


# ------------------------------------------------------------------------------------------ different calendars are refused
def _cross(name, gen):
    @contract(H + "order_ops", "C12", name=f"{name}: ordering values of different calendars raises instead of answering")
    def _(c):
        c.ghost("cal", AbsCalG("cal")).ghost("cal2", AbsCalG("cal2")).arg("x", gen("cal")).arg("y", gen("cal2"))
        c.setup = _setup
        c.requires(lambda a: a.cal.ordinal != a.cal2.ordinal)
        c.raises(ValueError)
        c.crosscheck = 0


def _cross_each(name, gen):
    # one contract per operation: in the combined harness the first operator raises and hides the guards of the others
    for op in ("lt", "le", "gt", "ge", "compare_to"):

        def mk(op=op):
            @contract(H + "one_order_op", "C12", name=f"{name}: {op} on values of different calendars raises instead of answering")
            def _(c):
                c.ghost("cal", AbsCalG("cal")).ghost("cal2", AbsCalG("cal2")).arg("x", gen("cal")).arg("y", gen("cal2")).arg("op", Const(op))
                c.setup = _setup
                c.requires(lambda a: a.cal.ordinal != a.cal2.ordinal)
                c.raises(ValueError)
                c.crosscheck = 0

        mk()


for _nm, _g in (("LocalDate", LocalDateG), ("LocalDateTime", LocalDateTimeG), ("YearMonth", YearMonthG)):
    _cross(_nm, _g)
    _cross_each(_nm, _g)


for _nm, _tgt in (("LocalDate.max", LD + "max"), ("LocalDate.min", LD + "min")):

    def _mk(nm=_nm, tgt=_tgt):
        @contract(tgt, "C12", name=f"{nm} picks by day number; different calendars raise")
        def _(c):
            c.ghost("cal", AbsCalG()).arg("x", LocalDateG()).arg("y", LocalDateG())
            c.setup = _setup
            big = nm.endswith("max")

            def post(a, r):
                kx, ky, kr = ld_dse(a, a.x), ld_dse(a, a.y), ld_dse(a, r)
                return And(Or(kr == kx, kr == ky), (kr >= kx) if big else (kr <= kx), (kr >= ky) if big else (kr <= ky))

            c.returns(post)

    _mk()


# ------------------------------------------------------------------------------------------ unrelated types
for _nm, _gen, _tgt in (
    ("Duration", DurationG, "pyoda_time._duration:Duration."),
    ("Instant", InstantAnyG, "pyoda_time._instant:Instant."),
    ("Offset", OffsetG, "pyoda_time._offset:Offset."),
    ("LocalTime", LocalTimeG, "pyoda_time._local_time:LocalTime."),
):
    for _op in ("__eq__", "__lt__", "__le__", "__gt__", "__ge__"):

        def _mk2(nm=_nm, gen=_gen, tgt=_tgt, op=_op):
            @contract(tgt + op, "C12", name=f"{nm}.{op} with an unrelated operand is refused (NotImplemented)")
            def _(c):
                c.arg("self", gen()).arg("other", Const("not a value"))
                c.returns(lambda a, r: r is NotImplemented)
                c.crosscheck = 0

        _mk2()


# ------------------------------------------------------------------------------------------ further value types
from pyvc.contracts import Gen, Obj, OneOf  # noqa: E402

from .gens import InstantG, YmdG  # noqa: E402


class AnnualDateG(Gen):
    """month/day of the ISO calendar packed like a date of year 1 (slots class: one field)"""

    def make(self, name, b):
        from pyvc import sym
        from pyvc.values import SObj
        from pyoda_time._annual_date import AnnualDate
        from pyoda_time._year_month_day import _YearMonthDay
        from specs import packmodel

        m, d = sym.var_int(f"{name}.m"), sym.var_int(f"{name}.d")
        b.assume(And(m >= 1, m <= 12, d >= 1, d <= 31))
        ymd = SObj(_YearMonthDay, {"_YearMonthDay__value": packmodel.pack_ymd(1, m, d), "$y": 1, "$m": m, "$d": d}, owner=-1, tag=name + ".ymd")
        return SObj(AnnualDate, {"_AnnualDate__value": ymd}, owner=-1, tag=name)


def _ad(x):
    v = V.fld(x, "_AnnualDate__value")
    return V.fld(v, "$m") * 32 + V.fld(v, "$d")


_eq_hash("AnnualDate", AnnualDateG, lambda a, x, y: _ad(x) == _ad(y))


@contract(H + "order_ops", "C12", name="AnnualDate: <, <=, >, >=, compare_to agree with the order by (month, day)")
def _(c):
    c.arg("x", AnnualDateG()).arg("y", AnnualDateG())

    def post(a, r):
        lt, le, gt, ge, cmp_, eq = r
        kx, ky = _ad(a.x), _ad(a.y)
        return And(Iff(lt, kx < ky), Iff(le, kx <= ky), Iff(gt, kx > ky), Iff(ge, kx >= ky), V.sign_agrees(cmp_, kx - ky), Iff(eq, kx == ky))

    c.returns(post)
    c.crosscheck = 0


class OffsetDateG(Gen):
    def __init__(self, cal="cal"):
        self.cal = cal

    def make(self, name, b):
        from pyvc.values import SObj
        from pyoda_time._offset_date import OffsetDate

        return SObj(OffsetDate, {"_OffsetDate__date": LocalDateG(self.cal).make(name + ".date", b), "_OffsetDate__offset": OffsetG().make(name + ".offset", b)}, owner=-1, tag=name)


_eq_hash(
    "OffsetDate",
    OffsetDateG,
    lambda a, x, y: And(ld_dse(a, V.fld(x, "_OffsetDate__date")) == ld_dse(a, V.fld(y, "_OffsetDate__date")), V.off_seconds(V.fld(x, "_OffsetDate__offset")) == V.off_seconds(V.fld(y, "_OffsetDate__offset"))),
    abstract=True,
)


class ZoneIntervalG(Gen):
    def make(self, name, b):
        from pyvc.values import SObj
        from pyoda_time.time_zones._zone_interval import ZoneInterval

        nm = b.pick(name + ".name", ["EST", "EDT"])
        return SObj(
            ZoneInterval,
            {
                "_ZoneInterval__name": nm,
                "_ZoneInterval__raw_start": InstantAnyG().make(name + ".start", b),
                "_ZoneInterval__raw_end": InstantAnyG().make(name + ".end", b),
                "_ZoneInterval__wall_offset": OffsetG().make(name + ".wall", b),
                "_ZoneInterval__savings": OffsetG().make(name + ".savings", b),
            },
            owner=-1,
            tag=name,
        )


def _zi_same(a, x, y):
    g = lambda o, k: V.fld(o, "_ZoneInterval__" + k)  # noqa: E731
    return And(
        g(x, "name") == g(y, "name"),
        V.inst_ns(g(x, "raw_start")) == V.inst_ns(g(y, "raw_start")),
        V.inst_ns(g(x, "raw_end")) == V.inst_ns(g(y, "raw_end")),
        V.off_seconds(g(x, "wall_offset")) == V.off_seconds(g(y, "wall_offset")),
        V.off_seconds(g(x, "savings")) == V.off_seconds(g(y, "savings")),
    )


_eq_hash("ZoneInterval", ZoneIntervalG, _zi_same)


for _nm, _gen, _key in (("Duration", DurationG, lambda a, x: V.ns(x)), ("Instant", InstantG, lambda a, x: V.inst_ns(x)), ("Offset", OffsetG, lambda a, x: V.off_seconds(x)), ("LocalTime", LocalTimeG, lambda a, x: V.lt_nanos(x))):
    _order(_nm, _gen, _key, abstract=False)

_ = (Obj, OneOf, YmdG)


# ------------------------------------------------------------------------------------------------- ZonedDateTime, fixed zones
def _zoned_eq():
    from .c11_offset import AbsZoneG, ZonedG, _zone_setup

    def same_odt(a, x, y):
        ox, oy = V.fld(x, "_ZonedDateTime__offset_date_time"), V.fld(y, "_ZonedDateTime__offset_date_time")
        return And(ld_dse(a, V.odt_date(ox)) == ld_dse(a, V.odt_date(oy)), V.ot_n(V.odt_ot(ox)) == V.ot_n(V.odt_ot(oy)), V.ot_off(V.odt_ot(ox)) == V.ot_off(V.odt_ot(oy)))

    @contract(H + "eq_ne", "C12", name="ZonedDateTime (same zone, same calendar): == exactly when local date-time and offset agree, != is its negation")
    def _(c):
        c.ghost("cal", AbsCalG()).ghost("zone", AbsZoneG()).arg("x", ZonedG()).arg("y", ZonedG())
        c.setup = _zone_setup
        c.crosscheck = 0
        c.replayable = False
        c.returns(lambda a, r: And(Iff(r[0], same_odt(a, a.x, a.y)), Iff(r[1], Not(same_odt(a, a.x, a.y)))))

    class OtherZone(ZonedG):
        """the same kind of value in ANOTHER zone object (zones without value equality compare by identity)"""

        def make(self, name, b):
            from pyvc.values import SObj
            from pyoda_time import DateTimeZone

            z = super().make(name, b)
            z.fields["_ZonedDateTime__zone"] = SObj(DateTimeZone, {"_DateTimeZone__id": "Another/Zone"}, owner=-1, tag=name + ".zone")
            return z

    @contract(H + "eq_ne", "C12", name="ZonedDateTime in two different zones: never equal, whatever the date-times")
    def _(c):
        c.ghost("cal", AbsCalG()).ghost("zone", AbsZoneG()).arg("x", ZonedG()).arg("y", OtherZone())
        c.setup = _zone_setup
        c.crosscheck = 0
        c.replayable = False
        c.returns(lambda a, r: And(Not(r[0]), r[1]))


_zoned_eq()


def _fixed_zone_eq():
    from pyvc.contracts import OneOf

    @contract(H + "fixed_zone_eq", "C12", name="fixed zones (built by the real constructor): == / equals exactly when offset, id and name agree, != is its negation, equal zones hash equally")
    def _(c):
        ids, names = ["UTC+01", "Etc/X"], ["UTC+01", "+01"]
        c.arg("o1", OffsetG()).arg("id1", OneOf(ids)).arg("n1", OneOf(names)).arg("o2", OffsetG()).arg("id2", OneOf(ids)).arg("n2", OneOf(names))
        c.crosscheck = 0

        def post(a, r):
            eq, hx, hy, ne, equals = r
            s = And(V.off_seconds(a.o1) == V.off_seconds(a.o2), a.id1 == a.id2, a.n1 == a.n2)
            return And(Iff(eq, s), Iff(ne, Not(s)), Iff(equals, s), Implies(s, hx == hy))

        c.returns(post)


_fixed_zone_eq()
