"""C20 -- damaged data: every reader primitive, on ANY byte stream, either returns a value in its documented range
or raises InvalidPyodaDataError, and consumes a bounded number of bytes (termination: the ghost byte counter is the
loop variant)."""

from __future__ import annotations

from pyvc.contracts import Const, Int, Obj, contract
from pyvc.sym import And, Iff, Implies, Not, Or
from specs import views as V

H = "harness.tzio:"
RD = "pyoda_time.time_zones.io._date_time_zone_reader:_DateTimeZoneReader."
MPD = 86_400_000


def _ipde():
    from pyoda_time.utility import InvalidPyodaDataError

    return InvalidPyodaDataError


def AnyStreamG():
    from specs.tzio_models import StreamBytes

    return Obj("harness.tzio:AnyStream", {"left": Int(0, None), "pos": Const(0), "data": Const(StreamBytes())})


def _setup(eng):
    from specs import tzio_models

    tzio_models.install_any_stream(eng)


def _mk(which, name, rng, max_bytes):
    @contract(H + "read_prim", "C20", *(("C06",) if which == 5 else ()), name=f"reader.{name} on any byte stream: value in range or InvalidPyodaDataError; consumes at most the bytes present")
    def _(c):
        c.arg("stream", AnyStreamG()).arg("which", Const(which))
        c.setup = _setup
        c.crosscheck = 0
        c.replayable = False
        c.allow_mutation = lambda obj, n: True
        c.pure = False
        fn = "pyoda_time.time_zones.io._date_time_zone_reader:_DateTimeZoneReader.__read_varint"
        # loop invariant of the varint loop; variant = bytes left in the stream (each iteration consumes one byte or raises)
        c.loop(fn, 0, lambda v, a: And(v.ret >= 0, v.shift >= 0), variant=lambda v, a: V.fld(V.fld(v.self, "_DateTimeZoneReader__input"), "left"))
        c.returns(lambda a, r: And(rng(r[0]) if which != 5 else rng(r[0], a), r[1] >= 0, r[1] <= V.fld(a.stream, "left"), (r[1] <= max_bytes) if max_bytes else True))
        c.raises(_ipde())


_mk(0, "read_count", lambda v: And(v >= 0, v <= 2**31 - 1), None)
_mk(1, "read_signed_count", lambda v: True, None)
_mk(2, "read_milliseconds", lambda v: And(v >= -MPD, v < 2**31), 4)
_mk(3, "read_byte", lambda v: And(v >= 0, v <= 255), 1)
_mk(4, "__read_int64", lambda v: And(v >= -(2**63), v < 2**63), 8)
# has_more_data answers "is there another byte", whatever that byte's value is (a zero byte is data)
_mk(5, "has_more_data", lambda v, a: (V.fld(a.stream, "left") > 0) if v is True else (V.fld(a.stream, "left") == 0) if v is False else Iff(v, V.fld(a.stream, "left") > 0), 1)


# ------------------------------------------------------------------------------------------ the loading boundary
import io  # noqa: E402
import struct  # noqa: E402

SD = "pyoda_time.time_zones.io._tzdb_stream_data:_TzdbStreamData."
LEAKS = (struct.error, ValueError, UnicodeDecodeError, KeyError, IndexError, OverflowError)


def _boundary_setup(eng):
    """Everything called inside the boundary may return or raise any of the exception types that damaged data is
    known to produce deep in the readers (ranges, enum ids, decoding, unpacking, lookups, overflow) -- or the documented
    error itself.  The contract then says that only the documented error leaves the boundary."""
    from pyvc import sym
    from pyvc.values import ExcValue, PyRaise
    from pyoda_time.time_zones.io._tzdb_stream_data import _TzdbStreamData as D
    from pyoda_time.time_zones.io._tzdb_stream_field import _TzdbStreamField as F
    from pyoda_time.utility import InvalidPyodaDataError

    kinds = LEAKS + (InvalidPyodaDataError,)

    def may_raise(eng, tag):
        which = sym.fresh_int(f"outcome_{tag}")
        eng.assume(And(which >= 0, which <= len(kinds)))
        i = eng.choose([sym.SBool.lift(which == k) for k in range(len(kinds) + 1)], "inner-outcome")
        if i < len(kinds):
            raise PyRaise(ExcValue(kinds[i], (), f"model:{tag}"))

    def unpack(eng, fmt, data):
        may_raise(eng, "struct.unpack")
        return (sym.fresh_int("version"),)

    def read_fields(eng, cls, stream):
        may_raise(eng, "_read_fields")
        from pyvc.values import SList

        return SList([], owner=eng.active_runs[-1])

    def init(eng, self_, builder):
        may_raise(eng, "_TzdbStreamData.__init__")

    eng.models[struct.unpack] = unpack
    eng.func_models[vars(F)["_read_fields"].__func__] = read_fields
    eng.func_models[vars(D)["__init__"]] = init


@contract(SD + "_from_stream", "C20", name="_TzdbStreamData._from_stream: whatever damaged data makes the readers raise, only InvalidPyodaDataError leaves the loading boundary")
def _(c):
    c.arg("stream", Const(lambda: io.BytesIO(b"")))
    c.setup = _boundary_setup
    c.crosscheck = 0
    c.replayable = False
    c.returns(lambda a, r: True)
    c.raises(_ipde())
    c.min_obligations = 2


# ------------------------------------------------------------------------------------------ required fields
from pyvc.contracts import Gen, OneOf  # noqa: E402


class _BuilderG(Gen):
    """A _Builder whose four required fields are each present or missing (16 combinations)."""

    def make(self, name, b):
        from pyvc.values import SObj
        from pyoda_time.time_zones.cldr._windows_zones import WindowsZones
        from pyoda_time.time_zones.io._tzdb_stream_data import _TzdbStreamData as D

        B = vars(D)["_Builder"]
        have = [b.pick(f"{name}.{k}", [False, True]) for k in ("pool", "version", "idmap", "windows")]
        wz = object.__new__(WindowsZones)
        return SObj(
            B,
            {
                "_string_pool": ("UTC",) if have[0] else None,
                "_tzdb_version": "2023c" if have[1] else None,
                "_tzdb_id_map": {"Zulu": "UTC"} if have[2] else None,
                "_windows_mapping": wz if have[3] else None,
                "_zone_locations": None,
                "_zone_1970_locations": None,
                "_zone_fields": {},
            },
            owner=-1,
            tag=name,
        )


@contract(SD + "__init__", "C20", name="_TzdbStreamData.__init__: a stream lacking any required field (string pool, id map, version, Windows mapping) is rejected with InvalidPyodaDataError; otherwise all four are set")
def _(c):
    c.arg("self", Obj("pyoda_time.time_zones.io._tzdb_stream_data:_TzdbStreamData", {})).arg("builder", _BuilderG())
    c.crosscheck = 0
    c.replayable = False
    c.pure = False
    c.allow_mutation = lambda obj, n: True
    allp = lambda a: all(V.fld(a.builder, k) is not None for k in ("_string_pool", "_tzdb_version", "_tzdb_id_map", "_windows_mapping"))  # noqa: E731

    def post(a, r, W):
        return all(W(a.self, "_TzdbStreamData__" + k) is not None for k in ("string_pool", "tzdb_version", "windows_mapping", "tzdb_id_map"))

    c.returns(post, when=allp)
    c.raises(_ipde(), when=lambda a: not allp(a))


# ------------------------------------------------------------------------------------------ composite readers
def _mk_transition(label, prev_gen, short=False):
    """short=False: any stream, the varint loop by its invariant (shifts by a symbolic amount are abstracted, so a
    failed proof has no bit-exact model).  short=True: every stream of at most 5 bytes with the loop executed
    completely -- bit-exact, so a counter-model is a real byte string that is replayed on the real reader."""
    scope = "any byte stream of at most 5 bytes (loop executed completely, bit-exact)" if short else "any byte stream"

    @contract(H + "read_transition", "C20", name=f"reader.read_zone_interval_transition({label}) on {scope}: an instant (or end-of-time marker), or one of the errors the loading boundary translates; never any other exception")
    def _(c):
        from .gens import InstantAnyG

        c.arg("stream", AnyStreamG()).arg("previous", prev_gen() if prev_gen else Const(None))
        c.setup = _setup
        c.crosscheck = 0
        c.allow_mutation = lambda obj, n: True
        c.pure = False
        fn = "pyoda_time.time_zones.io._date_time_zone_reader:_DateTimeZoneReader.__read_varint"
        if short:
            c.requires(lambda a: V.fld(a.stream, "left") <= 5)
            c.max_paths = 20000
        else:
            c.loop(fn, 0, lambda v, a: And(v.ret >= 0, v.shift >= 0), variant=lambda v, a: V.fld(V.fld(v.self, "_DateTimeZoneReader__input"), "left"))
        c.returns(lambda a, r: And(V.isinst(r[0], "Instant"), r[1] >= 1, r[1] <= V.fld(a.stream, "left")))
        # exactly the types _TzdbStreamData.__DATA_ERRORS turns into InvalidPyodaDataError at create_zone / _from_stream
        c.raises(_ipde(), OverflowError, ValueError)
        _ = InstantAnyG


def _prev_any():
    from .gens import InstantAnyG

    return InstantAnyG()


for _short in (False, True):
    _mk_transition("no previous transition", None, _short)
    _mk_transition("previous = any instant or marker", _prev_any, _short)


# ------------------------------------------------------------------------------------------ the zone-creation boundary
def _zone_boundary_setup(eng):
    """Inside create_zone every reader call may return or raise any of the error types damaged data is known to
    produce; the contract says that only the documented error leaves."""
    from pyvc import sym
    from pyvc.values import ExcValue, PyRaise
    from pyoda_time.time_zones._cached_date_time_zone import _CachedDateTimeZone as CZ
    from pyoda_time.time_zones._fixed_date_time_zone import _FixedDateTimeZone as FZ
    from pyoda_time.time_zones._precalculated_date_time_zone import _PrecalculatedDateTimeZone as PZ
    from pyoda_time.time_zones.io._date_time_zone_reader import _DateTimeZoneReader as R
    from pyoda_time.utility import InvalidPyodaDataError

    kinds = LEAKS + (InvalidPyodaDataError,)

    def may_raise(eng, tag):
        which = sym.fresh_int(f"outcome_{tag}")
        eng.assume(And(which >= 0, which <= len(kinds)))
        i = eng.choose([sym.SBool.lift(which == k) for k in range(len(kinds) + 1)], "inner-outcome")
        if i < len(kinds):
            raise PyRaise(ExcValue(kinds[i], (), f"model:{tag}"))

    def read_string(eng, self_):
        may_raise(eng, "read_string")
        return "X"

    def read_byte(eng, self_):
        may_raise(eng, "read_byte")
        b = sym.fresh_int("zone_type")
        eng.assume(And(b >= 0, b <= 255))
        return b

    def read_zone(tag):
        def m(eng, *a):
            may_raise(eng, tag)
            from pyoda_time import DateTimeZone

            return DateTimeZone.utc

        return m

    eng.func_models[vars(R)["read_string"]] = read_string
    eng.func_models[vars(R)["read_byte"]] = read_byte
    eng.func_models[vars(FZ)["read"].__func__] = read_zone("_FixedDateTimeZone.read")
    eng.func_models[vars(PZ)["_read"].__func__] = read_zone("_PrecalculatedDateTimeZone._read")
    eng.func_models[vars(CZ)["_for_zone"].__func__] = read_zone("_CachedDateTimeZone._for_zone")


class _Field:
    def _create_stream(self):
        return io.BytesIO(b"")


def _mk_create_zone(label, fields, min_obl):
    @contract(SD + "create_zone", "C20", name=f"_TzdbStreamData.create_zone ({label}): whatever damaged data makes the lookups and readers raise, only InvalidPyodaDataError leaves")
    def _(c):
        c.arg("self", Obj("pyoda_time.time_zones.io._tzdb_stream_data:_TzdbStreamData", {"_TzdbStreamData__zone_fields": Const(fields), "_TzdbStreamData__string_pool": Const(lambda: ("UTC",))}))
        c.arg("id_", Const("Alias/Id")).arg("canonical_id", Const("Some/Zone"))
        c.setup = _zone_boundary_setup
        c.crosscheck = 0
        c.replayable = False
        c.returns(lambda a, r: True)
        c.raises(_ipde())
        c.min_obligations = min_obl


_mk_create_zone("the alias map names a zone that has no data field", lambda: {}, 1)
_mk_create_zone("zone data present", lambda: {"Some/Zone": _Field()}, 2)


@contract(H + "read_offset_any", "C20", name="reader.read_offset on any byte stream: an offset within +-18 h read from at most 4 bytes, or InvalidPyodaDataError / ValueError (translated at the loading boundary); never any other exception")
def _(c):
    c.arg("stream", AnyStreamG())
    c.setup = _setup
    c.crosscheck = 0
    c.allow_mutation = lambda obj, n: True
    c.pure = False
    c.returns(lambda a, r: And(V.isinst(r[0], "Offset"), V.off_seconds(r[0]) >= -64800, V.off_seconds(r[0]) <= 64800, r[1] >= 1, r[1] <= 4, r[1] <= V.fld(a.stream, "left")))
    c.raises(_ipde(), ValueError)
