"""C10 -- LocalTime: nanosecond-of-day in [0, 24h), exact accessors, modular addition; _TimePeriodField carries."""

from __future__ import annotations

from pyvc.contracts import Const, Int, OneOf, contract
from pyvc.sym import And, Iff, Implies, Not, Or, ite
from specs import views as V

from .gens import LocalTimeG

LT = "pyoda_time._local_time:LocalTime"
TPF = "pyoda_time.fields._time_period_field:_TimePeriodField."


def _rng(x, lo, hi):
    return And(x >= lo, x <= hi)


@contract(LT, "C10", name="LocalTime(hour, minute, second, millisecond)")
def _(c):
    c.arg("hour", Int()).arg("minute", Int()).arg("second", Int()).arg("millisecond", Int())
    ok = lambda a: And(_rng(a.hour, 0, 23), _rng(a.minute, 0, 59), _rng(a.second, 0, 59), _rng(a.millisecond, 0, 999))  # noqa: E731
    c.returns(lambda a, r: And(V.inv_local_time(r), V.lt_nanos(r) == a.hour * V.NPH + a.minute * V.NPM + a.second * V.NPS + a.millisecond * V.NPMS), when=ok)
    c.raises(ValueError, when=lambda a: Not(ok(a)))


@contract(LT + ".from_hour_minute_second_millisecond_tick", "C10")
def _(c):
    c.arg("hour", Int()).arg("minute", Int()).arg("second", Int()).arg("millisecond", Int()).arg("tick", Int())
    ok = lambda a: And(_rng(a.hour, 0, 23), _rng(a.minute, 0, 59), _rng(a.second, 0, 59), _rng(a.millisecond, 0, 999), _rng(a.tick, 0, 9999))  # noqa: E731
    c.returns(lambda a, r: And(V.inv_local_time(r), V.lt_nanos(r) == a.hour * V.NPH + a.minute * V.NPM + a.second * V.NPS + a.millisecond * V.NPMS + a.tick * 100), when=ok)
    c.raises(ValueError, when=lambda a: Not(ok(a)))


@contract(LT + ".from_hour_minute_second_tick", "C10")
def _(c):
    c.arg("hour", Int()).arg("minute", Int()).arg("second", Int()).arg("tick", Int())
    ok = lambda a: And(_rng(a.hour, 0, 23), _rng(a.minute, 0, 59), _rng(a.second, 0, 59), _rng(a.tick, 0, 9_999_999))  # noqa: E731
    c.returns(lambda a, r: And(V.inv_local_time(r), V.lt_nanos(r) == a.hour * V.NPH + a.minute * V.NPM + a.second * V.NPS + a.tick * 100), when=ok)
    c.raises(ValueError, when=lambda a: Not(ok(a)))


@contract(LT + ".from_hour_minute_second_nanosecond", "C10")
def _(c):
    c.arg("hour", Int()).arg("minute", Int()).arg("second", Int()).arg("nano", Int())
    ok = lambda a: And(_rng(a.hour, 0, 23), _rng(a.minute, 0, 59), _rng(a.second, 0, 59), _rng(a.nano, 0, V.NPS - 1))  # noqa: E731
    c.returns(lambda a, r: And(V.inv_local_time(r), V.lt_nanos(r) == a.hour * V.NPH + a.minute * V.NPM + a.second * V.NPS + a.nano), when=ok)
    c.raises(ValueError, when=lambda a: Not(ok(a)))


for _n, _u in (("nanoseconds", 1), ("ticks", 100), ("milliseconds", V.NPMS), ("seconds", V.NPS), ("minutes", V.NPM), ("hours", V.NPH)):

    def _mk(n=_n, u=_u):
        @contract(f"{LT}.from_{n}_since_midnight", "C10", name=f"LocalTime.from_{n}_since_midnight")
        def _(c):
            c.arg("x", Int())
            ok = lambda a: _rng(a.x, 0, V.NPD // u - 1)  # noqa: E731
            c.returns(lambda a, r: And(V.inv_local_time(r), V.lt_nanos(r) == a.x * u), when=ok)
            c.raises(ValueError, when=lambda a: Not(ok(a)))

    _mk()


def _acc(name, expect):
    @contract(f"{LT}.{name}", "C10", name=f"LocalTime.{name}")
    def _(c):
        c.arg("self", LocalTimeG())
        c.returns(lambda a, r: r == expect(V.lt_nanos(a.self)))


_acc("hour", lambda n: n // V.NPH)
_acc("minute", lambda n: (n // V.NPM) % 60)
_acc("second", lambda n: (n // V.NPS) % 60)
_acc("millisecond", lambda n: (n // V.NPMS) % 1000)
_acc("microsecond", lambda n: (n // V.NPUS) % 1_000_000)
_acc("tick_of_second", lambda n: (n // 100) % 10_000_000)
_acc("tick_of_day", lambda n: n // 100)
_acc("nanosecond_of_second", lambda n: n % V.NPS)
_acc("nanosecond_of_day", lambda n: n)
_acc("clock_hour_of_half_day", lambda n: ite((n // V.NPH) % 12 == 0, 12, (n // V.NPH) % 12))


for _n, _u in (("hours", V.NPH), ("minutes", V.NPM), ("seconds", V.NPS), ("milliseconds", V.NPMS), ("microseconds", V.NPUS), ("ticks", 100), ("nanoseconds", 1)):

    def _mk2(n=_n, u=_u):
        @contract(f"{LT}.plus_{n}", "C10", name=f"LocalTime.plus_{n}")
        def _(c):
            # for EVERY integer amount: wraps modulo 24 hours
            c.arg("self", LocalTimeG()).arg("v", Int())
            c.returns(lambda a, r: And(V.inv_local_time(r), V.lt_nanos(r) == (V.lt_nanos(a.self) + a.v * u) % V.NPD))

    _mk2()


_UNITS = [1, 100, V.NPUS, V.NPMS, V.NPS, V.NPM, V.NPH]


def _fields():
    from pyoda_time.fields._time_period_field import _TimePeriodField

    return [_TimePeriodField(u) for u in _UNITS]


def _unit_of(f):
    return V.fld(f, "_TimePeriodField__unit_nanoseconds")


@contract(TPF + "_add_local_time_with_extra_days", "C10", name="_TimePeriodField._add_local_time_with_extra_days (|v| < 1e27)")
def _(c):
    c.arg("self", OneOf(_fields)).arg("local_time", LocalTimeG()).arg("value", Int(-(10**27) + 1, 10**27 - 1))
    c.returns(lambda a, r: And(V.inv_local_time(r[0]), V.lt_nanos(r[0]) + r[1] * V.NPD == V.lt_nanos(a.local_time) + a.value * _unit_of(a.self)))


@contract(TPF + "_add_local_time_with_extra_days", "C10", name="_TimePeriodField._add_local_time_with_extra_days (any v)")
def _(c):
    # beyond 27 digits the Decimal-based division (A3) is only approximate: the time of day stays normalised and the
    # day carry is within the stated relative error, or decimal.InvalidOperation is raised; never a silent wrap to a small value
    import decimal

    c.arg("self", OneOf(_fields)).arg("local_time", LocalTimeG()).arg("value", Int())
    c.returns(lambda a, r: And(V.inv_local_time(r[0]), Implies(And(a.value > -(10**27), a.value < 10**27), V.lt_nanos(r[0]) + r[1] * V.NPD == V.lt_nanos(a.local_time) + a.value * _unit_of(a.self)), Implies(a.value >= 10**27, r[1] > 10**9), Implies(a.value <= -(10**27), r[1] < -(10**9))))
    c.raises(decimal.InvalidOperation, when=lambda a: Or(a.value >= 10**27, a.value <= -(10**27)))


@contract(TPF + "_add_local_time", "C10", name="_TimePeriodField._add_local_time")
def _(c):
    c.arg("self", OneOf(_fields)).arg("local_time", LocalTimeG()).arg("value", Int())
    c.returns(lambda a, r: And(V.inv_local_time(r), V.lt_nanos(r) == (V.lt_nanos(a.local_time) + a.value * _unit_of(a.self)) % V.NPD))


for _n, _rel in (("__eq__", lambda x, y: x == y), ("__ne__", lambda x, y: x != y), ("__lt__", lambda x, y: x < y), ("__le__", lambda x, y: x <= y), ("__gt__", lambda x, y: x > y), ("__ge__", lambda x, y: x >= y)):

    def _mk3(n=_n, rel=_rel):
        @contract(f"{LT}.{n}", "C10", "C12", name=f"LocalTime.{n}")
        def _(c):
            c.arg("self", LocalTimeG()).arg("other", LocalTimeG())
            c.returns(lambda a, r: Iff(r, rel(V.lt_nanos(a.self), V.lt_nanos(a.other))))

    _mk3()


@contract(LT + ".compare_to", "C10", "C12")
def _(c):
    c.arg("self", LocalTimeG()).arg("other", LocalTimeG())
    c.returns(lambda a, r: V.sign_agrees(r, V.lt_nanos(a.self) - V.lt_nanos(a.other)))


@contract(LT + ".plus_hours", "C10", name="CANARY LocalTime.plus_hours without wrap", canary=True)
def _(c):
    c.arg("self", LocalTimeG()).arg("v", Int())
    c.returns(lambda a, r: V.lt_nanos(r) == V.lt_nanos(a.self) + a.v * V.NPH)
