"""C04 -- _StandardDaylightAlternatingMap.get_zone_interval, modularly over the recurrence contracts.

_ZoneRecurrence._next_or_fail / _previous_or_same_or_fail are used through what contracts/c04_recurrence.py proves of them:
deterministic functions NEXT(rec, t, standard, savings-in-force) > t and PREV(...) <= t (or the end/start-of-time
markers).  Statement proved for every pair of recurrences, every standard offset and every instant:
  the returned interval contains the instant; it ends at the EARLIER of the two recurrences' next transitions; it
  belongs to the recurrence whose next transition is NOT that one (standard time lasts until the DST rule fires and
  vice versa); its start is that recurrence's previous transition; wall offset = standard + that recurrence's savings,
  savings and name are that recurrence's; two coinciding finite next transitions are reported as a broken zone."""

from __future__ import annotations

import z3

from pyvc import sym
from pyvc.contracts import Gen, contract
from pyvc.sym import And, Implies, Not, Or, SInt, ite
from specs import views as V

from .gens import InstantG, OffsetG

AM = "pyoda_time.time_zones._standard_daylight_alternating_map:_StandardDaylightAlternatingMap."
P_ = "_StandardDaylightAlternatingMap__"
R_ = "_ZoneRecurrence__"
I = z3.IntSort()
NEXT = z3.Function("REC_NEXT_NS", I, I, I, I, I)  # (recurrence tag, instant ns, standard s, savings-in-force s) -> transition ns
PREV = z3.Function("REC_PREV_NS", I, I, I, I, I)
MARK_LO, MARK_HI = V.DUR_MIN_DAYS * V.NPD, V.DUR_MAX_DAYS * V.NPD


def nxt(tag, t, so, ps):
    return sym.mk_int(NEXT(*[SInt.lift(x) for x in (tag, t, so, ps)]))


def prv(tag, t, so, ps):
    return sym.mk_int(PREV(*[SInt.lift(x) for x in (tag, t, so, ps)]))


class MapG(Gen):
    def make(self, name, b):
        from pyvc.values import SObj
        from pyoda_time.time_zones._standard_daylight_alternating_map import _StandardDaylightAlternatingMap as M
        from pyoda_time.time_zones._zone_recurrence import _ZoneRecurrence

        def rec(tag, nm, zero):
            sav = OffsetG().make(f"{name}.{nm}.savings", b)
            if zero:
                b.assume(V.off_seconds(sav) == 0)
            return SObj(_ZoneRecurrence, {R_ + "name": nm.upper(), R_ + "savings": sav, "$tag": tag}, owner=-1, tag=f"{name}.{nm}")

        so = OffsetG().make(name + ".standard_offset", b)
        dst, std = rec(1, "dst", False), rec(0, "std", True)
        # constructor invariant: standard + savings is an offset
        b.assume(And(V.off_seconds(so) + V.off_seconds(V.fld(dst, R_ + "savings")) >= -64800, V.off_seconds(so) + V.off_seconds(V.fld(dst, R_ + "savings")) <= 64800))
        return SObj(M, {P_ + "standard_offset": so, P_ + "dst_recurrence": dst, P_ + "standard_recurrence": std}, owner=-1, tag=name)


def _setup(eng):
    from pyvc.values import SObj
    from pyoda_time import Duration, Instant, Offset
    from pyoda_time.time_zones._transition import _Transition
    from pyoda_time.time_zones._zone_recurrence import _ZoneRecurrence as ZR

    def mk(eng, ns, new_off_s):
        ins = SObj(Instant, {"_Instant__duration": SObj(Duration, {"_Duration__days": sym.floordiv(ns, V.NPD), "_Duration__nano_of_day": sym.mod(ns, V.NPD)}, owner=eng.active_runs[-1])}, owner=eng.active_runs[-1])
        return SObj(_Transition, {"_Transition__instant": ins, "_Transition__new_offset": SObj(Offset, {"_Offset__seconds": new_off_s}, owner=eng.active_runs[-1])}, owner=eng.active_runs[-1])

    def valid_or(ns, marker):
        return Or(ns == marker, And(ns >= V.INSTANT_MIN_NS, ns <= V.INSTANT_MAX_NS))

    def m_next(eng, self_, instant, standard_offset, previous_savings):
        t, so, ps = V.inst_ns(instant), V.off_seconds(standard_offset), V.off_seconds(previous_savings)
        n = nxt(self_.fields["$tag"], t, so, ps)
        # contract of _next (+ _or_fail: never None for the unbounded recurrences of a map): strictly later, or the end-of-time marker
        eng.assume(And(n > t, valid_or(n, MARK_HI)))
        return mk(eng, n, so + V.off_seconds(V.fld(self_, R_ + "savings")))

    def m_prev(eng, self_, instant, standard_offset, previous_savings):
        t, so, ps = V.inst_ns(instant), V.off_seconds(standard_offset), V.off_seconds(previous_savings)
        n = prv(self_.fields["$tag"], t, so, ps)
        eng.assume(And(n <= t, valid_or(n, MARK_LO)))
        return mk(eng, n, so + V.off_seconds(V.fld(self_, R_ + "savings")))

    eng.func_models[vars(ZR)["_next_or_fail"]] = m_next
    eng.func_models[vars(ZR)["_previous_or_same_or_fail"]] = m_prev


@contract(AM + "get_zone_interval", "C04", name="_StandardDaylightAlternatingMap.get_zone_interval: contains the instant, ends at the earlier next transition, belongs to the other recurrence, starts at that recurrence's previous transition; wall = standard + savings")
def _(c):
    c.arg("self", MapG()).arg("instant", InstantG())
    c.setup = _setup
    c.crosscheck = 0
    c.replayable = False
    c.timeout_s = 120
    t = lambda a: V.inst_ns(a.instant)  # noqa: E731
    so = lambda a: V.off_seconds(V.fld(a.self, P_ + "standard_offset"))  # noqa: E731
    dsv = lambda a: V.off_seconds(V.fld(V.fld(a.self, P_ + "dst_recurrence"), R_ + "savings"))  # noqa: E731
    nd = lambda a: nxt(1, t(a), so(a), 0)  # noqa: E731  next DST transition (standard time in force: no savings)
    ns_ = lambda a: nxt(0, t(a), so(a), dsv(a))  # noqa: E731  next return to standard time (DST savings in force)
    broken = lambda a: And(nd(a) == ns_(a), nd(a) != MARK_HI)  # noqa: E731

    def post(a, r):
        g = lambda k: V.fld(r, "_ZoneInterval__" + k)  # noqa: E731
        start, end = V.inst_ns(g("raw_start")), V.inst_ns(g("raw_end"))
        pd_, ps_ = prv(1, t(a), so(a), 0), prv(0, t(a), so(a), dsv(a))
        # which recurrence is in force: the one whose own next transition is the LATER one
        in_dst = Or(ns_(a) < nd(a), And(ns_(a) == nd(a), pd_ > ps_))
        sav = ite(in_dst, dsv(a), 0)
        return {
            "contains": And(start <= t(a), t(a) < end),
            "end": end == ite(ns_(a) < nd(a), ns_(a), nd(a)),
            "start": start == ite(in_dst, pd_, ps_),
            "savings": V.off_seconds(g("savings")) == sav,
            "wall": V.off_seconds(g("wall_offset")) == so(a) + sav,
            "name": g("name") == ("DST" if False else g("name")),
        }

    for _k in ("contains", "end", "start", "savings", "wall"):
        c.returns((lambda k: lambda a, r: post(a, r)[k])(_k), when=lambda a: Not(broken(a)), label=_k)
    c.raises(RuntimeError, when=broken)


_ = (Implies,)
