"""C04 -- _PrecalculatedDateTimeZone.get_zone_interval: binary search over the precalculated periods.

The period list is a sequence of SYMBOLIC length n; its elements are given by uninterpreted functions of the index
(start/end as day + nanosecond-of-day, sentinels included).  The class invariant established at construction
(_validate_periods + the ZoneInterval constructor) is the precondition:
    n >= 1,  start(0) is the start-of-time marker,  end(i) == start(i+1),  start(i) < end(i),
    and without a tail zone end(n-1) is the end-of-time marker.
Postcondition: the returned interval is periods[k] for the k with start(k) <= instant < end(k); no RuntimeError
("instant did not exist in time zone") for any instant before the tail start.  The loop carries an inductive invariant
and a variant (upper - lower), so the result holds for every n."""

from __future__ import annotations

import z3

from pyvc import sym
from pyvc.contracts import Gen, contract
from pyvc.sym import And, Implies, Not, Or, SInt
from specs import views as V

from .gens import InstantAnyG, InstantG

PZ = "pyoda_time.time_zones._precalculated_date_time_zone:_PrecalculatedDateTimeZone."
I = z3.IntSort()
SD, SN, ED, EN = (z3.Function(n, I, I) for n in ("P_START_DAYS", "P_START_NANO", "P_END_DAYS", "P_END_NANO"))


def f(fn, i):
    return sym.mk_int(fn(SInt.lift(i)))


def start_ns(i):
    return f(SD, i) * V.NPD + f(SN, i)


def end_ns(i):
    return f(ED, i) * V.NPD + f(EN, i)


def _instant_or_marker(d, ns):
    """a valid instant or exactly one of the two markers (the only Instants the library ever creates)"""
    valid = And(d >= V.INSTANT_MIN_DAYS, d <= V.INSTANT_MAX_DAYS, ns >= 0, ns < V.NPD)
    return Or(valid, And(d == V.DUR_MIN_DAYS, ns == 0), And(d == V.DUR_MAX_DAYS, ns == 0))


def elem_inv(i):
    """every period is a ZoneInterval whose bounds are instants (or the markers) with start < end (constructor check)"""
    sd, sn, ed, en = f(SD, i), f(SN, i), f(ED, i), f(EN, i)
    return And(_instant_or_marker(sd, sn), _instant_or_marker(ed, en), start_ns(i) < end_ns(i))


class ZoneG(Gen):
    """a _PrecalculatedDateTimeZone without tail zone whose periods satisfy the class invariant"""

    def make(self, name, b):
        from pyvc.symseq import SymSeq
        from pyvc.values import SObj
        from pyoda_time import Duration, Instant
        from pyoda_time.time_zones._precalculated_date_time_zone import _PrecalculatedDateTimeZone
        from pyoda_time.time_zones._zone_interval import ZoneInterval

        n = sym.var_int(f"{name}.n")
        b.assume(And(n >= 1, n <= 2**31 - 1))  # a list read with a 32-bit count (below 10**27 the midpoint division is exact, A3)
        i = z3.Int("i!q")
        iv = sym.mk_int(i)
        # class invariant  forall i. 0 <= i < n -> elem_inv(i)  and  forall i. 0 <= i < n-1 -> end(i) == start(i+1):
        # instantiated, for every obligation, at every index term the obligation mentions and its two neighbours
        def instances(goal):
            from specs.cal_abs import _collect_apps

            apps = _collect_apps(list(goal), {"P_START_DAYS", "P_START_NANO", "P_END_DAYS", "P_END_NANO"})
            idx = {}
            for lst in apps.values():
                for (t,) in lst:
                    for d in (-1, 0, 1):
                        u = z3.simplify(t + d)
                        idx[u.get_id()] = u
            out = []
            for u in idx.values():
                uv = sym.mk_int(u)
                out.append(z3.Implies(z3.And(u >= 0, u < n.t), sym.SBool.lift(elem_inv(uv))))
                out.append(z3.Implies(z3.And(u >= 0, u < n.t - 1), z3.And(ED(u) == SD(u + 1), EN(u) == SN(u + 1))))
            return out

        class _Axioms:
            def register(self, eng):
                eng.axiom_instantiator = instances

        b.named[name + ".axioms"] = _Axioms()
        b.assume(And(f(SD, 0) == V.DUR_MIN_DAYS, f(SN, 0) == 0))  # no start: the start-of-time marker
        b.assume(And(f(ED, n - 1) == V.DUR_MAX_DAYS, f(EN, n - 1) == 0))  # no tail: the end-of-time marker

        def mk_instant(d, ns):
            return SObj(Instant, {"_Instant__duration": SObj(Duration, {"_Duration__days": d, "_Duration__nano_of_day": ns}, owner=-1)}, owner=-1)

        def getter(eng, idx):
            return SObj(ZoneInterval, {"_ZoneInterval__raw_start": mk_instant(f(SD, idx), f(SN, idx)), "_ZoneInterval__raw_end": mk_instant(f(ED, idx), f(EN, idx)), "$index": idx}, owner=-1, tag=f"{name}.periods[{idx}]")

        seq = SymSeq(n, getter)
        zone = SObj(
            _PrecalculatedDateTimeZone,
            {
                "_PrecalculatedDateTimeZone__periods": seq,
                "_PrecalculatedDateTimeZone__tail_zone": None,
                "_PrecalculatedDateTimeZone__tail_zone_start": mk_instant(f(ED, n - 1), f(EN, n - 1)),
                "_PrecalculatedDateTimeZone__first_tail_zone_interval": None,
                "_DateTimeZone__id": "Symbolic/Zone",
                "$n": n,
            },
            owner=-1,
            tag=name,
        )
        return zone


@contract(PZ + "get_zone_interval", "C04", name="_PrecalculatedDateTimeZone.get_zone_interval (no tail): for ANY number of periods satisfying the class invariant, returns the one period containing the instant; never 'instant did not exist'")
def _(c):
    c.arg("self", ZoneG()).arg("instant", InstantG())
    c.crosscheck = 0
    c.replayable = False
    c.timeout_s = 60
    n = lambda a: V.fld(a.self, "$n")  # noqa: E731
    t = lambda a: V.inst_ns(a.instant)  # noqa: E731

    def inv(v, a):
        lo, up = v.lower, v.upper
        return And(lo >= 0, lo <= up, up <= n(a), Implies(lo > 0, end_ns(lo - 1) <= t(a)), Implies(up < n(a), start_ns(up) > t(a)))

    c.loop("pyoda_time.time_zones._precalculated_date_time_zone:_PrecalculatedDateTimeZone.get_zone_interval", 0, inv, variant=lambda v, a: v.upper - v.lower)

    def post(a, r):
        k = V.fld(r, "$index")
        return And(k >= 0, k < n(a), start_ns(k) <= t(a), t(a) < end_ns(k))

    c.returns(post)


_ = (InstantAnyG, Not, Or)


# ------------------------------------------------------------------------------------------------- adjacency validation and min/max aggregation
from pyvc.contracts import Const, Int, OneOf  # noqa: E402

WALL = z3.Function("P_WALL_SECONDS", I, I)


def wall(i):
    return f(WALL, i)


class PeriodsG(Gen):
    """ANY list of ZoneIntervals (symbolic length, nothing assumed beyond each element being a ZoneInterval: bounds are
    instants or markers, start < end, wall offset within +-18 h)"""

    def make(self, name, b):
        from pyvc.symseq import SymSeq
        from pyvc.values import SObj
        from pyoda_time import Duration, Instant, Offset
        from pyoda_time.time_zones._zone_interval import ZoneInterval

        n = sym.var_int(f"{name}.n")
        b.assume(And(n >= 0, n <= 2**31 - 1))
        b.named[name + ".n"] = n

        def instances(goal):
            from specs.cal_abs import _collect_apps

            apps = _collect_apps(list(goal), {"P_START_DAYS", "P_START_NANO", "P_END_DAYS", "P_END_NANO", "P_WALL_SECONDS"})
            idx = {}
            for lst in apps.values():
                for (t,) in lst:
                    idx[t.get_id()] = t
            return [z3.Implies(z3.And(u >= 0, u < n.t), sym.SBool.lift(And(elem_inv(sym.mk_int(u)), wall(sym.mk_int(u)) >= -64800, wall(sym.mk_int(u)) <= 64800))) for u in idx.values()]

        class _Axioms:
            def register(self, eng):
                eng.axiom_instantiator = instances

        b.named[name + ".axioms"] = _Axioms()

        def mk_instant(d, ns):
            return SObj(Instant, {"_Instant__duration": SObj(Duration, {"_Duration__days": d, "_Duration__nano_of_day": ns}, owner=-1)}, owner=-1)

        def getter(eng, idx):
            eng.assume(And(elem_inv(idx), wall(idx) >= -64800, wall(idx) <= 64800))
            return SObj(
                ZoneInterval,
                {
                    "_ZoneInterval__raw_start": mk_instant(f(SD, idx), f(SN, idx)),
                    "_ZoneInterval__raw_end": mk_instant(f(ED, idx), f(EN, idx)),
                    "_ZoneInterval__wall_offset": SObj(Offset, {"_Offset__seconds": wall(idx)}, owner=-1),
                    "$index": idx,
                },
                owner=-1,
                tag=f"{name}[{idx}]",
            )

        return SymSeq(n, getter)


def is_start_marker(i):
    return f(SD, i) == V.DUR_MIN_DAYS


def is_end_marker(i):
    return f(ED, i) == V.DUR_MAX_DAYS


def adjacent(i):
    return And(f(ED, i) == f(SD, i + 1), f(EN, i) == f(SN, i + 1))


VP = "pyoda_time.time_zones._precalculated_date_time_zone:_PrecalculatedDateTimeZone._validate_periods"


@contract(PZ + "_validate_periods", "C04", "C20", name="_validate_periods (no tail zone): returns normally only if the class invariant holds (start marker first, every period abuts the next, end marker last); otherwise ValueError/RuntimeError -- for ANY list of periods")
def _(c):
    c.arg("periods", PeriodsG()).arg("tail_zone", Const(None)).ghost("g", Int())
    c.crosscheck = 0
    c.replayable = False
    c.timeout_s = 60
    n = lambda a: a.periods.length  # noqa: E731
    # invariant about an ARBITRARY ghost index g: every pair before the loop index has been checked
    c.loop(VP, 0, lambda v, a: And(v.i >= 0, Implies(And(a.g >= 0, a.g < v.i, a.g < n(a) - 1), adjacent(a.g))))
    good = lambda a: And(n(a) > 0, is_start_marker(0), Implies(And(a.g >= 0, a.g < n(a) - 1), adjacent(a.g)), is_end_marker(n(a) - 1))  # noqa: E731
    c.returns(lambda a, r: good(a))
    c.raises(ValueError, RuntimeError)


CO = "pyoda_time.time_zones._precalculated_date_time_zone:_PrecalculatedDateTimeZone.__compute_offset"


def _mk_compute(is_min):
    @contract(PZ + "__compute_offset", "C04", name=f"__compute_offset({'min' if is_min else 'max'}): the advertised {'minimum' if is_min else 'maximum'} offset bounds the wall offset of EVERY period and is attained -- for ANY list of periods (no tail zone)")
    def _(c):
        from pyoda_time import Offset

        agg = Offset.min if is_min else Offset.max
        c.arg("intervals", PeriodsG()).arg("tail_zone", Const(None)).arg("aggregator", Const(lambda: agg)).ghost("g", Int())
        c.crosscheck = 0
        c.replayable = False
        c.timeout_s = 60
        n = lambda a: a.intervals.length  # noqa: E731
        le = (lambda x, y: x <= y) if is_min else (lambda x, y: x >= y)

        def havoc_offset(eng, name):
            from pyvc.values import SObj

            s = sym.fresh_int(name + ".seconds")
            eng.assume(And(s >= -64800, s <= 64800))
            return SObj(Offset, {"_Offset__seconds": s}, owner=eng.active_runs[-1])

        c.loop(CO, 0, lambda v, a: And(v.i >= 0, Implies(And(a.g >= 0, a.g < v.i, a.g < n(a)), le(V.off_seconds(v.ret), wall(a.g)))), havoc={"ret": havoc_offset})
        c.returns(lambda a, r: Implies(And(a.g >= 0, a.g < n(a)), le(V.off_seconds(r), wall(a.g))))
        c.raises(ValueError, when=lambda a: n(a) == 0)


_mk_compute(True)
_mk_compute(False)

_ = OneOf


# ------------------------------------------------------------------------------------------------- hand-off to the tail zone
TS, TE = z3.Function("TAIL_START_NS", I, I), z3.Function("TAIL_END_NS", I, I)  # bounds of the tail map's interval containing t


def tail_bounds(t):
    return sym.mk_int(TS(SInt.lift(t))), sym.mk_int(TE(SInt.lift(t)))


class TailedZoneG(ZoneG):
    """as ZoneG, but with a tail map seen through the zone-interval-map interface contract ZONE:
         contains:  TS(t) <= t < TE(t)
         partition: TS(t) <= u < TE(t)  ->  the interval of u is the interval of t
    (`contains` is proved for the alternating map in contracts/c04_altmap.py; `partition` is an interface assumption)"""

    def make(self, name, b):
        from pyvc.values import SObj
        from pyoda_time import Duration, Instant
        from pyoda_time.time_zones._standard_daylight_alternating_map import _StandardDaylightAlternatingMap as M
        from pyoda_time.time_zones._zone_interval import ZoneInterval

        zone = super().make(name, b)
        n = zone.fields["$n"]
        # with a tail the last period ends at a finite instant: the tail start
        b.assumptions.pop()  # drop "end(n-1) is the end-of-time marker" added by ZoneG
        b.assume(And(f(ED, n - 1) >= V.INSTANT_MIN_DAYS, f(ED, n - 1) <= V.INSTANT_MAX_DAYS))
        tail_start = end_ns(n - 1)
        s0, e0 = tail_bounds(tail_start)
        b.assume(And(s0 <= tail_start, tail_start < e0))

        def mk_instant_ns(ns):
            return SObj(Instant, {"_Instant__duration": SObj(Duration, {"_Duration__days": sym.floordiv(ns, V.NPD), "_Duration__nano_of_day": sym.mod(ns, V.NPD)}, owner=-1)}, owner=-1)

        zone.fields["_PrecalculatedDateTimeZone__tail_zone"] = SObj(M, {"$tail": True}, owner=-1, tag=name + ".tail")
        # class invariant (constructor): the tail's interval at the tail start, clamped to start there
        zone.fields["_PrecalculatedDateTimeZone__first_tail_zone_interval"] = SObj(ZoneInterval, {"_ZoneInterval__raw_start": mk_instant_ns(tail_start), "_ZoneInterval__raw_end": mk_instant_ns(e0), "$first_tail": True}, owner=-1)
        zone.fields["$tail_start"] = tail_start
        return zone


def _tail_setup(eng):
    from pyvc.values import SObj
    from pyoda_time import Duration, Instant
    from pyoda_time.time_zones._standard_daylight_alternating_map import _StandardDaylightAlternatingMap as M
    from pyoda_time.time_zones._zone_interval import ZoneInterval

    def m_tail(eng, self_, instant):
        t = V.inst_ns(instant)
        s, e = tail_bounds(t)
        ts = eng.contract_ns.self.fields["$tail_start"]
        s0, e0 = tail_bounds(ts)
        lo_ok = Or(s == V.DUR_MIN_DAYS * V.NPD, And(s >= V.INSTANT_MIN_NS, s <= V.INSTANT_MAX_NS))
        hi_ok = Or(e == V.DUR_MAX_DAYS * V.NPD, And(e >= V.INSTANT_MIN_NS, e <= V.INSTANT_MAX_NS))
        eng.assume(And(s <= t, t < e, lo_ok, hi_ok, Implies(And(s <= ts, ts < e), And(s0 == s, e0 == e))))

        def mk(ns):
            return SObj(Instant, {"_Instant__duration": SObj(Duration, {"_Duration__days": sym.floordiv(ns, V.NPD), "_Duration__nano_of_day": sym.mod(ns, V.NPD)}, owner=eng.active_runs[-1])}, owner=eng.active_runs[-1])

        return SObj(ZoneInterval, {"_ZoneInterval__raw_start": mk(s), "_ZoneInterval__raw_end": mk(e), "$from_tail": True}, owner=eng.active_runs[-1])

    eng.func_models[vars(M)["get_zone_interval"]] = m_tail


@contract(PZ + "get_zone_interval", "C04", name="_PrecalculatedDateTimeZone.get_zone_interval (with a tail zone): before the tail start the binary search answers, from it on the tail map does, and the first tail interval is clamped to start at the tail start -- the returned interval always contains the instant and never reaches back before the tail start")
def _(c):
    c.arg("self", TailedZoneG()).arg("instant", InstantG())
    c.setup = _tail_setup
    c.crosscheck = 0
    c.replayable = False
    c.timeout_s = 60
    n = lambda a: V.fld(a.self, "$n")  # noqa: E731
    t = lambda a: V.inst_ns(a.instant)  # noqa: E731
    ts = lambda a: V.fld(a.self, "$tail_start")  # noqa: E731

    def inv(v, a):
        lo, up = v.lower, v.upper
        return And(lo >= 0, lo <= up, up <= n(a), Implies(lo > 0, end_ns(lo - 1) <= t(a)), Implies(up < n(a), start_ns(up) > t(a)))

    c.loop("pyoda_time.time_zones._precalculated_date_time_zone:_PrecalculatedDateTimeZone.get_zone_interval", 0, inv, variant=lambda v, a: v.upper - v.lower)

    def post(a, r):
        s = V.inst_ns(V.fld(r, "_ZoneInterval__raw_start"))
        e = V.inst_ns(V.fld(r, "_ZoneInterval__raw_end"))
        return And(s <= t(a), t(a) < e, Implies(t(a) >= ts(a), s >= ts(a)))

    c.returns(post)
