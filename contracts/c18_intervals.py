"""C18 -- DateInterval = the set of days {dse(start) .. dse(end)}; Interval = half-open set of instants."""

from __future__ import annotations

from pyvc.contracts import Int, contract
from pyvc.sym import And, Iff, Implies, Not, Or, ite, pymax, pymin
from specs import cal_abs as CA
from specs import views as V

from .c01_generic import ld_dse, ld_valid_in
from .gens import AbsCalG, DateIntervalG, DurationG, InstantAnyG, InstantG, IntervalG, LocalDateG

DI = "pyoda_time._date_interval:DateInterval"
IV = "pyoda_time._interval:Interval"


def _setup(eng):
    from specs import cal_abs, field_models

    cal_abs.install(eng)
    field_models.install(eng)


def lo(a, iv, cal=None):
    return ld_dse(a, V.fld(iv, "_DateInterval__start"), cal)


def hi(a, iv, cal=None):
    return ld_dse(a, V.fld(iv, "_DateInterval__end"), cal)


@contract(DI, "C18", name="DateInterval(start, end) accepts exactly start <= end (same calendar)")
def _(c):
    c.ghost("cal", AbsCalG()).arg("start", LocalDateG()).arg("end", LocalDateG())
    ok = lambda a: ld_dse(a, a.start) <= ld_dse(a, a.end)  # noqa: E731
    c.returns(lambda a, r: And(lo(a, r) == ld_dse(a, a.start), hi(a, r) == ld_dse(a, a.end)), when=ok)
    c.raises(ValueError, when=lambda a: Not(ok(a)))


@contract(DI, "C18", "C12", name="DateInterval(start, end) rejects mixed calendars")
def _(c):
    c.ghost("cal", AbsCalG("cal")).ghost("cal2", AbsCalG("cal2")).arg("start", LocalDateG("cal")).arg("end", LocalDateG("cal2"))
    c.requires(lambda a: a.cal.ordinal != a.cal2.ordinal)
    c.raises(ValueError)


@contract(DI + ".__len__", "C18")
def _(c):
    c.ghost("cal", AbsCalG()).arg("self", DateIntervalG())
    c.returns(lambda a, r: r == hi(a, a.self) - lo(a, a.self) + 1)


@contract(DI + ".__contains__", "C18", name="DateInterval.__contains__(LocalDate)")
def _(c):
    c.ghost("cal", AbsCalG()).arg("self", DateIntervalG()).arg("item", LocalDateG())
    c.returns(lambda a, r: Iff(r, And(lo(a, a.self) <= ld_dse(a, a.item), ld_dse(a, a.item) <= hi(a, a.self))))


@contract(DI + ".__contains__", "C18", "C12", name="DateInterval.__contains__(LocalDate of another calendar) is refused")
def _(c):
    c.ghost("cal", AbsCalG("cal")).ghost("cal2", AbsCalG("cal2")).arg("self", DateIntervalG("cal")).arg("item", LocalDateG("cal2"))
    c.requires(lambda a: a.cal.ordinal != a.cal2.ordinal)
    c.raises(ValueError)


@contract(DI + ".__contains__", "C18", name="DateInterval.__contains__(DateInterval) is set inclusion")
def _(c):
    c.ghost("cal", AbsCalG()).arg("self", DateIntervalG()).arg("item", DateIntervalG())
    c.returns(lambda a, r: Iff(r, And(lo(a, a.self) <= lo(a, a.item), hi(a, a.item) <= hi(a, a.self))))


@contract(DI + ".__and__", "C18", name="DateInterval.__and__ is set intersection (None iff disjoint)")
def _(c):
    c.ghost("cal", AbsCalG()).arg("self", DateIntervalG()).arg("interval", DateIntervalG())
    il = lambda a: pymax(lo(a, a.self), lo(a, a.interval))  # noqa: E731
    ih = lambda a: pymin(hi(a, a.self), hi(a, a.interval))  # noqa: E731

    def post(a, r):
        if r is None:
            return il(a) > ih(a)
        return And(il(a) <= ih(a), lo(a, r) == il(a), hi(a, r) == ih(a))

    c.returns(post)


@contract(DI + ".__or__", "C18", name="DateInterval.__or__ is set union, defined exactly when the sets overlap or are adjacent")
def _(c):
    c.ghost("cal", AbsCalG()).arg("self", DateIntervalG()).arg("interval", DateIntervalG())
    c.setup = _setup
    touching = lambda a: And(lo(a, a.self) <= hi(a, a.interval) + 1, lo(a, a.interval) <= hi(a, a.self) + 1)  # noqa: E731

    def post(a, r):
        if r is None:
            return Not(touching(a))
        return And(touching(a), lo(a, r) == pymin(lo(a, a.self), lo(a, a.interval)), hi(a, r) == pymax(hi(a, a.self), hi(a, a.interval)))

    c.returns(post)


@contract(DI + ".__iter__", "C18", name="DateInterval.__iter__ yields exactly the days start..end in order (loop invariant + per-yield obligation)")
def _(c):
    c.ghost("cal", AbsCalG()).arg("self", DateIntervalG())

    def setup(eng):
        _setup(eng)

        def hook(eng, env, val):
            a = eng.contract_ns
            k = env.vars.get("days_to_add")
            # every yielded date is day number start + k of this calendar; the element after the loop is `end`
            if "date" in env.vars and val is env.vars["date"]:
                eng.oblige(And(ld_valid_in(a.cal, val), ld_dse(a, val) == lo(a, a.self) + k, lo(a, a.self) + k < hi(a, a.self)), "yield: k-th element is day start+k (before end)", kind="yield", site=eng.cur_site())
            else:
                eng.oblige(And(ld_dse(a, val) == hi(a, a.self), lo(a, a.self) + k == hi(a, a.self)), "yield: last element is `end` and follows day end-1", kind="yield", site=eng.cur_site())

        eng.yield_hook = hook

    c.setup = setup
    fn = "pyoda_time._date_interval:DateInterval.__iter__"
    c.loop(fn, 0, lambda v, a: And(v.days_to_add >= 0, lo(a, a.self) + v.days_to_add <= hi(a, a.self)), variant=lambda v, a: hi(a, a.self) - lo(a, a.self) - v.days_to_add)
    c.returns(lambda a, r: True)
    c.min_obligations = 5


# ------------------------------------------------------------------------------------------ Interval
def s_(iv):
    return V.fld(iv, "_Interval__start")


def e_(iv):
    return V.fld(iv, "_Interval__end")


@contract(IV, "C18", name="Interval(start, end) accepts exactly start <= end")
def _(c):
    c.arg("start", InstantG()).arg("end", InstantG())
    ok = lambda a: V.inst_ns(a.start) <= V.inst_ns(a.end)  # noqa: E731
    c.returns(lambda a, r: And(V.inst_ns(s_(r)) == V.inst_ns(a.start), V.inst_ns(e_(r)) == V.inst_ns(a.end)), when=ok)
    c.raises(ValueError, when=lambda a: Not(ok(a)))


@contract(IV, "C18", name="Interval(None, end) / Interval(start, None) are unbounded on that side")
def _(c):
    from pyvc.contracts import Const

    c.arg("start", Const(None)).arg("end", InstantG())
    c.returns(lambda a, r: And(V.is_before_min(s_(r)), V.inst_ns(e_(r)) == V.inst_ns(a.end)))


@contract(IV, "C18", name="Interval(start, None)")
def _(c):
    from pyvc.contracts import Const

    c.arg("start", InstantG()).arg("end", Const(None))
    c.returns(lambda a, r: And(V.is_after_max(e_(r)), V.inst_ns(s_(r)) == V.inst_ns(a.start)))


@contract(IV + ".__contains__", "C18")
def _(c):
    c.arg("self", IntervalG()).arg("instant", InstantG())
    c.returns(lambda a, r: Iff(r, And(V.inst_ns(s_(a.self)) <= V.inst_ns(a.instant), V.inst_ns(a.instant) < V.inst_ns(e_(a.self)))))


for _n, _f in (("has_start", s_), ("has_end", e_)):

    def _mk(n=_n, f=_f):
        @contract(f"{IV}.{n}", "C18", name=f"Interval.{n}")
        def _(c):
            c.arg("self", IntervalG())
            c.returns(lambda a, r: Iff(r, V.inv_instant_valid(f(a.self))))

    _mk()


for _n, _f in (("start", s_), ("end", e_)):

    def _mk2(n=_n, f=_f):
        @contract(f"{IV}.{n}", "C18", name=f"Interval.{n} refuses to yield an unbounded end")
        def _(c):
            c.arg("self", IntervalG())
            ok = lambda a: V.inv_instant_valid(f(a.self))  # noqa: E731
            c.returns(lambda a, r: V.inst_ns(r) == V.inst_ns(f(a.self)), when=ok)
            c.raises(RuntimeError, when=lambda a: Not(ok(a)))

    _mk2()


@contract(IV + ".duration", "C18")
def _(c):
    c.arg("self", IntervalG())
    ok = lambda a: And(V.inv_instant_valid(s_(a.self)), V.inv_instant_valid(e_(a.self)))  # noqa: E731
    c.returns(lambda a, r: V.is_duration_of(r, V.inst_ns(e_(a.self)) - V.inst_ns(s_(a.self))), when=ok)
    c.raises(RuntimeError, when=lambda a: Not(ok(a)))


@contract(IV + ".__eq__", "C18", "C12")
def _(c):
    c.arg("self", IntervalG()).arg("other", IntervalG())
    c.returns(lambda a, r: Iff(r, And(V.inst_ns(s_(a.self)) == V.inst_ns(s_(a.other)), V.inst_ns(e_(a.self)) == V.inst_ns(e_(a.other)))))


# ------------------------------------------------------------------------------------------ a year-month as an interval of days
from .gens import YearMonthG  # noqa: E402


@contract("pyoda_time._year_month:YearMonth.to_date_interval", "C18", name="YearMonth.to_date_interval is exactly the set of days of that month (first day .. last day)")
def _(c):
    c.ghost("cal", AbsCalG()).arg("self", YearMonthG())
    c.setup = _setup

    def post(a, r):
        o = V.fld(a.self, "_YearMonth__start_of_month")
        y, m = V.fld(o, "$y"), V.fld(o, "$m")
        first = CA.dse(a.cal.cid, y, m, 1)
        return And(lo(a, r) == first, hi(a, r) == first + CA.dim(a.cal.cid, y, m) - 1)

    c.returns(post)
