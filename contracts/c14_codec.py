"""C14 -- the tz database codec is lossless and canonical: read(write(x)) == x consuming exactly the bytes written,
and the writer emits the documented compact encodings."""

from __future__ import annotations

from pyvc.contracts import Const, Int, contract
from pyvc.sym import And, Iff, Implies, Not, Or, ite
from specs import views as V

from .gens import InstantAnyG, InstantG, OffsetG

H = "harness.tzio:"
W = "pyoda_time.time_zones.io._date_time_zone_writer:_DateTimeZoneWriter."
R = "pyoda_time.time_zones.io._date_time_zone_reader:_DateTimeZoneReader."
UNROLL = {W + "__write_varint": 12}
UNROLL = {k.replace(":_DateTimeZoneWriter.__write_varint", ":_DateTimeZoneWriter.__write_varint"): v for k, v in UNROLL.items()}
INT_MAX = 2**31 - 1
MPD = 86_400_000


def varint_len(n):
    return ite(n < 2**7, 1, ite(n < 2**14, 2, ite(n < 2**21, 3, ite(n < 2**28, 4, 5))))


def _io(c):
    c.unroll = {"pyoda_time.time_zones.io._date_time_zone_writer:_DateTimeZoneWriter.__write_varint": 12}
    c.allow_mutation = lambda obj, name: True
    c.pure = False


@contract(H + "rt_count", "C14", name="write_count / read_count: round trip, exact consumption, shortest varint; ValueError outside 0..2^31-1")
def _(c):
    c.arg("n", Int())
    _io(c)
    ok = lambda a: And(a.n >= 0, a.n <= INT_MAX)  # noqa: E731
    c.returns(lambda a, r: And(r[0] == a.n, r[1] == r[2], r[2] == varint_len(a.n)), when=ok)
    c.raises(ValueError, when=lambda a: Not(ok(a)))


@contract(H + "rt_signed_count", "C14", name="write_signed_count / read_signed_count: zig-zag round trip for 32-bit signed values")
def _(c):
    c.arg("n", Int(-(2**31), 2**31 - 1))
    _io(c)
    zz = lambda a: ite(a.n >= 0, 2 * a.n, -2 * a.n - 1)  # noqa: E731
    c.returns(lambda a, r: And(r[0] == a.n, r[1] == r[2], r[2] == varint_len(zz(a))))


def millis_len(m):
    mm = m + MPD
    return ite(mm % 1_800_000 == 0, 1, ite(mm % 60_000 == 0, 2, ite(mm % 1000 == 0, 3, 4)))


@contract(H + "rt_milliseconds", "C14", name="write_milliseconds / read_milliseconds: round trip and canonical (shortest documented) form for all 172,799,999 values")
def _(c):
    c.arg("m", Int())
    _io(c)
    ok = lambda a: And(a.m >= -MPD + 1, a.m <= MPD - 1)  # noqa: E731
    c.returns(lambda a, r: And(r[0] == a.m, r[1] == r[2], r[2] == millis_len(a.m)), when=ok)
    c.raises(ValueError, when=lambda a: Not(ok(a)))


@contract(H + "rt_offset", "C14", name="write_offset / read_offset round trip")
def _(c):
    c.arg("off", OffsetG())
    _io(c)
    c.returns(lambda a, r: And(V.inv_offset(r[0]), V.off_seconds(r[0]) == V.off_seconds(a.off), r[1] == r[2], r[2] == millis_len(V.off_seconds(a.off) * 1000)))


@contract(H + "rt_byte", "C14", name="write_byte / read_byte / has_more_data")
def _(c):
    c.arg("b", Int(0, 255))
    _io(c)
    c.returns(lambda a, r: And(r[0] == a.b, r[1] == 1, r[2] == 1, r[3] is True, r[4] is False))


# ------------------------------------------------------------------------------------------ zone interval transitions
EPOCH_1800_NS = -5364662400 * V.NPS  # 1800-01-01T00:00:00Z
TPH = 36_000_000_000
TPM = 600_000_000


def same_instant(x, y):
    return And(V.inst_ns(x) == V.inst_ns(y), V.inv_instant_any(x))


def _transition_len(prev_valid, prev_ns, val):
    """Documented compact forms: 1-byte markers for the ends of time; hours since the previous transition when that is
    a whole number of hours in [2^7, 2^21); minutes since 1800 when whole minutes in (2^21, 2^31); else marker + raw ticks."""
    vn = V.inst_ns(val)
    ticks_prev = (vn - prev_ns) // 100
    hours = ticks_prev // TPH
    use_hours = And(prev_valid, ticks_prev % TPH == 0, hours >= 2**7, hours < 2**21)
    ticks_1800 = (vn - EPOCH_1800_NS) // 100
    mins = ticks_1800 // TPM
    use_mins = And(vn >= EPOCH_1800_NS, ticks_1800 % TPM == 0, mins > 2**21, mins <= INT_MAX)
    return ite(Or(V.is_before_min(val), V.is_after_max(val)), 1, ite(use_hours, varint_len(hours), ite(use_mins, varint_len(mins), 9)))


@contract(H + "rt_int64", "C14", name="__write_int64 / __read_int64: 8 bytes, two's complement round trip")
def _(c):
    c.arg("v", Int(-(2**63), 2**63 - 1))
    _io(c)
    c.returns(lambda a, r: And(r[0] == a.v, r[1] == r[2], r[2] == 8))


def _tok_setup(eng):
    from specs import tzio_models

    tzio_models.install(eng)


def _tok_size(tokens):
    from specs import tzio_models

    toks = tokens.items if hasattr(tokens, "items") and not isinstance(tokens, dict) else tokens
    if all(isinstance(t, int) for t in toks):
        return len(toks)  # concrete replay: the real stream holds bytes
    return tzio_models.stream_size(toks)


@contract(H + "rt_transition_tokens", "C14", name="write/read_zone_interval_transition with a previous transition: round trip, exact consumption, canonical choice of form")
def _(c):
    c.arg("previous", InstantAnyG()).arg("value", InstantAnyG())
    _io(c)
    c.setup = _tok_setup
    c.crosscheck = 0
    # the format stores ticks: transitions are tick-aligned; the writer requires value >= previous
    c.requires(lambda a: And(V.inst_ns(a.value) % 100 == 0, V.inst_ns(a.previous) % 100 == 0, V.inst_ns(a.value) >= V.inst_ns(a.previous)))
    c.returns(lambda a, r: And(same_instant(r[0], a.value), r[1] == r[2], _tok_size(r[3]) == _transition_len(V.inv_instant_valid(a.previous), V.inst_ns(a.previous), a.value)))
    c.timeout_s = 60


@contract(H + "rt_transition_tokens", "C14", name="write/read_zone_interval_transition without previous transition")
def _(c):
    c.arg("previous", Const(None)).arg("value", InstantAnyG())
    _io(c)
    c.setup = _tok_setup
    c.crosscheck = 0
    c.requires(lambda a: V.inst_ns(a.value) % 100 == 0)
    c.returns(lambda a, r: And(same_instant(r[0], a.value), r[1] == r[2], _tok_size(r[3]) == _transition_len(False, 0, a.value)))
    c.timeout_s = 60


# ------------------------------------------------------------------------------------------ composites over the primitive contracts
from .gens import ZoneYearOffsetG  # noqa: E402


def yo_fields(o):
    f = lambda n: V.fld(o, "_ZoneYearOffset__" + n)  # noqa: E731
    return (f("transition_mode"), f("month_of_year"), f("day_of_month"), f("day_of_week"), f("advance_day_of_week"), f("add_day"), V.lt_nanos(f("time_of_day")))


def same_year_offset(x, y):
    a, b = yo_fields(x), yo_fields(y)
    return And(a[0] == b[0], a[1] == b[1], a[2] == b[2], a[3] == b[3], Iff(a[4], b[4]), Iff(a[5], b[5]), a[6] == b[6])


@contract(H + "rt_year_offset", "C14", name="_ZoneYearOffset._write / read: round trip of every field, flag byte layout mode<<5 | dow<<2 | advance<<1 | add_day")
def _(c):
    c.arg("yo", ZoneYearOffsetG())
    _io(c)
    c.setup = _tok_setup
    c.crosscheck = 0

    def post(a, r):
        back, pos, n, tokens = r
        toks = tokens.items if hasattr(tokens, "items") else tokens
        m, mo, dom, dow, adv, add, tod = yo_fields(a.yo)
        layout = toks[0][1] == m * 32 + dow * 4 + V.ite(adv, 2, 0) + V.ite(add, 1, 0) if isinstance(toks[0], tuple) else True
        return And(same_year_offset(back, a.yo), pos == n, layout)

    c.returns(post)


# ------------------------------------------------------------------------------------------ recurrences and alternating maps (tokens)
from pyvc.contracts import Gen  # noqa: E402

from .gens import OffsetG  # noqa: E402

INT_MIN, INT_MAX = -(2**31), 2**31 - 1
REC = "_ZoneRecurrence__"


class RecurrenceG(Gen):
    def __init__(self, infinite=False, savings_zero=False):
        self.infinite, self.savings_zero = infinite, savings_zero

    def make(self, name, b):
        from pyvc import sym
        from pyvc.values import SObj
        from pyoda_time.time_zones._zone_recurrence import _ZoneRecurrence

        fy, ty = (INT_MIN, INT_MAX) if self.infinite else (sym.var_int(f"{name}.from_year"), sym.var_int(f"{name}.to_year"))
        if not self.infinite:
            b.assume(And(Or(fy == INT_MIN, And(fy >= -9998, fy <= 9999)), Or(ty == INT_MAX, And(ty >= -9998, ty <= 9999))))
        sav = OffsetG().make(name + ".savings", b)
        if self.savings_zero:
            b.assume(V.off_seconds(sav) == 0)
        return SObj(_ZoneRecurrence, {REC + "name": name.upper(), REC + "savings": sav, REC + "year_offset": ZoneYearOffsetG().make(name + ".yo", b), REC + "from_year": fy, REC + "to_year": ty}, owner=-1, tag=name)


def _rec_setup(eng):
    """tokens for the primitives; the constructor's two occurrence computations (cached bounds) play no part in the codec"""
    _tok_setup(eng)
    from pyvc.values import SObj
    from pyoda_time._local_instant import _LocalInstant
    from pyoda_time.time_zones._zone_year_offset import _ZoneYearOffset

    def occ(eng, self_, year):
        return SObj(_LocalInstant, {"$opaque": True}, owner=eng.active_runs[-1])

    eng.func_models[vars(_ZoneYearOffset)["_get_occurrence_for_year"]] = occ


def same_recurrence(x, y, years=True):
    fx, fy = (lambda n: V.fld(x, REC + n)), (lambda n: V.fld(y, REC + n))
    conj = [fx("name") == fy("name"), V.off_seconds(fx("savings")) == V.off_seconds(fy("savings")), same_year_offset(fx("year_offset"), fy("year_offset"))]
    if years:
        conj += [fx("from_year") == fy("from_year"), fx("to_year") == fy("to_year")]
    return And(*conj)


@contract(H + "rt_recurrence", "C14", name="_ZoneRecurrence._write / read: name, savings, yearly rule, from/to years round trip; exact consumption")
def _(c):
    c.arg("rec", RecurrenceG())
    _io(c)
    c.setup = _rec_setup
    c.crosscheck = 0
    c.replayable = False
    fy = lambda a: V.fld(a.rec, REC + "from_year")  # noqa: E731
    ty = lambda a: V.fld(a.rec, REC + "to_year")  # noqa: E731
    writable = lambda a: ty(a) >= 0  # noqa: E731  (counts are unsigned: a negative last year is rejected by the writer)
    c.returns(lambda a, r: And(same_recurrence(r[0], a.rec), r[1] == r[2]), when=lambda a: And(writable(a), Or(fy(a) == INT_MIN, fy(a) >= 1)), label="round-trip")
    # the format has no way to write a finite first year <= 0: it is stored as 0, which reads back as 'from the beginning of time'
    c.returns(lambda a, r: And(same_recurrence(r[0], a.rec), r[1] == r[2]), when=lambda a: And(writable(a), fy(a) != INT_MIN, fy(a) <= 0), label="from-year-not-positive")
    c.raises(ValueError, when=lambda a: Not(writable(a)))


class AltMapG(Gen):
    def make(self, name, b):
        from pyvc.values import SObj
        from pyoda_time.time_zones._standard_daylight_alternating_map import _StandardDaylightAlternatingMap as M

        return SObj(
            M,
            {
                "_StandardDaylightAlternatingMap__standard_offset": OffsetG().make(name + ".std_off", b),
                "_StandardDaylightAlternatingMap__standard_recurrence": RecurrenceG(infinite=True, savings_zero=True).make(name + "_std", b),
                "_StandardDaylightAlternatingMap__dst_recurrence": RecurrenceG(infinite=True).make(name + "_dst", b),
            },
            owner=-1,
            tag=name,
        )


@contract(H + "rt_alt_map", "C14", name="_StandardDaylightAlternatingMap._write / _read: standard offset, both names and yearly rules, DST savings round trip; exact consumption")
def _(c):
    c.arg("m", AltMapG())
    _io(c)
    c.setup = _rec_setup
    c.crosscheck = 0
    c.replayable = False
    P_ = "_StandardDaylightAlternatingMap__"

    def post(a, r):
        back, pos, n = r
        g = lambda o, k: V.fld(o, P_ + k)  # noqa: E731
        return And(
            V.off_seconds(g(back, "standard_offset")) == V.off_seconds(g(a.m, "standard_offset")),
            same_recurrence(g(back, "standard_recurrence"), g(a.m, "standard_recurrence")),
            same_recurrence(g(back, "dst_recurrence"), g(a.m, "dst_recurrence")),
            pos == n,
        )

    c.returns(post)
