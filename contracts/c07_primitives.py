"""C07 / C08 / C17 -- the number rendering and digit scanning primitives every pattern is built from.

Strings are symbolic at character level (pyvc/symstr.py): rendered digits are symbolic code points, input texts
have unknown characters.  Each renderer equals the decimal-digit spec; each scanner returns the positional value of
the digit run it consumed, never raises, and leaves the cursor where the spec says; render-then-scan is the identity."""

from __future__ import annotations

from pyvc import symstr as SS
from pyvc.contracts import Const, Gen, Int, OneOf, contract
from pyvc.sym import And, Implies, Not, Or, SInt, ite, trunc_div

H = "harness.text:"
PI64 = "pyoda_time.text._value_cursor:_ValueCursor._parse_int64"
PROPS = ("C07", "C17")


def _setup(eng):
    eng.sym_strings = True


class TextG(Gen):
    """A text of exactly `n` unknown characters (any code points)."""

    def __init__(self, n: int) -> None:
        self.n = n

    def make(self, name, b):
        return SS.fresh_text(name, self.n, b) if self.n else ""


def digit(v, i, n):
    """i-th (0 = most significant) of the n decimal digits of v"""
    return (v // 10 ** (n - 1 - i)) % 10


def digits(v, n):
    """the n-digit zero padded decimal rendering of v (0 <= v < 10**n) as a string spec: digits by repeated
    division by ten, least significant first"""
    out = []
    q = v
    for _ in range(n):
        out.append(q % 10 + 48)
        q = q // 10
    out.reverse()
    if isinstance(v, int):
        return "".join(chr(x) for x in out)
    return SS.mk(tuple(out))


def eq(r, exp):
    if isinstance(r, str) and isinstance(exp, str):
        return r == exp
    return SS.str_eq(r, exp)


def is_digit_at(text, i):
    cs = SS.chars_of(text)
    if i >= len(cs):
        return False
    c = cs[i]
    if isinstance(c, str):
        return "0" <= c <= "9"
    return And(c >= 48, c <= 57)


def digit_val(text, i):
    c = SS.chars_of(text)[i]
    return (ord(c) if isinstance(c, str) else c) - 48


def run_len_is(text, k, limit):
    """the run of ASCII digits at the start of text, capped at `limit`, has length exactly k"""
    n = len(SS.chars_of(text))
    conj = [is_digit_at(text, i) for i in range(k)]
    if k < min(limit, n):
        conj.append(Not(is_digit_at(text, k)))
    return And(*conj) if conj else True


def run_value(text, k):
    v = 0
    for i in range(k):
        v = v * 10 + digit_val(text, i)
    return v


# ------------------------------------------------------------------------------------------------- renderers
@contract(H + "fmt2", *PROPS, name="_format_2_digits_non_negative: exactly two decimal digits for 0..99")
def _(c):
    c.arg("v", Int(0, 99))
    c.setup = _setup
    c.returns(lambda a, r: eq(r, digits(a.v, 2)))


@contract(H + "fmt4", *PROPS, name="_format_4_digits_value_fits: optional '-' and exactly four decimal digits for |v| <= 9999")
def _(c):
    c.arg("v", Int(-9999, 9999))
    c.setup = _setup
    c.returns(lambda a, r: eq(r, digits(a.v, 4)), when=lambda a: a.v >= 0)
    c.returns(lambda a, r: eq(r, SS.mk(("-",) + SS.chars_of(digits(-a.v, 4)))), when=lambda a: a.v < 0)


for _n in (1, 2, 3, 4, 5, 9):

    def _mk(n=_n):
        @contract(H + "left_pad_nn", *PROPS, name=f"_left_pad_non_negative(length={n}): zero padded to {n} digits when the value fits, never truncated")
        def _(c):
            c.arg("v", Int(0, 10 ** (n + 2) - 1)).arg("length", Const(n))
            c.setup = _setup
            def case(w):
                lo = 0 if w == n else 10 ** (w - 1)
                c.returns(lambda a, r: eq(r, digits(a.v, w)), when=lambda a: And(a.v >= lo, a.v < 10**w))

            for w in range(n, n + 3):
                case(w)

        @contract(H + "left_pad", *PROPS, name=f"_left_pad(length={n}): '-' then the padded magnitude for negative values")
        def _(c):
            c.arg("v", Int(-(10**n) + 1, 10**n - 1)).arg("length", Const(n))
            c.setup = _setup
            c.returns(lambda a, r: eq(r, digits(a.v, n)), when=lambda a: a.v >= 0)
            c.returns(lambda a, r: eq(r, SS.mk(("-",) + SS.chars_of(digits(-a.v, n)))), when=lambda a: a.v < 0)

    _mk()


for _len, _scale in ((1, 9), (3, 9), (7, 9), (9, 9), (3, 7), (7, 7), (6, 6), (3, 3)):

    def _mk2(length=_len, scale=_scale):
        @contract(H + "frac", *PROPS, name=f"_append_fraction(length={length}, scale={scale}): the first {length} of the {scale} fraction digits, zero padded")
        def _(c):
            c.arg("v", Int(0, 10**scale - 1)).arg("length", Const(length)).arg("scale", Const(scale))
            c.setup = _setup
            c.returns(lambda a, r: eq(r, digits(a.v // 10 ** (scale - length), length)))

        @contract(H + "frac_trunc", *PROPS, name=f"_append_fraction_truncate(length={length}, scale={scale}): the first {length} fraction digits without trailing zeros; an orphaned '.' is removed")
        def _(c):
            c.arg("prefix", OneOf(["", "12.", "5"])).arg("v", Int(0, 10**scale - 1)).arg("length", Const(length)).arg("scale", Const(scale))
            c.setup = _setup
            top = lambda a: a.v // 10 ** (scale - length)  # noqa: E731

            def case(k):
                # exactly k significant fraction digits: top is a multiple of 10**(length-k) but not of 10**(length-k+1)
                def when(a):
                    t = top(a)
                    return And(t % 10 ** (length - k) == 0, t % 10 ** (length - k + 1) != 0) if k < length else (t % 10 != 0)

                c.returns(lambda a, r: eq(r, SS.mk(tuple(a.prefix) + SS.chars_of(digits(top(a) // 10 ** (length - k), k)))), when=when)

            for k in range(1, length + 1):
                case(k)
            c.returns(lambda a, r: eq(r, a.prefix[:-1] if a.prefix.endswith(".") else a.prefix), when=lambda a: top(a) == 0)
            c.timeout_s = 60

    _mk2()


@contract(H + "inv", *PROPS, name="_format_invariant: minimal decimal rendering with '-' for negatives (64-bit range)")
def _(c):
    c.arg("v", Int(-(2**63), 2**63 - 1))
    c.setup = _setup
    c.max_paths = 4000

    def post(a, r):
        n = len(SS.chars_of(r))
        neg = a.v < 0
        mag = ite(neg, -a.v, a.v) if isinstance(a.v, SInt) else abs(a.v)
        cs = SS.chars_of(r)
        if isinstance(cs[0], str) and cs[0] == "-":
            k = n - 1
            return And(neg, mag >= (10 ** (k - 1) if k > 1 else 1), mag < 10**k, eq(SS.mk(cs[1:]), digits(mag, k)))
        return And(Not(neg), mag >= (10 ** (n - 1) if n > 1 else 0), mag < 10**n, eq(r, digits(mag, n)))

    c.returns(post)


# ------------------------------------------------------------------------------------------------- scanners (never raise, any characters)
for _tl in range(0, 6):
    for _mn, _mx in ((1, 2), (2, 2), (4, 4), (1, 4), (3, 5)):

        def _mk3(tl=_tl, mn=_mn, mx=_mx):
            @contract(H + "parse_digits", "C07", "C08", "C17", name=f"_parse_digits(min={mn}, max={mx}) on any text of {tl} characters: value of the ASCII digit run, cursor after it; failure leaves the cursor; never raises")
            def _(c):
                c.arg("text", TextG(tl)).arg("minimum", Const(mn)).arg("maximum", Const(mx))
                c.setup = _setup
                cap = min(mx, tl)

                def post(a, r):
                    ok, v, idx = r
                    cases = []
                    for k in range(0, cap + 1):
                        if k >= mn:
                            cases.append(Implies(run_len_is(a.text, k, mx), And(ok, v == run_value(a.text, k), idx == k)))
                        else:
                            cases.append(Implies(run_len_is(a.text, k, mx), And(Not(ok), idx == 0)))
                    return And(*cases)

                c.returns(post)

        _mk3()


for _tl in range(0, 5):

    def _mk4(tl=_tl):
        @contract(H + "parse_fraction", "C07", "C08", "C17", name=f"_parse_fraction(max=3, scale=9, min=0) on any text of {tl} characters: digit run scaled to nanoseconds; never raises")
        def _(c):
            c.arg("text", TextG(tl)).arg("maximum", Const(3)).arg("scale", Const(9)).arg("minimum", Const(0))
            c.setup = _setup
            cap = min(3, tl)

            def post(a, r):
                ok, v, idx = r
                return And(*[Implies(run_len_is(a.text, k, 3), And(ok, v == run_value(a.text, k) * 10 ** (9 - k), idx == k)) for k in range(0, cap + 1)])

            c.returns(post)

    _mk4()


for _tl in range(0, 5):

    def _mk5(tl=_tl):
        @contract(H + "parse_int64", "C07", "C08", name=f"_parse_int64 on any text of {tl} characters: optional '-', digit run value; never raises")
        def _(c):
            c.arg("text", TextG(tl))
            c.setup = _setup
            c.unroll = {PI64: tl + 2}

            def post(a, r):
                ok, v, idx = r
                cs = SS.chars_of(a.text)
                if not cs:
                    return Not(ok)
                first = cs[0]
                is_minus = (first == "-") if isinstance(first, str) else (first == 45)
                cases = []
                rest = SS.mk(cs[1:])
                for k in range(0, tl + 1):
                    # non-negative: run of k digits at the start
                    cases.append(Implies(And(Not(is_minus), run_len_is(a.text, k, tl)), And(ok, v == run_value(a.text, k), idx == k) if k > 0 else And(Not(ok), idx == 0)))
                for k in range(0, tl):
                    cases.append(Implies(And(is_minus, run_len_is(rest, k, tl - 1)), And(ok, v == -run_value(rest, k), idx == k + 1) if k > 0 else And(Not(ok), idx == 0)))
                return And(*cases)

            c.returns(post)

    _mk5()


# ------------------------------------------------------------------------------------------------- render-then-scan is the identity
for _n in (1, 2, 3, 4, 5, 9):

    def _mk6(n=_n):
        @contract(H + "rt_pad", "C07", "C17", name=f"round trip: _parse_digits reads back what _left_pad_non_negative wrote ({n} digits), consuming exactly the field")
        def _(c):
            c.arg("v", Int(0, 10**n - 1)).arg("length", Const(n))
            c.setup = _setup
            c.returns(lambda a, r: And(r[0], r[1] == a.v, r[2] == n))

    _mk6()


for _len, _scale in ((3, 9), (7, 9), (9, 9), (7, 7), (6, 6)):

    def _mk7(length=_len, scale=_scale):
        @contract(H + "rt_frac_trunc", "C07", "C17", name=f"round trip: _parse_fraction reads back _append_fraction_truncate(length={length}, scale={scale}) up to the digits the field can hold")
        def _(c):
            c.arg("v", Int(0, 10**scale - 1)).arg("length", Const(length)).arg("scale", Const(scale))
            c.setup = _setup
            unit = 10 ** (scale - length)
            c.returns(lambda a, r: And(r[0], r[1] == a.v // unit * unit))
            c.timeout_s = 60

        @contract(H + "rt_frac", "C07", "C17", name=f"round trip: _parse_fraction reads back _append_fraction(length={length}, scale={scale})")
        def _(c):
            c.arg("v", Int(0, 10**scale - 1)).arg("length", Const(length)).arg("scale", Const(scale))
            c.setup = _setup
            unit = 10 ** (scale - length)
            c.returns(lambda a, r: And(r[0], r[1] == a.v // unit * unit, r[2] == length))
            c.timeout_s = 60

    _mk7()


for _k in range(1, 20):

    def _mk8(k=_k):
        @contract(H + "rt_int64", "C07", name=f"round trip: _parse_int64 reads back _format_invariant for every value of {k} digits (both signs, 64-bit range)")
        def _(c):
            c.arg("v", Int(-(2**63) + 1, 2**63 - 1))
            c.requires(lambda a: Or(And(a.v >= (10 ** (k - 1) if k > 1 else 0), a.v < 10**k), And(-a.v >= (10 ** (k - 1) if k > 1 else 1), -a.v < 10**k)))
            c.setup = _setup
            c.max_paths = 2000
            c.timeout_s = 60
            c.unroll = {PI64: 25}
            c.returns(lambda a, r: And(r[0], r[1] == a.v))

    _mk8()


_ = (Or, trunc_div)
