"""C13 -- results do not depend on call history: representation invariants of the caches.

Year-start cache (every calculator) and the Hebrew calculator's global cache: a slot holds (days << 7) | validator;
the key lemma is that (year & 1023, (year >> 10) & 127) determines the year on the open range (-65537, 64512), and that
the 'invalid' marker is valid for no year of that range.  With it, `_get_start_of_year_in_days` returns
`_calculate_start_of_year_days(year)` from ANY cache state satisfying the slot invariant, and re-establishes it."""

from __future__ import annotations

from pyvc.contracts import Const, Int, contract
from pyvc.sym import And, Iff, Implies, Not, Or
from specs import views as V

H = "harness.caches:"
LO, HI = -65536, 64511  # open range (-65537, 64512)


@contract(H + "entry_facts", "C13", "C01", name="_YearStartCacheEntry: entry stores its days exactly, is valid for its own year, and for no other year of (-65537, 64512) sharing its slot")
def _(c):
    c.arg("year", Int(LO, HI)).arg("days", Int()).arg("other", Int(LO, HI))

    def post(a, r):
        valid_self, days, valid_other, idx, idx_other = r
        return And(valid_self, days == a.days, idx == a.year % 1024, idx >= 0, idx < 1024, Implies(And(idx == idx_other, valid_other), a.other == a.year))

    c.returns(post)


@contract(H + "invalid_entry_facts", "C13", name="_YearStartCacheEntry: the 'invalid' marker is valid for no year of (-65537, 64512)")
def _(c):
    c.arg("year", Int(LO, HI))
    c.returns(lambda a, r: Not(r))


@contract(H + "create_cache_facts", "C13", name="_YearStartCacheEntry._create_cache: 1024 slots, all invalid")
def _(c):
    c.returns(lambda a, r: And(r[0] == 1024, r[1] is True, r[2] is True))
    c.crosscheck = 0


# ------------------------------------------------------------------------------------------ _get_start_of_year_in_days over an arbitrary cache state
import z3  # noqa: E402

from pyvc import sym  # noqa: E402
from pyvc.values import SList, SObj  # noqa: E402

CALC = z3.Function("CALC_SOY", z3.IntSort(), z3.IntSort())


def calc(y):
    return sym.mk_int(CALC(sym.SInt.lift(y)))


def slot_inv(v, idx, y):
    """Slot invariant instantiated at year y: if the entry in slot idx claims year y, it holds that year's start."""
    return Implies(And(y >= LO, y <= HI, y % 1024 == idx, (y // 1024) % 128 == v % 128), v // 128 == calc(y))


class SymCache:
    """An arbitrary cache state satisfying the slot invariant (instantiated at the years the contract names)."""

    def __init__(self, years):
        self.years = years
        self.stores = SList([], owner=-1)

    def pyvc_getitem(self, eng, idx):
        from pyoda_time.calendars._year_start_cache_entry import _YearStartCacheEntry as E

        v = sym.fresh_int("slot")
        eng.oblige(And(idx >= 0, idx < 1024), "cache index within the 1024 slots", kind="index", site=eng.cur_site())
        for y in self.years:
            eng.assume(slot_inv(v, idx, y))
        return SObj(E, {"_YearStartCacheEntry__value": v}, owner=eng.active_runs[-1])

    def pyvc_setitem(self, eng, idx, entry):
        eng.log_write(self.stores, "__append__", None, False)
        self.stores.items.append((idx, entry))


class _CalcWithCache:
    """Receiver: an instance of the abstract calculator class whose year cache is an arbitrary valid state."""

    def make(self, name, b):
        from specs import cal_abs

        cls = cal_abs.abstract_calc_class()
        year, y2 = sym.var_int("year"), sym.var_int("y2")
        cache = SymCache([year, y2])
        b.named["cache"] = cache
        return SObj(cls, {"_YearMonthDayCalculator__year_cache": cache}, owner=-1, tag=name)

    def concretize(self, v, ev, live):
        return v


def _cache_setup(eng):
    from specs import cal_abs

    cls = cal_abs.abstract_calc_class()
    eng.func_models[vars(cls)["_calculate_start_of_year_days"]] = lambda eng, self_, year: calc(year)


@contract("pyoda_time.calendars._year_month_day_calculator:_YearMonthDayCalculator._get_start_of_year_in_days", "C13", "C01", name="_get_start_of_year_in_days returns _calculate_start_of_year_days(year) from ANY cache state satisfying the slot invariant, and re-establishes the invariant for every year")
def _(c):
    c.arg("self", _CalcWithCache()).arg("year", Int(LO, HI)).ghost("y2", Int(LO, HI))
    c.setup = _cache_setup
    c.crosscheck = 0
    c.allow_mutation = lambda obj, name: True
    c.pure = False

    def post(a, r, W):
        cache = V.fld(a.self, "_YearMonthDayCalculator__year_cache")
        ok = r == calc(a.year)
        # every store made on this path keeps the slot invariant for an arbitrary year y2
        stores = [w for w in W.raw if w[0] is cache.stores]
        for _cont, _key, (idx, entry) in stores:
            v = V.fld(entry, "_YearStartCacheEntry__value")
            ok = And(ok, idx == a.year % 1024, slot_inv(v, idx, a.y2))
        return ok

    c.returns(post)


# ------------------------------------------------------------------------------------------ Hebrew calculator's process-global cache
ELAPSED = z3.Function("HEB_ELAPSED_NO_CACHE", z3.IntSort(), z3.IntSort())
HS = "pyoda_time.calendars._hebrew_scriptural_calculator:_HebrewScripturalCalculator."


def elapsed(y):
    return sym.mk_int(ELAPSED(sym.SInt.lift(y)))


def hc_spec(y):
    """What __compute_cache_entry(y) must return whatever the cache holds: elapsed days and the two month-length bits."""
    diy = elapsed(y + 1) - elapsed(y)
    r = sym.trunc_mod(diy, 10)
    return elapsed(y) * 4 + sym.ite(r == 5, 1, 0) + sym.ite(r == 3, 2, 0)


def heb_slot_inv(v, idx, y):
    return Implies(And(y >= LO, y <= HI, y % 1024 == idx, (y // 1024) % 128 == v % 128), v // 128 == hc_spec(y))


class HebSymCache(SymCache):
    def pyvc_getitem(self, eng, idx):
        from pyoda_time.calendars._year_start_cache_entry import _YearStartCacheEntry as E

        v = sym.fresh_int("hslot")
        eng.oblige(And(idx >= 0, idx < 1024), "cache index within the 1024 slots", kind="index", site=eng.cur_site())
        for y in self.years:
            eng.assume(heb_slot_inv(v, idx, y))
        return SObj(E, {"_YearStartCacheEntry__value": v}, owner=eng.active_runs[-1])


def _heb_setup(inline_compute):
    def setup(eng):
        from pyoda_time.calendars._hebrew_scriptural_calculator import _HebrewScripturalCalculator as C

        year, y2 = sym.var_int("year"), sym.var_int("y2")
        cache = HebSymCache([year, year + 1, y2])
        eng.heb_cache = cache
        eng.overlay[(id(C), "_HebrewScripturalCalculator__YEAR_CACHE")] = cache
        eng.func_models[vars(C)["_HebrewScripturalCalculator__elapsed_days_no_cache"].__func__] = lambda eng, cls, y: elapsed(y)
        if not inline_compute:
            eng.func_models[vars(C)["_HebrewScripturalCalculator__compute_cache_entry"].__func__] = lambda eng, cls, y: hc_spec(y)

    return setup


@contract(HS + "__compute_cache_entry", "C13", name="_HebrewScripturalCalculator.__compute_cache_entry is independent of the cache state (next year's slot, when valid, holds that year's entry)")
def _(c):
    from pyvc.contracts import Const as K

    c.arg("year", Int(LO, HI - 1)).ghost("y2", Int(LO, HI))
    c.setup = _heb_setup(True)
    c.crosscheck = 0
    c.returns(lambda a, r: r == hc_spec(a.year))


@contract(HS + "__get_or_populate_cache", "C13", name="_HebrewScripturalCalculator.__get_or_populate_cache returns the computed entry from ANY cache state satisfying the slot invariant, and re-establishes it")
def _(c):
    c.arg("year", Int(LO, HI - 1)).ghost("y2", Int(LO, HI))
    c.setup = _heb_setup(False)
    c.crosscheck = 0
    c.allow_mutation = lambda obj, name: True
    c.pure = False

    def post(a, r, W):
        ok = r == hc_spec(a.year)
        for cont, _key, new in W.raw:
            if isinstance(new, tuple) and len(new) == 2 and isinstance(new[1], SObj):
                idx, entry = new
                v = V.fld(entry, "_YearStartCacheEntry__value")
                ok = And(ok, idx == a.year % 1024, heb_slot_inv(v, idx, a.y2))
        return ok

    c.returns(post)
