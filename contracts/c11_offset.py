"""C11 -- OffsetTime / OffsetDateTime keep instant, local time, offset and calendar in step (over CAL)."""

from __future__ import annotations

from pyvc.contracts import Const, Int, contract
from pyvc.sym import And, Iff, Implies, Not, Or
from specs import cal_abs as CA
from specs import views as V

from .c01_generic import ld_dse, ld_valid_in
from .gens import AbsCalG, DurationG, InstantG, IsoAbsCalG, LocalDateG, LocalTimeG, OffsetDateTimeG, OffsetG, OffsetTimeG

OT = "pyoda_time._offset_time:OffsetTime"
ODT = "pyoda_time._offset_date_time:OffsetDateTime"
RANGE = (OverflowError, ValueError)


def _setup(eng):
    from specs import cal_abs, field_models

    cal_abs.install(eng)
    field_models.install(eng)


class _SystemOf:
    def __init__(self, name):
        self.name = name

    def make(self, name, b):
        return b.named[self.name].system

    def concretize(self, v, ev, live):
        return v

    def realize(self, v, ev, ctx):
        return ctx["cals"][self.name].system


# ------------------------------------------------------------------------------------------ OffsetTime
@contract(OT, "C11", name="OffsetTime(time, offset) packs and unpacks losslessly (negative offsets too)")
def _(c):
    c.arg("time", LocalTimeG()).arg("offset", OffsetG())
    c.returns(lambda a, r: And(V.inv_offset_time(r), V.ot_n(r) == V.lt_nanos(a.time), V.ot_off(r) == V.off_seconds(a.offset)))


@contract(OT + "._ctor", "C11", name="OffsetTime._ctor(nanosecond_of_day, offset_seconds)")
def _(c):
    c.kwarg("nanosecond_of_day", Int(0, V.NPD - 1)).kwarg("offset_seconds", Int(-64800, 64800))
    c.returns(lambda a, r: And(V.ot_n(r) == a.nanosecond_of_day, V.ot_off(r) == a.offset_seconds))


for _n, _f in (("nanosecond_of_day", lambda t: V.ot_n(t)), ("_offset_seconds", lambda t: V.ot_off(t)), ("_offset_nanoseconds", lambda t: V.ot_off(t) * V.NPS)):

    def _mk(n=_n, f=_f):
        @contract(f"{OT}.{n}", "C11", name=f"OffsetTime.{n}")
        def _(c):
            c.arg("self", OffsetTimeG())
            c.returns(lambda a, r: r == f(a.self))

    _mk()


@contract(OT + ".offset", "C11")
def _(c):
    c.arg("self", OffsetTimeG())
    c.returns(lambda a, r: And(V.inv_offset(r), V.off_seconds(r) == V.ot_off(a.self)))


@contract(OT + ".time_of_day", "C11")
def _(c):
    c.arg("self", OffsetTimeG())
    c.returns(lambda a, r: And(V.inv_local_time(r), V.lt_nanos(r) == V.ot_n(a.self)))


@contract(OT + ".with_offset", "C11")
def _(c):
    c.arg("self", OffsetTimeG()).arg("offset", OffsetG())
    c.returns(lambda a, r: And(V.ot_n(r) == V.ot_n(a.self), V.ot_off(r) == V.off_seconds(a.offset)))


# ------------------------------------------------------------------------------------------ OffsetDateTime
def local_ns(a, x, cal=None):
    return ld_dse(a, V.odt_date(x), cal) * V.NPD + V.ot_n(V.odt_ot(x))


def instant_ns(a, x, cal=None):
    return local_ns(a, x, cal) - V.ot_off(V.odt_ot(x)) * V.NPS


def day_in(cal, n):
    d = n // V.NPD
    return And(d >= CA.soy(cal.cid, cal.min_year), d <= CA.soy(cal.cid, cal.max_year + 1) - 1)


def same_cal(cal, x):
    return And(ld_valid_in(cal, V.odt_date(x)), V.inv_offset_time(V.odt_ot(x)))


@contract(ODT + "._ctor", "C11", name="OffsetDateTime._ctor(instant, offset, calendar): local = instant + offset, in the given calendar")
def _(c):
    c.ghost("cal", AbsCalG()).kwarg("instant", InstantG()).kwarg("offset", OffsetG()).kwarg("calendar", _SystemOf("cal"))
    c.setup = _setup
    want = lambda a: V.inst_ns(a.instant) + V.off_seconds(a.offset) * V.NPS  # noqa: E731
    c.returns(lambda a, r: And(same_cal(a.cal, r), local_ns(a, r) == want(a), V.ot_off(V.odt_ot(r)) == V.off_seconds(a.offset)), when=lambda a: day_in(a.cal, want(a)))
    c.raises(*RANGE, when=lambda a: Not(day_in(a.cal, want(a))))


@contract(ODT + "._ctor", "C11", name="OffsetDateTime._ctor(instant, offset) without calendar is ISO")
def _(c):
    c.ghost("iso", IsoAbsCalG("iso")).kwarg("instant", InstantG()).kwarg("offset", OffsetG())
    c.setup = _setup
    want = lambda a: V.inst_ns(a.instant) + V.off_seconds(a.offset) * V.NPS  # noqa: E731
    c.returns(lambda a, r: And(same_cal(a.iso, r), local_ns(a, r, a.iso) == want(a)), when=lambda a: day_in(a.iso, want(a)))
    c.raises(*RANGE, when=lambda a: Not(day_in(a.iso, want(a))))


@contract(ODT + ".to_instant", "C11", name="OffsetDateTime.to_instant == local - offset; OverflowError outside the Instant range")
def _(c):
    c.ghost("cal", AbsCalG()).arg("self", OffsetDateTimeG())
    c.setup = _setup
    c.returns(lambda a, r: V.is_instant_of(r, instant_ns(a, a.self)), when=lambda a: V.inst_in_range(instant_ns(a, a.self)))
    c.raises(*RANGE, when=lambda a: Not(V.inst_in_range(instant_ns(a, a.self))))


@contract(ODT + ".with_offset", "C11", name="OffsetDateTime.with_offset keeps the instant and the calendar")
def _(c):
    c.ghost("cal", AbsCalG()).arg("self", OffsetDateTimeG()).arg("offset", OffsetG())
    c.setup = _setup
    want = lambda a: instant_ns(a, a.self) + V.off_seconds(a.offset) * V.NPS  # noqa: E731
    c.returns(lambda a, r: And(same_cal(a.cal, r), instant_ns(a, r) == instant_ns(a, a.self), V.ot_off(V.odt_ot(r)) == V.off_seconds(a.offset)), when=lambda a: day_in(a.cal, want(a)))
    c.raises(*RANGE, when=lambda a: Not(day_in(a.cal, want(a))))


@contract(ODT + ".with_calendar", "C11", name="OffsetDateTime.with_calendar keeps instant, offset and time of day")
def _(c):
    c.ghost("cal", AbsCalG("cal")).ghost("cal2", AbsCalG("cal2")).arg("self", OffsetDateTimeG("cal")).arg("calendar", _SystemOf("cal2"))
    c.setup = _setup
    c.requires(lambda a: a.cal.ordinal != a.cal2.ordinal)
    n = lambda a: ld_dse(a, V.odt_date(a.self))  # noqa: E731
    inr = lambda a: And(n(a) >= CA.soy(a.cal2.cid, a.cal2.min_year), n(a) <= CA.soy(a.cal2.cid, a.cal2.max_year + 1) - 1)  # noqa: E731
    c.returns(lambda a, r: And(same_cal(a.cal2, r), instant_ns(a, r, a.cal2) == instant_ns(a, a.self), V.ot_word(V.odt_ot(r)) == V.ot_word(V.odt_ot(a.self))), when=inr)
    c.raises(ValueError, when=lambda a: Not(inr(a)))


for _op, _sgn in (("__add__", 1), ("__sub__", -1)):

    def _mk2(op=_op, sgn=_sgn):
        @contract(f"{ODT}.{op}", "C11", name=f"OffsetDateTime.{op}(Duration) moves the instant by exactly the duration and keeps offset AND calendar")
        def _(c):
            c.ghost("cal", AbsCalG("cal")).ghost("iso", IsoAbsCalG("iso")).arg("self", OffsetDateTimeG("cal")).arg("duration", DurationG())
            c.setup = _setup
            c.requires(lambda a: a.cal.ordinal != 0)
            ti = lambda a: instant_ns(a, a.self) + sgn * V.ns(a.duration)  # noqa: E731
            ok = lambda a: And(V.inst_in_range(instant_ns(a, a.self)), V.inst_in_range(ti(a)), day_in(a.cal, ti(a) + V.ot_off(V.odt_ot(a.self)) * V.NPS))  # noqa: E731
            c.returns(lambda a, r: And(same_cal(a.cal, r), instant_ns(a, r) == ti(a), V.ot_off(V.odt_ot(r)) == V.ot_off(V.odt_ot(a.self))), when=ok)
            c.raises(*RANGE, when=lambda a: Not(ok(a)))
            c.timeout_s = 60

    _mk2()


@contract(ODT + ".__sub__", "C11", name="OffsetDateTime - OffsetDateTime is the elapsed duration between the instants, whatever offsets and calendars")
def _(c):
    c.ghost("cal", AbsCalG("cal")).ghost("cal2", AbsCalG("cal2")).arg("self", OffsetDateTimeG("cal")).arg("other", OffsetDateTimeG("cal2"))
    c.setup = _setup
    c.requires(lambda a: a.cal.ordinal != a.cal2.ordinal)
    ok = lambda a: And(V.inst_in_range(instant_ns(a, a.self)), V.inst_in_range(instant_ns(a, a.other, a.cal2)))  # noqa: E731
    c.returns(lambda a, r: V.is_duration_of(r, instant_ns(a, a.self) - instant_ns(a, a.other, a.cal2)), when=ok)
    c.raises(*RANGE, when=lambda a: Not(ok(a)))


@contract(ODT + ".__eq__", "C11", "C12")
def _(c):
    c.ghost("cal", AbsCalG()).arg("self", OffsetDateTimeG()).arg("other", OffsetDateTimeG())
    c.returns(lambda a, r: Iff(r, And(local_ns(a, a.self) == local_ns(a, a.other), V.ot_off(V.odt_ot(a.self)) == V.ot_off(V.odt_ot(a.other)))))


# ------------------------------------------------------------------------------------------ ZonedDateTime over an abstract zone
import z3 as _z3  # noqa: E402

from pyvc import sym as _sym  # noqa: E402
from pyvc.contracts import Gen  # noqa: E402
from pyvc.sym import SInt as _SInt  # noqa: E402

ZDT = "pyoda_time._zoned_date_time:ZonedDateTime"
ZOFF = _z3.Function("ZONE_OFFSET_SECONDS", _z3.IntSort(), _z3.IntSort())  # the zone's offset at an instant (ns)


def zoff(t):
    return _sym.mk_int(ZOFF(_SInt.lift(t)))


class AbsZoneG(Gen):
    """any time zone, seen through get_utc_offset: some offset within +-18 h at every instant"""

    def make(self, name, b):
        from pyvc.values import SObj
        from pyoda_time import DateTimeZone

        z = SObj(DateTimeZone, {"_DateTimeZone__id": "Abstract/Zone"}, owner=-1, tag=name)
        b.named[name] = z
        return z


def _zone_setup(eng):
    _setup(eng)
    from pyvc.values import SObj
    from pyoda_time import DateTimeZone, Offset

    def m_off(eng, self_, instant):
        s = zoff(V.inst_ns(instant))
        eng.assume(And(s >= -64800, s <= 64800))
        return SObj(Offset, {"_Offset__seconds": s}, owner=eng.active_runs[-1])

    eng.func_models[vars(DateTimeZone)["get_utc_offset"]] = m_off


class ZonedG(Gen):
    def make(self, name, b):
        from pyvc.values import SObj
        from pyoda_time._zoned_date_time import ZonedDateTime

        odt = OffsetDateTimeG("cal").make(name + ".odt", b)
        zone = b.named.get("zone") or AbsZoneG().make("zone", b)
        cal = b.named["cal"]
        # class invariant: the stored offset is the zone's offset at the instant the value denotes
        t = (ld_dse_c(cal, V.odt_date(odt)) * V.NPD + V.ot_n(V.odt_ot(odt))) - V.ot_off(V.odt_ot(odt)) * V.NPS
        b.assume(And(zoff(t) == V.ot_off(V.odt_ot(odt)), V.inst_in_range(t)))  # ... and that instant is a valid Instant
        return SObj(ZonedDateTime, {"_ZonedDateTime__offset_date_time": odt, "_ZonedDateTime__zone": zone}, owner=-1, tag=name)


def ld_dse_c(cal, d):
    from specs import cal_abs as _CA

    return _CA.dse(cal.cid, V.ld_y(d), V.ld_m(d), V.ld_d(d))


def zdt_instant_ns(a, z):
    odt = V.fld(z, "_ZonedDateTime__offset_date_time")
    return ld_dse_c(a.cal, V.odt_date(odt)) * V.NPD + V.ot_n(V.odt_ot(odt)) - V.ot_off(V.odt_ot(odt)) * V.NPS


def zdt_ok(a, r, t):
    """r denotes instant t in the zone: offset = the zone's offset at t, local = t + offset, calendar and zone kept"""
    odt = V.fld(r, "_ZonedDateTime__offset_date_time")
    return And(same_cal(a.cal, odt), zdt_instant_ns(a, r) == t, V.ot_off(V.odt_ot(odt)) == zoff(t), V.fld(r, "_ZonedDateTime__zone") is a.zone)


@contract(ZDT + ".__add__", "C11", name="ZonedDateTime + Duration: the instant moves by exactly the duration and the offset is the zone's offset AT THE NEW INSTANT; calendar and zone kept")
def _(c):
    c.ghost("cal", AbsCalG("cal")).ghost("iso", IsoAbsCalG("iso")).ghost("zone", AbsZoneG()).arg("self", ZonedG()).arg("other", DurationG())
    c.setup = _zone_setup
    c.crosscheck = 0
    c.replayable = False
    c.timeout_s = 120
    want = lambda a: zdt_instant_ns(a, a.self) + V.ns(a.other)  # noqa: E731
    local_day = lambda a: (want(a) + zoff(want(a)) * V.NPS) // V.NPD  # noqa: E731
    ok = lambda a: And(V.inst_in_range(want(a)), day_in(a.cal, want(a) + zoff(want(a)) * V.NPS))  # noqa: E731
    c.returns(lambda a, r: zdt_ok(a, r, want(a)), when=ok)
    c.raises(*RANGE, when=lambda a: Not(ok(a)))
    _ = local_day


@contract(ZDT + ".to_instant", "C11", name="ZonedDateTime.to_instant: local time minus the stored offset")
def _(c):
    c.ghost("cal", AbsCalG("cal")).ghost("zone", AbsZoneG()).arg("self", ZonedG())
    c.setup = _zone_setup
    c.crosscheck = 0
    c.replayable = False
    t = lambda a: zdt_instant_ns(a, a.self)  # noqa: E731
    c.returns(lambda a, r: V.is_instant_of(r, t(a)), when=lambda a: V.inst_in_range(t(a)))
    c.raises(*RANGE, when=lambda a: Not(V.inst_in_range(t(a))))
