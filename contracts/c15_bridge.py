"""C15 -- conversions to and from the standard library's datetime types are exact and round-trip.

The stdlib types are seen through the assumed contracts of specs/dt_models.py (A13: abstract views 'day number',
'microsecond of day', 'total microseconds', 'utcoffset microseconds').  Each bridge function gets a postcondition
over those views; the two round-trip directions follow from the pairs of postconditions (harness lemmas at the end)."""

from __future__ import annotations

import datetime as _dt

from pyvc.contracts import Int, contract
from pyvc.sym import And, Implies, Not, Or, trunc_div
from specs import cal_abs as CA
from specs import dt_models as DT
from specs import views as V

from .c01_generic import ld_dse, ld_valid_in
from .gens import (
    AbsCalG,
    DurationG,
    GregAbsCalG,
    InstantG,
    IsoStdCalG,
    LocalDateG,
    LocalDateTimeG,
    LocalTimeG,
    OffsetDateTimeG,
    OffsetG,
    StdDateG,
    StdDatetimeG,
    StdTimedeltaG,
    StdTimeG,
)

LD = "pyoda_time._local_date:LocalDate."
LT = "pyoda_time._local_time:LocalTime."
LDT = "pyoda_time._local_date_time:LocalDateTime."
INS = "pyoda_time._instant:Instant."
DUR = "pyoda_time._duration:Duration."
OFF = "pyoda_time._offset:Offset."
ODT = "pyoda_time._offset_date_time:OffsetDateTime."
CC = "pyoda_time.utility._csharp_compatibility:"

BCL_DAYS = 719162  # days from 0001-01-01 to 1970-01-01


def _setup(eng):
    from specs import cal_abs, dt_models

    cal_abs.install(eng)
    dt_models.install(eng)


def _setup_modular(eng):
    """Callers of the two LocalDateTime bridges use their contracts (proved above), not their bodies."""
    _setup(eng)
    from specs import bridge_models

    bridge_models.install(eng)


def _setup_plain(eng):
    from specs import dt_models

    dt_models.install(eng, None)


def year_cache_write(obj, name):
    """PyodaConstants.BCL_EPOCH builds a date through the real ISO calculator, which may fill its year-start cache
    (transparent: C13); no other write to pre-existing state is allowed."""
    return "'item'" in str(name)


def in_std_days(n):
    return And(n >= DT.MIN_ORD, n <= DT.MAX_ORD)


def cal_range(cal, n):
    return And(n >= CA.soy(cal.cid, cal.min_year), n <= CA.soy(cal.cid, cal.max_year + 1) - 1)


# ------------------------------------------------------------------------------------------------- facts about the real Gregorian calendar
def _greg_years():
    from pyoda_time import CalendarSystem

    calc = CalendarSystem.gregorian._year_month_day_calculator
    return [{"self": calc, "year": y} for y in range(1, 10001)]


@contract("pyoda_time.calendars._gregorian_year_month_day_calculator:_GregorianYearMonthDayCalculator._get_start_of_year_in_days", "C15", name="A5 (Gregorian part) discharged: the real Gregorian year starts are the stdlib's (every year 1..10000)")
def _(c):
    c.arg("self", Int()).arg("year", Int())
    c.ground = lambda: _greg_years() + [{"self": _greg_years()[0]["self"], "year": -9998}]
    c.ground_chunks = 4
    # years 1..10000 against the stdlib; the first supported year against the first day number an Instant can hold
    c.returns(lambda a, r: r == (-4371222 if a.year == -9998 else (_dt.date(a.year, 1, 1).toordinal() - DT.EPOCH if a.year <= 9999 else DT.MAX_ORD + 1)))


@contract("pyoda_time.calendars._g_j_year_month_day_calculator:_GJYearMonthDayCalculator._get_months_in_year", "C15", "C17", name="A5 (Gregorian part) discharged: every Gregorian/ISO year has 12 months (years -9999..10000)")
def _(c):
    from pyoda_time import CalendarSystem

    c.arg("self", Int()).arg("year", Int())
    c.ground = lambda: [{"self": CalendarSystem.gregorian._year_month_day_calculator, "year": y} for y in range(-9999, 10001)]
    c.ground_chunks = 4
    c.returns(lambda a, r: r == 12)


def _greg_months():
    from pyoda_time import CalendarSystem

    calc = CalendarSystem.gregorian._year_month_day_calculator
    return [{"self": calc, "year": y, "month": m} for y in range(1, 10000) for m in range(1, 13)]


@contract("pyoda_time.calendars._g_j_year_month_day_calculator:_GJYearMonthDayCalculator._get_days_in_month", "C15", name="A5 (Gregorian part) discharged: the real Gregorian month lengths are the stdlib's (every month of years 1..9999)")
def _(c):
    import calendar as _cal

    c.arg("self", Int()).arg("year", Int()).arg("month", Int())
    c.ground = _greg_months
    c.ground_chunks = 8
    c.returns(lambda a, r: r == _cal.monthrange(a.year, a.month)[1])


@contract("pyoda_time.calendars._g_j_year_month_day_calculator:_GJYearMonthDayCalculator._get_days_from_start_of_year_to_start_of_month", "C15", name="A5 (Gregorian part) discharged: the real Gregorian month starts are the stdlib's (every month of years 1..9999)")
def _(c):
    c.arg("self", Int()).arg("year", Int()).arg("month", Int())
    c.ground = _greg_months
    c.ground_chunks = 8
    c.returns(lambda a, r: r == _dt.date(a.year, a.month, 1).toordinal() - _dt.date(a.year, 1, 1).toordinal())


# ------------------------------------------------------------------------------------------------- LocalDate <-> date
@contract(LD + "to_date", "C15", name="LocalDate.to_date: same physical day (any calendar); OverflowError outside date.min..date.max")
def _(c):
    c.ghost("cal", AbsCalG()).arg("self", LocalDateG())
    c.setup = _setup
    n = lambda a: ld_dse(a, a.self)  # noqa: E731
    c.returns(lambda a, r: DT.date_ord(r) == n(a), when=lambda a: in_std_days(n(a)))
    c.raises(OverflowError, when=lambda a: Not(in_std_days(n(a))))


@contract(LD + "from_date", "C15", name="LocalDate.from_date: the ISO date with the same day number, for every datetime.date")
def _(c):
    c.ghost("cal", IsoStdCalG("cal")).arg("date", StdDateG())
    c.setup = _setup
    c.returns(lambda a, r: And(ld_valid_in(a.cal, r), ld_dse(a, r) == DT.date_ord(a.date)))


# ------------------------------------------------------------------------------------------------- LocalTime <-> time
@contract(LT + "to_time", "C15", name="LocalTime.to_time: truncated to the microsecond below")
def _(c):
    c.arg("self", LocalTimeG())
    c.setup = _setup_plain
    c.returns(lambda a, r: And(DT.time_us(r) == V.lt_nanos(a.self) // 1000, r.tzinfo is None))


@contract(LT + "from_time", "C15", name="LocalTime.from_time: exact, for every datetime.time")
def _(c):
    c.arg("time", StdTimeG())
    c.setup = _setup_plain
    c.returns(lambda a, r: And(V.inv_local_time(r), V.lt_nanos(r) == DT.time_us(a.time) * 1000))


# ------------------------------------------------------------------------------------------------- ticks helper
@contract(CC + "_to_ticks", "C15", name="_to_ticks(naive or aware datetime): ticks of the local fields since 0001-01-01T00:00")
def _(c):
    c.arg("obj", StdDatetimeG(aware=False))
    c.setup = _setup_plain
    c.returns(lambda a, r: r == ((DT.date_ord(a.obj) + BCL_DAYS) * DT.US_DAY + DT.time_us(a.obj)) * 10)


@contract(CC + "_to_ticks", "C15", name="_to_ticks(aware datetime) ignores the offset")
def _(c):
    c.arg("obj", StdDatetimeG(aware=True))
    c.setup = _setup_plain
    c.returns(lambda a, r: r == ((DT.date_ord(a.obj) + BCL_DAYS) * DT.US_DAY + DT.time_us(a.obj)) * 10)


@contract(CC + "_to_ticks", "C15", name="_to_ticks(timedelta): total microseconds * 10")
def _(c):
    c.arg("obj", StdTimedeltaG())
    c.setup = _setup_plain
    c.returns(lambda a, r: r == DT.delta_us(a.obj) * 10)


# ------------------------------------------------------------------------------------------------- LocalDateTime <-> naive datetime
def ldt_day(a, x, cal=None):
    return ld_dse(a, V.ldt_date(x), cal)


@contract(LDT + "to_naive_datetime", "C15", name="LocalDateTime.to_naive_datetime (Gregorian value): same day and time truncated to microseconds for every year 1..9999; RuntimeError below year 1")
def _(c):
    c.ghost("cal", GregAbsCalG("cal")).arg("self", LocalDateTimeG("cal"))
    c.setup = _setup
    n = lambda a: ldt_day(a, a.self)  # noqa: E731
    c.returns(lambda a, r: And(DT.date_ord(r) == n(a), DT.time_us(r) == V.lt_nanos(V.ldt_time(a.self)) // 1000, r.tzinfo is None), when=lambda a: n(a) >= DT.MIN_ORD)
    c.raises(RuntimeError, when=lambda a: n(a) < DT.MIN_ORD)
    c.timeout_s = 60


@contract(LDT + "to_naive_datetime", "C15", name="LocalDateTime.to_naive_datetime (any other calendar): converted to the Gregorian day first")
def _(c):
    c.ghost("cal", AbsCalG("cal")).ghost("greg", GregAbsCalG("greg")).arg("self", LocalDateTimeG("cal"))
    c.setup = _setup
    c.requires(lambda a: a.cal.ordinal != a.greg.ordinal)
    n = lambda a: ldt_day(a, a.self)  # noqa: E731
    ing = lambda a: cal_range(a.greg, n(a))  # noqa: E731  (every real calendar lies inside the Gregorian range; an abstract one need not)
    c.returns(lambda a, r: And(DT.date_ord(r) == n(a), DT.time_us(r) == V.lt_nanos(V.ldt_time(a.self)) // 1000, r.tzinfo is None), when=lambda a: And(ing(a), n(a) >= DT.MIN_ORD))
    c.raises(RuntimeError, when=lambda a: And(ing(a), n(a) < DT.MIN_ORD))
    c.raises(ValueError, when=lambda a: Not(ing(a)))
    c.timeout_s = 60


class _SystemOf:
    def __init__(self, name):
        self.name = name

    def make(self, name, b):
        return b.named[self.name].system

    def realize(self, v, ev, ctx):
        return ctx["cals"][self.name].system


@contract(LDT + "from_naive_datetime", "C15", name="LocalDateTime.from_naive_datetime(dt): exact ISO value for every naive datetime")
def _(c):
    c.ghost("cal", IsoStdCalG("cal")).arg("dt", StdDatetimeG())
    c.setup = _setup
    c.returns(lambda a, r: And(ld_valid_in(a.cal, V.ldt_date(r)), ldt_day(a, r) == DT.date_ord(a.dt), V.lt_nanos(V.ldt_time(r)) == DT.time_us(a.dt) * 1000))
    c.timeout_s = 60


@contract(LDT + "from_naive_datetime", "C15", name="LocalDateTime.from_naive_datetime(dt, calendar): same day and time in the requested calendar; ValueError when the calendar cannot hold the day")
def _(c):
    c.ghost("cal", AbsCalG("cal")).ghost("iso", IsoStdCalG("iso")).arg("dt", StdDatetimeG()).arg("calendar", _SystemOf("cal"))
    c.setup = _setup
    c.requires(lambda a: a.cal.ordinal != 0)
    ok = lambda a: cal_range(a.cal, DT.date_ord(a.dt))  # noqa: E731
    c.returns(lambda a, r: And(ld_valid_in(a.cal, V.ldt_date(r)), ldt_day(a, r) == DT.date_ord(a.dt), V.lt_nanos(V.ldt_time(r)) == DT.time_us(a.dt) * 1000), when=ok)
    c.raises(ValueError, when=lambda a: Not(ok(a)))
    c.timeout_s = 60


@contract(LDT + "from_naive_datetime", "C15", name="LocalDateTime.from_naive_datetime rejects aware datetimes")
def _(c):
    c.ghost("cal", IsoStdCalG("cal")).arg("dt", StdDatetimeG(aware=True))
    c.setup = _setup
    c.raises(ValueError)


# ------------------------------------------------------------------------------------------------- Instant <-> aware datetime
@contract(INS + "to_datetime_utc", "C15", name="Instant.to_datetime_utc: the same instant truncated to the microsecond below, tz UTC; RuntimeError before 0001-01-01")
def _(c):
    c.arg("self", InstantG())
    c.allow_mutation = year_cache_write
    c.setup = _setup_plain
    n = lambda a: V.inst_ns(a.self)  # noqa: E731
    ok = lambda a: n(a) >= DT.MIN_ORD * V.NPD  # noqa: E731
    c.returns(lambda a, r: And(DT.date_ord(r) * DT.US_DAY + DT.time_us(r) == n(a) // 1000, DT.tz_us(r.tzinfo, r) == 0), when=ok)
    c.raises(RuntimeError, when=lambda a: Not(ok(a)))


@contract(INS + "from_aware_datetime", "C15", name="Instant.from_aware_datetime: local fields minus utcoffset, exact, for every aware datetime")
def _(c):
    c.arg("dt", StdDatetimeG(aware=True))
    c.allow_mutation = year_cache_write
    c.setup = _setup_plain
    want = lambda a: (DT.date_ord(a.dt) * DT.US_DAY + DT.time_us(a.dt) - DT.tz_us(a.dt.tzinfo, a.dt)) * 1000  # noqa: E731
    # an offset can push the instant before Instant.min_value only by going below year -9998: impossible from year 1;
    # above 9999-12-31T23:59:59.999999999 it is possible (negative offsets at the very end) -> must raise, not wrap
    c.returns(lambda a, r: V.is_instant_of(r, want(a)), when=lambda a: V.inst_in_range(want(a)))
    c.raises(OverflowError, ValueError, when=lambda a: Not(V.inst_in_range(want(a))))


@contract(INS + "from_aware_datetime", "C15", name="Instant.from_aware_datetime rejects naive datetimes")
def _(c):
    c.arg("dt", StdDatetimeG(aware=False))
    c.setup = _setup_plain
    c.raises(ValueError)


# ------------------------------------------------------------------------------------------------- Duration <-> timedelta
@contract(DUR + "from_timedelta", "C15", name="Duration.from_timedelta: exact for every timedelta (timedelta.min .. timedelta.max)")
def _(c):
    c.arg("timedelta", StdTimedeltaG())
    c.setup = _setup_plain
    c.returns(lambda a, r: V.is_duration_of(r, DT.delta_us(a.timedelta) * 1000))


@contract(DUR + "to_timedelta", "C15", name="Duration.to_timedelta: truncated toward zero to microseconds; OverflowError beyond timedelta's range")
def _(c):
    c.arg("self", DurationG())
    c.setup = _setup_plain
    us = lambda a: trunc_div(V.ns(a.self), 1000)  # noqa: E731
    ok = lambda a: And(us(a) >= -DT.TD_MAX_DAYS * DT.US_DAY, us(a) < (DT.TD_MAX_DAYS + 1) * DT.US_DAY)  # noqa: E731
    c.returns(lambda a, r: DT.delta_us(r) == us(a), when=ok)
    c.raises(OverflowError, when=lambda a: Not(ok(a)))


# ------------------------------------------------------------------------------------------------- Offset <-> timedelta
@contract(OFF + "to_timedelta", "C15", name="Offset.to_timedelta: exact")
def _(c):
    c.arg("self", OffsetG())
    c.setup = _setup_plain
    c.returns(lambda a, r: DT.delta_us(r) == V.off_seconds(a.self) * 1_000_000)


@contract(OFF + "from_timedelta", "C15", name="Offset.from_timedelta: whole seconds toward zero within +-18 h (float path under A13), ValueError outside")
def _(c):
    c.arg("timedelta", StdTimedeltaG())
    c.setup = _setup_plain
    us = lambda a: DT.delta_us(a.timedelta)  # noqa: E731
    lim = 18 * 3600 * 1_000_000
    c.returns(lambda a, r: V.off_seconds(r) == trunc_div(us(a), 1_000_000), when=lambda a: And(us(a) >= -lim, us(a) <= lim))
    c.raises(ValueError, when=lambda a: Or(us(a) < -lim, us(a) > lim))
    c.crosscheck = 40


# ------------------------------------------------------------------------------------------------- OffsetDateTime <-> aware datetime
def odt_local_us(a, x, cal=None):
    return ld_dse(a, V.odt_date(x), cal) * DT.US_DAY + V.ot_n(V.odt_ot(x)) // 1000


@contract(ODT + "to_aware_datetime", "C15", name="OffsetDateTime.to_aware_datetime (Gregorian value): same local day/time (microseconds) and the same offset")
def _(c):
    c.ghost("cal", GregAbsCalG("cal")).arg("self", OffsetDateTimeG("cal"))
    c.setup = _setup_modular
    n = lambda a: ld_dse(a, V.odt_date(a.self))  # noqa: E731
    c.returns(
        lambda a, r: And(DT.date_ord(r) * DT.US_DAY + DT.time_us(r) == odt_local_us(a, a.self), DT.tz_us(r.tzinfo, r) == V.ot_off(V.odt_ot(a.self)) * 1_000_000),
        when=lambda a: n(a) >= DT.MIN_ORD,
    )
    c.raises(RuntimeError, when=lambda a: n(a) < DT.MIN_ORD)
    c.timeout_s = 90


@contract(ODT + "to_aware_datetime", "C15", name="OffsetDateTime.to_aware_datetime (any other calendar)")
def _(c):
    c.ghost("cal", AbsCalG("cal")).ghost("greg", GregAbsCalG("greg")).arg("self", OffsetDateTimeG("cal"))
    c.setup = _setup_modular
    c.requires(lambda a: a.cal.ordinal != a.greg.ordinal)
    n = lambda a: ld_dse(a, V.odt_date(a.self))  # noqa: E731
    ing = lambda a: cal_range(a.greg, n(a))  # noqa: E731
    c.returns(
        lambda a, r: And(DT.date_ord(r) * DT.US_DAY + DT.time_us(r) == odt_local_us(a, a.self), DT.tz_us(r.tzinfo, r) == V.ot_off(V.odt_ot(a.self)) * 1_000_000),
        when=lambda a: And(ing(a), n(a) >= DT.MIN_ORD),
    )
    c.raises(RuntimeError, when=lambda a: And(ing(a), n(a) < DT.MIN_ORD))
    c.raises(ValueError, when=lambda a: Not(ing(a)))
    c.timeout_s = 90


@contract(ODT + "from_aware_datetime", "C15", name="OffsetDateTime.from_aware_datetime: same local fields; offset = utcoffset truncated to whole seconds within +-18 h, ValueError outside")
def _(c):
    c.ghost("cal", IsoStdCalG("cal")).arg("aware_datetime", StdDatetimeG(aware=True))
    c.setup = _setup_modular
    off = lambda a: DT.tz_us(a.aware_datetime.tzinfo, a.aware_datetime)  # noqa: E731
    lim = 18 * 3600 * 1_000_000
    ok = lambda a: And(off(a) >= -lim, off(a) <= lim)  # noqa: E731
    c.returns(
        lambda a, r: And(
            ld_valid_in(a.cal, V.odt_date(r)),
            ld_dse(a, V.odt_date(r)) == DT.date_ord(a.aware_datetime),
            V.ot_n(V.odt_ot(r)) == DT.time_us(a.aware_datetime) * 1000,
            V.ot_off(V.odt_ot(r)) == trunc_div(off(a), 1_000_000),
        ),
        when=ok,
    )
    c.raises(ValueError, when=lambda a: Not(ok(a)))
    c.timeout_s = 90


_ = (Implies, InstantG, LocalTimeG, OffsetDateTimeG)


# ------------------------------------------------------------------------------------------------- round trips (the first sentence of the property)
HB = "harness.bridge:"


@contract(HB + "rt_date", "C15", name="round trip: LocalDate.from_date(d).to_date() == d for every datetime.date")
def _(c):
    c.ghost("cal", IsoStdCalG("cal")).arg("d", StdDateG())
    c.setup = _setup
    c.returns(lambda a, r: DT.date_ord(r) == DT.date_ord(a.d))


@contract(HB + "rt_time", "C15", name="round trip: LocalTime.from_time(t).to_time() == t for every naive datetime.time")
def _(c):
    c.arg("t", StdTimeG())
    c.setup = _setup_plain
    c.returns(lambda a, r: And(DT.time_us(r) == DT.time_us(a.t), r.tzinfo is None))


@contract(HB + "rt_naive", "C15", name="round trip: LocalDateTime.from_naive_datetime(dt).to_naive_datetime() == dt for every naive datetime (datetime.min .. datetime.max)")
def _(c):
    c.ghost("iso", IsoStdCalG("iso")).ghost("greg", GregAbsCalG("greg")).arg("dt", StdDatetimeG())
    c.setup = _setup_modular
    c.returns(lambda a, r: And(DT.date_ord(r) == DT.date_ord(a.dt), DT.time_us(r) == DT.time_us(a.dt), r.tzinfo is None))
    c.timeout_s = 90


@contract(HB + "rt_aware", "C15", name="round trip: OffsetDateTime.from_aware_datetime(dt).to_aware_datetime() == dt (local fields and utcoffset) for every aware datetime whose offset is whole seconds within +-18 h")
def _(c):
    c.ghost("iso", IsoStdCalG("iso")).ghost("greg", GregAbsCalG("greg")).arg("dt", StdDatetimeG(aware=True))
    c.setup = _setup_modular
    off = lambda a: DT.tz_us(a.dt.tzinfo, a.dt)  # noqa: E731
    c.requires(lambda a: And(off(a) % 1_000_000 == 0, off(a) >= -64800 * 1_000_000, off(a) <= 64800 * 1_000_000))
    c.returns(lambda a, r: And(DT.date_ord(r) == DT.date_ord(a.dt), DT.time_us(r) == DT.time_us(a.dt), DT.tz_us(r.tzinfo, r) == off(a)))
    c.timeout_s = 120


@contract(HB + "rt_instant", "C15", name="round trip: Instant.from_aware_datetime(dt).to_datetime_utc() is the same instant in UTC (or raises when the UTC value lies outside datetime's range)")
def _(c):
    c.arg("dt", StdDatetimeG(aware=True))
    c.setup = _setup_plain
    c.allow_mutation = year_cache_write
    utc = lambda a: DT.date_ord(a.dt) * DT.US_DAY + DT.time_us(a.dt) - DT.tz_us(a.dt.tzinfo, a.dt)  # noqa: E731
    ok = lambda a: And(utc(a) >= DT.MIN_ORD * DT.US_DAY, utc(a) < (DT.MAX_ORD + 1) * DT.US_DAY)  # noqa: E731
    c.returns(lambda a, r: And(DT.date_ord(r) * DT.US_DAY + DT.time_us(r) == utc(a), DT.tz_us(r.tzinfo, r) == 0), when=ok)
    c.raises(RuntimeError, OverflowError, ValueError, when=lambda a: Not(ok(a)))


@contract(HB + "rt_timedelta", "C15", name="round trip: Duration.from_timedelta(td).to_timedelta() == td for every timedelta (timedelta.min .. timedelta.max)")
def _(c):
    c.arg("td", StdTimedeltaG())
    c.setup = _setup_plain
    c.returns(lambda a, r: DT.delta_us(r) == DT.delta_us(a.td))


@contract(HB + "rt_offset", "C15", name="round trip: Offset.from_timedelta(td).to_timedelta() == td for every whole-second timedelta within +-18 h")
def _(c):
    c.arg("td", StdTimedeltaG())
    c.setup = _setup_plain
    c.requires(lambda a: And(DT.delta_us(a.td) % 1_000_000 == 0, DT.delta_us(a.td) >= -64800 * 1_000_000, DT.delta_us(a.td) <= 64800 * 1_000_000))
    c.returns(lambda a, r: DT.delta_us(r) == DT.delta_us(a.td))


@contract(HB + "back_date", "C15", name="back trip: LocalDate.from_date(x.to_date()) is x's day in the ISO calendar (any calendar, years 1..9999)")
def _(c):
    c.ghost("cal", AbsCalG("cal")).ghost("iso", IsoStdCalG("iso")).arg("ld", LocalDateG("cal"))
    c.setup = _setup
    c.requires(lambda a: a.cal.ordinal != 0)
    n = lambda a: ld_dse(a, a.ld)  # noqa: E731
    c.returns(lambda a, r: And(ld_valid_in(a.iso, r), ld_dse(a, r, a.iso) == n(a)), when=lambda a: in_std_days(n(a)))
    c.raises(OverflowError, when=lambda a: Not(in_std_days(n(a))))


@contract(HB + "back_duration", "C15", name="back trip: Duration.from_timedelta(d.to_timedelta()) is d truncated toward zero to microseconds")
def _(c):
    c.arg("d", DurationG())
    c.setup = _setup_plain
    us = lambda a: trunc_div(V.ns(a.d), 1000)  # noqa: E731
    ok = lambda a: And(us(a) >= -DT.TD_MAX_DAYS * DT.US_DAY, us(a) < (DT.TD_MAX_DAYS + 1) * DT.US_DAY)  # noqa: E731
    c.returns(lambda a, r: V.is_duration_of(r, us(a) * 1000), when=ok)
    c.raises(OverflowError, when=lambda a: Not(ok(a)))


@contract(HB + "back_time", "C15", name="back trip: LocalTime.from_time(t.to_time()) is t truncated to the microsecond below")
def _(c):
    c.arg("t", LocalTimeG())
    c.setup = _setup_plain
    c.returns(lambda a, r: V.lt_nanos(r) == V.lt_nanos(a.t) // 1000 * 1000)


@contract(HB + "back_offset", "C15", name="back trip: Offset.from_timedelta(o.to_timedelta()) == o for every Offset")
def _(c):
    c.arg("o", OffsetG())
    c.setup = _setup_plain
    c.returns(lambda a, r: V.off_seconds(r) == V.off_seconds(a.o))
