"""C09 -- date arithmetic over the calendar interface contract CAL (symbolic calendar)."""

from __future__ import annotations

from pyvc.contracts import Const, Int, OneOf, contract
from pyvc.sym import And, Iff, Implies, Not, Or, trunc_div
from specs import cal_abs as CA
from specs import views as V

from .c01_generic import ld_dse, ld_valid_in
from .gens import AbsCalG, LocalDateG

FL = "pyoda_time.fields._fixed_length_date_period_field:_FixedLengthDatePeriodField."
YF = "pyoda_time.fields._years_period_field:_YearsPeriodField."
MF = "pyoda_time.fields._months_period_field:_MonthsPeriodField."
LD = "pyoda_time._local_date:LocalDate."
RANGE = (OverflowError, ValueError)


def _field(name):
    def get():
        from pyoda_time.fields._date_period_fields import _DatePeriodFields

        return getattr(_DatePeriodFields, name)

    return get


def in_range(cal, n):
    return And(n >= CA.soy(cal.cid, cal.min_year), n <= CA.soy(cal.cid, cal.max_year + 1) - 1)


for _fname, _unit in (("_days_field", 1), ("_weeks_field", 7)):

    def _mk(fname=_fname, unit=_unit):
        @contract(FL + "add", "C09", name=f"_FixedLengthDatePeriodField({unit}).add moves exactly {unit}*n days, or raises when the range is left")
        def _(c):
            c.ghost("cal", AbsCalG()).arg("self", Const(_field(fname))).arg("local_date", LocalDateG()).arg("value", Int())
            target = lambda a: ld_dse(a, a.local_date) + a.value * unit  # noqa: E731
            c.returns(lambda a, r: And(ld_valid_in(a.cal, r), ld_dse(a, r) == target(a)), when=lambda a: in_range(a.cal, target(a)))
            c.raises(*RANGE, when=lambda a: Not(in_range(a.cal, target(a))))
            c.timeout_s = 60

        @contract(FL + "units_between", "C09", name=f"_FixedLengthDatePeriodField({unit}).units_between is the truncated day difference")
        def _(c):
            c.ghost("cal", AbsCalG()).arg("self", Const(_field(fname))).arg("start", LocalDateG()).arg("end", LocalDateG())
            c.returns(lambda a, r: r == trunc_div(ld_dse(a, a.end) - ld_dse(a, a.start), unit))

    _mk()


for _n, _unit in (("plus_days", 1), ("plus_weeks", 7)):

    def _mk2(n=_n, unit=_unit):
        @contract(LD + n, "C09", name=f"LocalDate.{n}")
        def _(c):
            c.ghost("cal", AbsCalG()).arg("self", LocalDateG()).arg("v", Int())
            target = lambda a: ld_dse(a, a.self) + a.v * unit  # noqa: E731
            c.returns(lambda a, r: And(ld_valid_in(a.cal, r), ld_dse(a, r) == target(a)), when=lambda a: in_range(a.cal, target(a)))
            c.raises(*RANGE, when=lambda a: Not(in_range(a.cal, target(a))))
            c.timeout_s = 60

    _mk2()


@contract(YF + "add", "C09", name="_YearsPeriodField.add lands in the year that many years away (valid date), or raises when the range is left")
def _(c):
    c.ghost("cal", AbsCalG()).arg("self", Const(_field("_years_field"))).arg("local_date", LocalDateG()).arg("value", Int())
    ty = lambda a: V.ld_y(a.local_date) + a.value  # noqa: E731
    ok = lambda a: And(ty(a) >= a.cal.min_year, ty(a) <= a.cal.max_year)  # noqa: E731
    c.returns(lambda a, r: And(ld_valid_in(a.cal, r), V.ld_y(r) == ty(a)), when=ok)
    c.raises(*RANGE, when=lambda a: Not(ok(a)))


@contract(MF + "add", "C09", name="_MonthsPeriodField.add returns a valid date of the same calendar or raises OverflowError")
def _(c):
    c.ghost("cal", AbsCalG()).arg("self", Const(_field("_months_field"))).arg("local_date", LocalDateG()).arg("value", Int())
    c.returns(lambda a, r: ld_valid_in(a.cal, r))
    c.raises(OverflowError)
