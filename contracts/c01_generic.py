"""C01 layers C/E: the generic base-class bodies and CalendarSystem/LocalDate, verified once against the calendar
interface contract CAL (symbolic calendar, specs/cal_abs.py)."""

from __future__ import annotations

from pyvc.contracts import Int, contract
from pyvc.sym import And, Iff, Implies, Not, Or
from specs import cal_abs as CA
from specs import views as V

from .gens import AbsCalG, LocalDateG, YmdG

BASE = "pyoda_time.calendars._year_month_day_calculator:_YearMonthDayCalculator."
CS = "pyoda_time._calendar_system:CalendarSystem."
LD = "pyoda_time._local_date:LocalDate"
Q = "pyoda_time.calendars._year_month_day_calculator:_YearMonthDayCalculator."


def calc_self(c):
    """receiver = the abstract calculator of ghost calendar `cal`"""
    from pyvc.contracts import Gen

    class G(Gen):
        def make(self, name, b):
            return b.named["cal"].calc

        def realize(self, v, ev, ctx):
            return ctx["cals"]["cal"].calc

    return G()


def system_self():
    from pyvc.contracts import Gen

    class G(Gen):
        def make(self, name, b):
            return b.named["cal"].system

        def realize(self, v, ev, ctx):
            return ctx["cals"]["cal"].system

    return G()


@contract(BASE + "_get_days_since_epoch", "C01")
def _(c):
    c.ghost("cal", AbsCalG()).arg("self", calc_self(c)).arg("ymd", YmdG())
    c.returns(lambda a, r: r == CA.dse(a.cal.cid, V.ymd_y(a.ymd), V.ymd_m(a.ymd), V.ymd_d(a.ymd)))


@contract(BASE + "_get_day_of_year", "C01")
def _(c):
    c.ghost("cal", AbsCalG()).arg("self", calc_self(c)).arg("ymd", YmdG())
    c.returns(lambda a, r: And(r == CA.dsm(a.cal.cid, V.ymd_y(a.ymd), V.ymd_m(a.ymd)) + V.ymd_d(a.ymd), r >= 1, r <= CA.diy(a.cal.cid, V.ymd_y(a.ymd))))


@contract(BASE + "_validate_year_month_day", "C01")
def _(c):
    c.ghost("cal", AbsCalG()).arg("self", calc_self(c)).arg("year", Int()).arg("month", Int()).arg("day", Int())
    ok = lambda a: a.cal.valid_date(a.year, a.month, a.day)  # noqa: E731
    c.returns(lambda a, r: True, when=ok)
    c.raises(ValueError, when=lambda a: Not(ok(a)))


@contract(BASE + "_get_year", "C01", name="_YearMonthDayCalculator._get_year (loop invariants; first guess in range is a per-class obligation)")
def _(c):
    c.ghost("cal", AbsCalG()).arg("self", calc_self(c)).arg("days", Int())
    c.ghost("Y", Int())
    cid = lambda a: a.cal.cid  # noqa: E731
    # `days` lies in year Y of the calendar range (the year intervals tile [minDays, maxDays] by AX-DIY/AX-MONO)
    c.requires(lambda a: And(a.Y >= a.cal.min_year, a.Y <= a.cal.max_year, CA.soy(cid(a), a.Y) <= a.days, a.days < CA.soy(cid(a), a.Y + 1)))

    def setup(eng):
        # The first guess is *some* year in [minY-1, maxY+1]: that is the per-class obligation
        # "[<calendar>] first-guess year of _get_year lies in [minY-1, maxY+1]" (contracts/c01_calendars.py).
        from pyoda_time.utility._csharp_compatibility import _towards_zero_division
        from pyvc import sym

        def tzd(eng, x, y):
            ac = eng.abs_cals[0]
            r = sym.fresh_int("estimate")
            eng.assume(And(r + 1 >= ac.min_year - 1, r + 1 <= ac.max_year + 1))
            return r

        eng.func_models[_towards_zero_division] = tzd

        eng.inline_get_year = True

    c.setup = setup
    fn = "pyoda_time.calendars._year_month_day_calculator:_YearMonthDayCalculator._get_year"
    rng = lambda v, a: And(v.candidate >= a.cal.min_year - 1, v.candidate <= a.cal.max_year + 1)  # noqa: E731
    dd = lambda v, a: v.days_from_candidate_start_to_target == a.days - CA.soy(cid(a), v.candidate)  # noqa: E731
    c.loop(fn, 0, lambda v, a: And(dd(v, a), rng(v, a), v.candidate >= a.Y), variant=lambda v, a: v.candidate - a.Y)
    c.loop(
        fn,
        1,
        lambda v, a: And(dd(v, a), rng(v, a), v.candidate <= a.Y, v.days_from_candidate_start_to_target >= 0, v.candidate_length == CA.diy(cid(a), v.candidate)),
        variant=lambda v, a: a.Y - v.candidate,
    )
    c.returns(lambda a, r: And(r[0] == a.Y, r[1] == a.days - CA.soy(cid(a), a.Y)))


@contract(BASE + "_get_year_month_day_from_days_since_epoch", "C01", name="_YearMonthDayCalculator: day number -> (y, m, d) is the inverse of DSE")
def _(c):
    c.ghost("cal", AbsCalG()).arg("self", calc_self(c)).arg("days", Int())
    c.ghost("Y", Int())
    cid = lambda a: a.cal.cid  # noqa: E731
    c.requires(lambda a: And(a.Y >= a.cal.min_year, a.Y <= a.cal.max_year, CA.soy(cid(a), a.Y) <= a.days, a.days < CA.soy(cid(a), a.Y + 1)))

    def setup(eng):
        # modular: _get_year by its contract (proved above)
        from pyoda_time.calendars._year_month_day_calculator import _YearMonthDayCalculator as B

        def get_year(eng, self_, days):
            a = eng.contract_ns
            return (a.Y, days - CA.soy(a.cal.cid, a.Y))

        eng.func_models[vars(B)["_get_year"]] = get_year

    c.setup = setup
    c.returns(lambda a, r: And(a.cal.valid_date(V.ymd_y(r), V.ymd_m(r), V.ymd_d(r)), CA.dse(cid(a), V.ymd_y(r), V.ymd_m(r), V.ymd_d(r)) == a.days))


# ------------------------------------------------------------------------------------------ CalendarSystem
def in_days(a):
    return And(a.days >= CA.soy(a.cal.cid, a.cal.min_year), a.days <= CA.soy(a.cal.cid, a.cal.max_year + 1) - 1)


@contract(CS + "_get_year_month_day_calendar_from_days_since_epoch", "C01")
def _(c):
    c.ghost("cal", AbsCalG()).arg("self", system_self()).arg("days", Int())
    c.returns(
        lambda a, r: And(a.cal.valid_date(V.ymd_y(r), V.ymd_m(r), V.ymd_d(r)), CA.dse(a.cal.cid, V.ymd_y(r), V.ymd_m(r), V.ymd_d(r)) == a.days, V.fld(r, "$o") == a.cal.ordinal),
        when=in_days,
    )
    c.raises(ValueError, when=lambda a: Not(in_days(a)))


@contract(CS + "_get_days_since_epoch", "C01")
def _(c):
    c.ghost("cal", AbsCalG()).arg("self", system_self()).arg("ymd", YmdG())
    c.returns(lambda a, r: And(r == CA.dse(a.cal.cid, V.ymd_y(a.ymd), V.ymd_m(a.ymd), V.ymd_d(a.ymd)), r >= CA.soy(a.cal.cid, a.cal.min_year), r <= CA.soy(a.cal.cid, a.cal.max_year + 1) - 1))


@contract(CS + "_get_day_of_week", "C01", "C02", "C16")
def _(c):
    c.ghost("cal", AbsCalG()).arg("self", system_self()).arg("ymd", YmdG())
    # 1970-01-01 (day 0) is a Thursday (4): weekday = ((n + 3) mod 7) + 1
    c.returns(lambda a, r: r == (CA.dse(a.cal.cid, V.ymd_y(a.ymd), V.ymd_m(a.ymd), V.ymd_d(a.ymd)) + 3) % 7 + 1)


for _n, _f in (("get_days_in_year", CA.diy), ("get_months_in_year", CA.miy)):

    def _mk(n=_n, f=_f):
        @contract(CS + n, "C01", name=f"CalendarSystem.{n}")
        def _(c):
            c.ghost("cal", AbsCalG()).arg("self", system_self()).arg("year", Int())
            ok = lambda a: And(a.year >= a.cal.min_year, a.year <= a.cal.max_year)  # noqa: E731
            c.returns(lambda a, r: r == f(a.cal.cid, a.year), when=ok)
            c.raises(ValueError, when=lambda a: Not(ok(a)))

    _mk()


@contract(CS + "is_leap_year", "C01")
def _(c):
    c.ghost("cal", AbsCalG()).arg("self", system_self()).arg("year", Int())
    ok = lambda a: And(a.year >= a.cal.min_year, a.year <= a.cal.max_year)  # noqa: E731
    c.returns(lambda a, r: Iff(r, CA.leap(a.cal.cid, a.year)), when=ok)
    c.raises(ValueError, when=lambda a: Not(ok(a)))


@contract(CS + "get_days_in_month", "C01")
def _(c):
    c.ghost("cal", AbsCalG()).arg("self", system_self()).arg("year", Int()).arg("month", Int())
    ok = lambda a: And(a.year >= a.cal.min_year, a.year <= a.cal.max_year, a.month >= 1, a.month <= CA.miy(a.cal.cid, a.year))  # noqa: E731
    c.returns(lambda a, r: r == CA.dim(a.cal.cid, a.year, a.month), when=ok)
    c.raises(ValueError, when=lambda a: Not(ok(a)))


@contract(CS + "_compare", "C01", "C12")
def _(c):
    c.ghost("cal", AbsCalG()).arg("self", system_self()).arg("lhs", YmdG()).arg("rhs", YmdG())
    d = lambda a, o: CA.dse(a.cal.cid, V.ymd_y(o), V.ymd_m(o), V.ymd_d(o))  # noqa: E731
    c.returns(lambda a, r: V.sign_agrees(r, d(a, a.lhs) - d(a, a.rhs)))


# ------------------------------------------------------------------------------------------ LocalDate
def ld_dse(a, d, cal=None):
    cal = cal or a.cal
    return CA.dse(cal.cid, V.ld_y(d), V.ld_m(d), V.ld_d(d))


def ld_valid_in(cal, r):
    return And(cal.valid_date(V.ld_y(r), V.ld_m(r), V.ld_d(r)), V.ld_ord(r) == cal.ordinal)


@contract(LD, "C01", name="LocalDate(year, month, day, calendar) accepts exactly the valid dates")
def _(c):
    c.ghost("cal", AbsCalG()).arg("year", Int()).arg("month", Int()).arg("day", Int()).arg("calendar", system_self())
    ok = lambda a: a.cal.valid_date(a.year, a.month, a.day)  # noqa: E731
    c.returns(lambda a, r: And(V.ld_y(r) == a.year, V.ld_m(r) == a.month, V.ld_d(r) == a.day, V.ld_ord(r) == a.cal.ordinal), when=ok)
    c.raises(ValueError, when=lambda a: Not(ok(a)))


@contract(LD + "._ctor", "C01", name="LocalDate._ctor(days_since_epoch, calendar): day number -> date, rejecting days outside the range")
def _(c):
    c.ghost("cal", AbsCalG()).kwarg("days_since_epoch", Int()).kwarg("calendar", system_self())
    inr = lambda a: And(a.days_since_epoch >= CA.soy(a.cal.cid, a.cal.min_year), a.days_since_epoch <= CA.soy(a.cal.cid, a.cal.max_year + 1) - 1)  # noqa: E731
    c.returns(lambda a, r: And(ld_valid_in(a.cal, r), ld_dse(a, r) == a.days_since_epoch), when=inr)
    c.raises(ValueError, when=lambda a: Not(inr(a)))


@contract(LD + "._days_since_epoch", "C01", name="LocalDate._days_since_epoch == DSE (so day -> date -> day is the identity)")
def _(c):
    c.ghost("cal", AbsCalG()).arg("self", LocalDateG())
    c.returns(lambda a, r: And(r == ld_dse(a, a.self), r >= CA.soy(a.cal.cid, a.cal.min_year), r <= CA.soy(a.cal.cid, a.cal.max_year + 1) - 1))


for _n, _f in (("year", V.ld_y), ("month", V.ld_m), ("day", V.ld_d)):

    def _mk2(n=_n, f=_f):
        @contract(f"{LD}.{n}", "C01", name=f"LocalDate.{n}")
        def _(c):
            c.ghost("cal", AbsCalG()).arg("self", LocalDateG())
            c.returns(lambda a, r: r == f(a.self))

    _mk2()


@contract(LD + ".day_of_year", "C01")
def _(c):
    c.ghost("cal", AbsCalG()).arg("self", LocalDateG())
    c.returns(lambda a, r: And(r == ld_dse(a, a.self) - CA.soy(a.cal.cid, V.ld_y(a.self)) + 1, r >= 1, r <= CA.diy(a.cal.cid, V.ld_y(a.self))))


@contract(LD + ".day_of_week", "C01", "C16")
def _(c):
    c.ghost("cal", AbsCalG()).arg("self", LocalDateG())
    c.returns(lambda a, r: r == (ld_dse(a, a.self) + 3) % 7 + 1)


@contract(LD + ".with_calendar", "C01", name="LocalDate.with_calendar keeps the day number (so converting there and back is the identity)")
def _(c):
    c.ghost("cal", AbsCalG("cal")).ghost("cal2", AbsCalG("cal2")).arg("self", LocalDateG("cal"))

    class G2:
        def make(self, name, b):
            return b.named["cal2"].system

        def concretize(self, v, ev, live):
            return v

    c.arg("calendar", G2())
    c.requires(lambda a: a.cal.ordinal != a.cal2.ordinal)
    n = lambda a: ld_dse(a, a.self)  # noqa: E731
    inr = lambda a: And(n(a) >= CA.soy(a.cal2.cid, a.cal2.min_year), n(a) <= CA.soy(a.cal2.cid, a.cal2.max_year + 1) - 1)  # noqa: E731
    c.returns(lambda a, r: And(ld_valid_in(a.cal2, r), ld_dse(a, r, a.cal2) == n(a)), when=inr)
    c.raises(ValueError, when=lambda a: Not(inr(a)))
