"""C17 / C07 / C08 -- the built-in ISO and round-trip patterns, executed symbolically.

The real format / parse actions that the stepped pattern builder produced for each built-in pattern text run on
symbolic VALUES (format), on the symbolic TEXT they produced (parse after format) and on texts of unknown characters
(parse of anything).  Per pattern:
  format     the text equals the ISO-8601 extended-format spec character by character (fixed widths, zero padding,
             no trailing zeros in truncating fractions, 'Z' on instants);
  round trip parse(format(v)) succeeds and returns v, for every value of the type;
  any text   parse returns a result object for every text of the given length (unknown characters), never an
             exception; a success carries a value whose formatting is the text again (delimited numeric fields)."""

from __future__ import annotations

from pyvc import symstr as SS
from pyvc.contracts import Const, Gen, Int, contract
from pyvc.sym import And, Implies, Not, Or, ite
from specs import cal_abs as CA
from specs import views as V

from .c01_generic import ld_dse, ld_valid_in
from .c07_primitives import TextG, digits, eq
from .gens import DurationG, InstantG, IsoStdCalG, LocalDateG, LocalDateTimeG, LocalTimeG, OffsetG

TXT = "pyoda_time.text."
H = "harness.text:"


def _setup(eng):
    from specs import cal_abs

    cal_abs.install(eng)
    eng.sym_strings = True
    eng.decimal_lemmas = True  # digits_of proves and then provides "Horner evaluation of the digits gives the number back"


def _pat(expr):
    def get():
        import pyoda_time.text as T

        return eval(expr, {"T": T})

    return get


def cat(*parts):
    out = ()
    for p in parts:
        out += SS.chars_of(p)
    return SS.mk(out)


# ------------------------------------------------------------------------------------------------- spec texts
def iso_date_text(y, m, d):
    """ISO-8601 extended calendar date YYYY-MM-DD (years 0..9999), fixed widths"""
    return cat(digits(y, 4), "-", digits(m, 2), "-", digits(d, 2))


def hms(n):
    return n // V.NPH, n // V.NPM % 60, n // V.NPS % 60, n % V.NPS


def iso_time_text(n):
    h, mi, s, _ = hms(n)
    return cat(digits(h, 2), ":", digits(mi, 2), ":", digits(s, 2))


def hms_lemma(n):
    """decomposition of the nanosecond of day into the fields the patterns print (proved, then used as a hypothesis)"""
    h, mi, s, f = hms(n)
    return And(n == h * V.NPH + mi * V.NPM + s * V.NPS + f, h >= 0, h <= 23, mi >= 0, mi <= 59, s >= 0, s <= 59, f >= 0, f < V.NPS)


def frac_sig_digits(f, k):
    """f (0 <= f < 10**9) has exactly k significant fraction digits (no trailing zeros after them)"""
    if k == 0:
        return f == 0
    return And(f % 10 ** (9 - k) == 0, f % 10 ** (10 - k) != 0) if k < 9 else (f % 10 != 0)


def year_ok(y):
    return And(y >= 0, y <= 9999)


def date_facts(a, d):
    return year_ok(V.ld_y(d))


def same_date(r, d):
    return And(V.ld_y(r) == V.ld_y(d), V.ld_m(r) == V.ld_m(d), V.ld_d(r) == V.ld_d(d), V.ld_ord(r) == 0)


# ------------------------------------------------------------------------------------------------- LocalDate
DATE_ISO = _pat("T.LocalDatePattern.iso")


@contract(TXT + "_local_date_pattern:LocalDatePattern.format", "C17", "C07", name="LocalDatePattern.iso.format: YYYY-MM-DD, zero padded fixed width, for every ISO date of years 0..9999")
def _(c):
    c.ghost("cal", IsoStdCalG("cal")).arg("self", Const(DATE_ISO)).arg("value", LocalDateG("cal"))
    c.setup = _setup
    c.requires(lambda a: date_facts(a, a.value))
    c.returns(lambda a, r: eq(r, iso_date_text(V.ld_y(a.value), V.ld_m(a.value), V.ld_d(a.value))))
    c.timeout_s = 60


@contract(TXT + "_local_date_pattern:LocalDatePattern.format", "C17", "C07", name="LocalDatePattern.iso.format: negative years are '-' and four digits")
def _(c):
    c.ghost("cal", IsoStdCalG("cal")).arg("self", Const(DATE_ISO)).arg("value", LocalDateG("cal"))
    c.setup = _setup
    c.requires(lambda a: V.ld_y(a.value) < 0)
    c.returns(lambda a, r: eq(r, cat("-", iso_date_text(-V.ld_y(a.value), V.ld_m(a.value), V.ld_d(a.value)))))
    c.timeout_s = 60


@contract(H + "pattern_rt", "C17", "C07", name="LocalDatePattern.iso: parse(format(d)) == d for every ISO date (all years -9998..9999)")
def _(c):
    c.ghost("cal", IsoStdCalG("cal")).arg("pattern", Const(DATE_ISO)).arg("value", LocalDateG("cal"))
    c.setup = _setup
    c.returns(lambda a, r: And(r[0], same_date(r[1], a.value)) if r[1] is not None else False)
    c.timeout_s = 120
    c.max_paths = 20000


# ------------------------------------------------------------------------------------------------- LocalTime
def _time_contracts(pname, expr, frac_mode):
    """frac_mode: None (seconds only), 'F9' (';FFFFFFFFF': '.' + significant digits, nothing when zero),
    'f9' (';fffffffff': always nine digits)"""
    P = _pat(expr)

    def spec(n, k=None):
        base = iso_time_text(n)
        f = n % V.NPS
        if frac_mode is None:
            return base
        if frac_mode == "f9":
            return cat(base, ".", digits(f, 9))
        return base if k == 0 else cat(base, ".", digits(f // 10 ** (9 - k), k))

    @contract(TXT + "_local_time_pattern:LocalTimePattern.format", "C17", "C07", name=f"LocalTimePattern.{pname}.format: HH:mm:ss{' and the fraction' if frac_mode else ''} exactly as ISO-8601 writes it, for every time of day")
    def _(c):
        c.arg("self", Const(P)).arg("value", LocalTimeG())
        c.setup = _setup
        c.timeout_s = 120
        c.vc_chunks = 6 if frac_mode == "F9" else 1
        c.lemma(lambda a: hms_lemma(V.lt_nanos(a.value)))
        n = lambda a: V.lt_nanos(a.value)  # noqa: E731
        if frac_mode == "F9":

            def case(k):
                c.returns(lambda a, r: eq(r, spec(n(a), k)), when=lambda a: frac_sig_digits(n(a) % V.NPS, k))

            for k in range(0, 10):
                case(k)
        else:
            c.returns(lambda a, r: eq(r, spec(n(a))))

    @contract(H + "pattern_rt", "C17", "C07", name=f"LocalTimePattern.{pname}: parse(format(t)) == t{'' if frac_mode else ' truncated to whole seconds'} for every time of day")
    def _(c):
        c.arg("pattern", Const(P)).arg("value", LocalTimeG())
        c.setup = _setup
        c.timeout_s = 180
        c.max_paths = 40000
        c.vc_chunks = 6 if frac_mode == "F9" else 1
        c.lemma(lambda a: hms_lemma(V.lt_nanos(a.value)))
        want = (lambda a: V.lt_nanos(a.value)) if frac_mode else (lambda a: V.lt_nanos(a.value) // V.NPS * V.NPS)
        c.returns(lambda a, r: And(r[0], V.lt_nanos(r[1]) == want(a)) if r[1] is not None else False)


_time_contracts("general_iso", "T.LocalTimePattern.general_iso", None)
_time_contracts("extended_iso", "T.LocalTimePattern.extended_iso", "F9")
_time_contracts("long_extended_iso", "T.LocalTimePattern.long_extended_iso", "f9")


# ------------------------------------------------------------------------------------------------- LocalDateTime
def _ldt_contracts(pname, expr, frac_mode, frac_digits=9):
    P = _pat(expr)

    def spec(a, k=None):
        d, t = V.ldt_date(a.value), V.ldt_time(a.value)
        n = V.lt_nanos(t)
        base = cat(iso_date_text(V.ld_y(d), V.ld_m(d), V.ld_d(d)), "T", iso_time_text(n))
        f = n % V.NPS
        if frac_mode is None:
            return base
        if frac_mode == "f":
            return cat(base, ".", digits(f // 10 ** (9 - frac_digits), frac_digits))
        return base if k == 0 else cat(base, ".", digits(f // 10 ** (9 - k), k))

    @contract(TXT + "_local_date_time_pattern:LocalDateTimePattern.format", "C17", "C07", name=f"LocalDateTimePattern.{pname}.format: YYYY-MM-DDTHH:mm:ss[.fraction] exactly, for every ISO date-time of years 0..9999")
    def _(c):
        c.ghost("cal", IsoStdCalG("cal")).arg("self", Const(P)).arg("value", LocalDateTimeG("cal"))
        c.setup = _setup
        c.timeout_s = 180
        c.vc_chunks = 10 if frac_mode == "F" else 1
        c.weight = 8 if frac_mode == "F" else 1
        c.requires(lambda a: date_facts(a, V.ldt_date(a.value)))
        c.lemma(lambda a: hms_lemma(V.lt_nanos(V.ldt_time(a.value))))
        if frac_mode == "F":

            def case(k):
                c.returns(lambda a, r: eq(r, spec(a, k)), when=lambda a: frac_sig_digits(V.lt_nanos(V.ldt_time(a.value)) % V.NPS, k))

            for k in range(0, 10):
                case(k)
        else:
            c.returns(lambda a, r: eq(r, spec(a)))

    unit = 1 if frac_mode == "F" else (V.NPS if frac_mode is None else 10 ** (9 - frac_digits))

    @contract(H + "pattern_rt", "C17", "C07", name=f"LocalDateTimePattern.{pname}: parse(format(x)) == x (to the pattern's resolution) for every ISO date-time")
    def _(c):
        c.ghost("cal", IsoStdCalG("cal")).arg("pattern", Const(P)).arg("value", LocalDateTimeG("cal"))
        c.setup = _setup
        c.timeout_s = 240
        c.max_paths = 60000
        c.vc_chunks = 12 if frac_mode == "F" else 2
        c.weight = 9 if frac_mode == "F" else 1
        c.lemma(lambda a: hms_lemma(V.lt_nanos(V.ldt_time(a.value))))
        c.returns(lambda a, r: And(r[0], same_date(V.ldt_date(r[1]), V.ldt_date(a.value)), V.lt_nanos(V.ldt_time(r[1])) == V.lt_nanos(V.ldt_time(a.value)) // unit * unit) if r[1] is not None else False)


_ldt_contracts("general_iso", "T.LocalDateTimePattern.general_iso", None)
_ldt_contracts("extended_iso", "T.LocalDateTimePattern.extended_iso", "F")
_ldt_contracts("bcl_round_trip", "T.LocalDateTimePattern.bcl_round_trip", "f", 7)
_ldt_contracts("full_roundtrip_without_calendar", "T.LocalDateTimePattern.full_roundtrip_without_calendar", "f", 9)


# ------------------------------------------------------------------------------------------------- Offset
OFF_G = _pat("T.OffsetPattern.general_invariant")
OFF_GZ = _pat("T.OffsetPattern.general_invariant_with_z")


def offset_text(sec, z):
    """+HH[:mm[:ss]] (shortest form), 'Z' for zero when z"""
    mag = ite(sec < 0, -sec, sec) if not isinstance(sec, int) else abs(sec)
    return mag


def _offset_contracts(pname, P, z):
    def case_when(a, neg, form):
        s = V.off_seconds(a.value)
        mag = -s if neg else s
        sign = (s < 0) if neg else (s >= 0)
        if form == "h":
            shape = And(mag % 3600 == 0)
        elif form == "hm":
            shape = And(mag % 3600 != 0, mag % 60 == 0)
        else:
            shape = mag % 60 != 0
        nz = (s != 0) if z else True
        return And(sign, shape, nz)

    def text(a, neg, form):
        s = V.off_seconds(a.value)
        mag = -s if neg else s
        t = cat("-" if neg else "+", digits(mag // 3600, 2))
        if form in ("hm", "hms"):
            t = cat(t, ":", digits(mag // 60 % 60, 2))
        if form == "hms":
            t = cat(t, ":", digits(mag % 60, 2))
        return t

    @contract(TXT + "_offset_pattern:OffsetPattern.format", "C17", "C07", name=f"OffsetPattern.{pname}.format: sign, HH and the shortest of [:mm[:ss]]" + (", 'Z' for zero" if z else ""))
    def _(c):
        c.arg("self", Const(P)).arg("value", OffsetG())
        c.setup = _setup
        c.timeout_s = 120

        def case(neg, form):
            c.returns(lambda a, r: eq(r, text(a, neg, form)), when=lambda a: case_when(a, neg, form))

        for neg in (False, True):
            for form in ("h", "hm", "hms"):
                case(neg, form)
        if z:
            c.returns(lambda a, r: eq(r, "Z"), when=lambda a: V.off_seconds(a.value) == 0)

    @contract(H + "pattern_rt", "C17", "C07", name=f"OffsetPattern.{pname}: parse(format(o)) == o for every offset within +-18 h")
    def _(c):
        c.arg("pattern", Const(P)).arg("value", OffsetG())
        c.setup = _setup
        c.timeout_s = 180
        c.max_paths = 40000
        c.returns(lambda a, r: And(r[0], V.off_seconds(r[1]) == V.off_seconds(a.value)) if r[1] is not None else False)


_offset_contracts("general_invariant", OFF_G, False)
_offset_contracts("general_invariant_with_z", OFF_GZ, True)


# ------------------------------------------------------------------------------------------------- any text (C08)
def _neg_zero(text):
    """'-' followed by digits that are all zero (separators aside): the sign of zero cannot be kept by the value"""
    cs = SS.chars_of(text)
    if not cs:
        return False
    first = cs[0]
    minus = (first == "-") if isinstance(first, str) else (first == 45)
    zeros = []
    for i, ch in enumerate(cs[1:], start=1):
        if i % 3 == 0:
            continue  # separator position
        zeros.append((ch == "0") if isinstance(ch, str) else (ch == 48))
    return And(minus, *zeros)


def _neg_zero_year(text):
    cs = SS.chars_of(text)
    if len(cs) < 5:
        return False
    first = cs[0]
    minus = (first == "-") if isinstance(first, str) else (first == 45)
    return And(minus, *[(ch == "0") if isinstance(ch, str) else (ch == 48) for ch in cs[1:5]])


def _valid_value(kind, a, v):
    if kind == "date":
        return ld_valid_in(a.cal, v)
    if kind == "time":
        return V.inv_local_time(v)
    if kind == "offset":
        return V.inv_offset(v)
    raise ValueError(kind)


def _any_text(pname, P, kind, lengths, quirk=None, reformat=True):
    for n in lengths:

        def mk(n=n):
            @contract(H + "pattern_parse", "C08", name=f"{pname}.parse on ANY text of {n} characters: a result object, never an exception; a success carries a valid value")
            def _(c):
                c.ghost("cal", IsoStdCalG("cal")).arg("pattern", Const(P)).arg("text", TextG(n))
                c.setup = _setup
                c.timeout_s = 240
                c.max_paths = 200000
                c.returns(lambda a, r: (And(r[0], _valid_value(kind, a, r[1])) if r[1] is not None else Not(r[0])))

            if not reformat:
                return

            @contract(H + "pattern_parse", "C07", name=f"{pname}: a successfully parsed text of {n} characters re-formats to itself (delimited numeric fields)")
            def _(c):
                c.ghost("cal", IsoStdCalG("cal")).arg("pattern", Const(P)).arg("text", TextG(n))
                c.setup = _setup
                c.timeout_s = 240
                c.max_paths = 200000
                back = lambda a, r: Implies(r[0], eq(r[2], a.text)) if r[2] is not None else True  # noqa: E731
                if quirk is None:
                    c.returns(back, label="reformat")
                else:
                    c.returns(back, when=lambda a: Not(quirk(a.text)), label="reformat")
                    c.returns(back, when=lambda a: quirk(a.text), label="reformat-negative-zero")

        mk()


_any_text("LocalDatePattern.iso", DATE_ISO, "date", (0, 1, 9, 10, 11), quirk=_neg_zero_year)
_any_text("LocalTimePattern.general_iso", _pat("T.LocalTimePattern.general_iso"), "time", (0, 7, 8, 9))
_any_text("OffsetPattern.general_invariant", OFF_G, "offset", (0, 1, 2, 3, 6, 9), reformat=False)
_any_text("OffsetPattern('+HH:mm')", _pat("T.OffsetPattern.create_with_invariant_culture('+HH:mm')"), "offset", (0, 5, 6, 7), quirk=_neg_zero)

_ = (DurationG, InstantG, Int, Gen, Or, ld_dse, ld_valid_in, offset_text)


# ------------------------------------------------------------------------------------------------- Instant
from .c07_primitives import digit_val, is_digit_at  # noqa: E402


def num(text, i, j):
    v = 0
    for k in range(i, j):
        v = v * 10 + digit_val(text, k)
    return v


def shape(text, pattern):
    """pattern: 'd' = ASCII digit, any other character = itself"""
    cs = SS.chars_of(text)
    if len(cs) != len(pattern):
        return False
    conj = []
    for i, p in enumerate(pattern):
        if p == "d":
            conj.append(is_digit_at(text, i))
        else:
            c = cs[i]
            conj.append((c == p) if isinstance(c, str) else (c == ord(p)))
    return And(*conj)


def _instant_contracts(pname, expr, frac):
    P = _pat(expr)
    base_shape = "dddd-dd-ddTdd:dd:dd"

    @contract(TXT + "_instant_pattern:InstantPattern.format", "C17", "C07", name=f"InstantPattern.{pname}.format: YYYY-MM-DDTHH:mm:ss{'[.fraction]' if frac else ''}Z of the UTC date and time of the instant (years 0..9999)")
    def _(c):
        c.ghost("cal", IsoStdCalG("cal")).arg("self", Const(P)).arg("value", InstantG())
        c.setup = _setup
        c.timeout_s = 240
        c.vc_chunks = 10 if frac else 2
        c.weight = 5
        if frac:
            c.tiers = ("thorough",)
        ns = lambda a: V.inst_ns(a.value)  # noqa: E731
        c.requires(lambda a: And(ns(a) // V.NPD >= CA.soy(a.cal.cid, 0), ns(a) // V.NPD < CA.soy(a.cal.cid, 10000)))
        c.lemma(lambda a: hms_lemma(ns(a) % V.NPD))

        def post(k):
            def f(a, r):
                n = len(SS.chars_of(r))
                want_shape = base_shape + ("" if k == 0 else "." + "d" * k) + "Z"
                if n != len(want_shape):
                    return False
                y, m, d = num(r, 0, 4), num(r, 5, 7), num(r, 8, 10)
                tod = ns(a) % V.NPD
                h, mi, s, f_ = hms(tod)
                conj = [shape(r, want_shape), a.cal.valid_date(y, m, d), CA.dse(a.cal.cid, y, m, d) == ns(a) // V.NPD, num(r, 11, 13) == h, num(r, 14, 16) == mi, num(r, 17, 19) == s]
                if k:
                    conj.append(num(r, 20, 20 + k) == f_ // 10 ** (9 - k))
                return And(*conj)

            return f

        if frac:
            for k in range(0, 10):
                c.returns(post(k), when=(lambda k: lambda a: frac_sig_digits(ns(a) % V.NPS, k))(k))
        else:
            c.returns(post(0))

    @contract(H + "pattern_rt", "C17", "C07", name=f"InstantPattern.{pname}: parse(format(i)) == i{'' if frac else ' truncated to whole seconds'} for every instant of years 0..9999")
    def _(c):
        c.ghost("cal", IsoStdCalG("cal")).arg("pattern", Const(P)).arg("value", InstantG())
        c.setup = _setup
        c.timeout_s = 300
        c.max_paths = 80000
        c.vc_chunks = 12 if frac else 3
        c.weight = 5
        if frac:
            c.tiers = ("thorough",)
        ns = lambda a: V.inst_ns(a.value)  # noqa: E731
        c.requires(lambda a: And(ns(a) // V.NPD >= CA.soy(a.cal.cid, 0), ns(a) // V.NPD < CA.soy(a.cal.cid, 10000)))
        c.lemma(lambda a: hms_lemma(ns(a) % V.NPD))
        unit = 1 if frac else V.NPS
        c.returns(lambda a, r: And(r[0], V.inst_ns(r[1]) == ns(a) // unit * unit) if r[1] is not None else False)


_instant_contracts("general", "T.InstantPattern.general", False)
_instant_contracts("extended_iso", "T.InstantPattern.extended_iso", True)


# ------------------------------------------------------------------------------------------------- definitions of the built-in pattern texts
DOCUMENTED_TEXTS = {
    "T.LocalDatePattern.iso": "uuuu'-'MM'-'dd",
    "T.LocalTimePattern.extended_iso": "HH':'mm':'ss;FFFFFFFFF",
    "T.LocalTimePattern.long_extended_iso": "HH':'mm':'ss;fffffffff",
    "T.LocalTimePattern.general_iso": "HH':'mm':'ss",
    "T.LocalDateTimePattern.general_iso": "uuuu'-'MM'-'dd'T'HH':'mm':'ss",
    "T.LocalDateTimePattern.extended_iso": "uuuu'-'MM'-'dd'T'HH':'mm':'ss;FFFFFFFFF",
    "T.LocalDateTimePattern.bcl_round_trip": "uuuu'-'MM'-'dd'T'HH':'mm':'ss'.'fffffff",
    "T.LocalDateTimePattern.full_roundtrip_without_calendar": "uuuu'-'MM'-'dd'T'HH':'mm':'ss'.'fffffffff",
    "T.LocalDateTimePattern.full_roundtrip": "uuuu'-'MM'-'dd'T'HH':'mm':'ss'.'fffffffff '('c')'",
    "T.InstantPattern.general": "uuuu-MM-ddTHH:mm:ss'Z'",
    "T.InstantPattern.extended_iso": "uuuu'-'MM'-'dd'T'HH':'mm':'ss;FFFFFFFFF'Z'",
    "T.OffsetPattern.general_invariant": "g",
    "T.OffsetPattern.general_invariant_with_z": "G",
}


def _pattern_text(p):
    # LocalDateTimePattern keeps the text in a private field only
    return p.pattern_text if hasattr(p, "pattern_text") else p._LocalDateTimePattern__pattern_text


@contract("contracts.c17_iso:_pattern_text", "C17", name="the built-in ISO / round-trip patterns are defined with the documented pattern texts")
def _(c):
    from pyvc.contracts import Int as _I

    c.arg("p", _I())
    c.ground = lambda: [{"p": _pat(k)(), "name": k} for k in DOCUMENTED_TEXTS]
    c.ground_interp_stride = 10**9
    c.returns(lambda a, r: r == DOCUMENTED_TEXTS[a.name])


# quick-tier slice of the instant pattern with fractions (the full case split runs in the thorough tier)
@contract(TXT + "_instant_pattern:InstantPattern.format", "C17", "C07", name="InstantPattern.extended_iso.format for instants with nine significant fraction digits: YYYY-MM-DDTHH:mm:ss.fffffffffZ (quick-tier slice)")
def _(c):
    P = _pat("T.InstantPattern.extended_iso")
    c.ghost("cal", IsoStdCalG("cal")).arg("self", Const(P)).arg("value", InstantG())
    c.setup = _setup
    c.timeout_s = 240
    c.vc_chunks = 3
    c.weight = 6
    c.tiers = ("quick",)
    ns = lambda a: V.inst_ns(a.value)  # noqa: E731
    c.requires(lambda a: And(ns(a) // V.NPD >= CA.soy(a.cal.cid, 0), ns(a) // V.NPD < CA.soy(a.cal.cid, 10000), ns(a) % 10 != 0))
    c.lemma(lambda a: hms_lemma(ns(a) % V.NPD))

    def post(a, r):
        want_shape = "dddd-dd-ddTdd:dd:dd.dddddddddZ"
        if len(SS.chars_of(r)) != len(want_shape):
            return False
        y, m, d = num(r, 0, 4), num(r, 5, 7), num(r, 8, 10)
        h, mi, s, f_ = hms(ns(a) % V.NPD)
        return And(shape(r, want_shape), a.cal.valid_date(y, m, d), CA.dse(a.cal.cid, y, m, d) == ns(a) // V.NPD, num(r, 11, 13) == h, num(r, 14, 16) == mi, num(r, 17, 19) == s, num(r, 20, 29) == f_)

    c.returns(post)
