"""C04 -- _ZoneRecurrence._next / _previous_or_same: stepping of a yearly recurrence, modularly.

The yearly rule is used through its contract only: OCC(y), the local instant of the rule's occurrence in year y, with the
interface fact YEAR-LOCAL (the occurrence of year y lies in year y -- true of every rule in the tz database: no rule
is pushed across New Year by its weekday adjustment; a per-rule ground obligation below), which makes OCC strictly
increasing.  For every recurrence whose years lie in -9997..9998 (or are unbounded) and every instant of those years:
  _next(t)             is the occurrence of the LEAST year in [from, to] whose transition instant is  > t,
  _previous_or_same(t) is the occurrence of the GREATEST year in [from, to] whose transition instant is <= t,
stated with an arbitrary ghost year g: the result lies on the right side of t, no candidate year beats it, and it IS the
occurrence of the year its local time falls in, which is a year of the recurrence.  None / the end-of-time markers
appear exactly when there is no such year."""

from __future__ import annotations

import z3

from pyvc import sym
from pyvc.contracts import Const, Gen, Int, OneOf, contract
from pyvc.sym import And, Implies, Not, Or, SInt, ite
from specs import cal_abs as CA
from specs import views as V

from .gens import InstantG, IsoStdCalG, OffsetG

ZR = "pyoda_time.time_zones._zone_recurrence:_ZoneRecurrence."
I = z3.IntSort()
OCC = z3.Function("RULE_OCCURRENCE_NS", I, I)  # local nanoseconds of the rule's occurrence in year y
INT_MIN, INT_MAX = -(2**31), 2**31 - 1
YLO, YHI = -9997, 9998  # the last year, 9999, is where occurrences may fall off the end of time: it is reached from 9998
R_ = "_ZoneRecurrence__"


def occ(y):
    return sym.mk_int(OCC(SInt.lift(y)))


def year_local(cal, y):
    return And(occ(y) >= CA.soy(cal.cid, y) * V.NPD, occ(y) < CA.soy(cal.cid, y + 1) * V.NPD)


class RecG(Gen):
    def make(self, name, b):
        from pyvc.values import SObj
        from pyoda_time import Duration
        from pyoda_time._local_instant import _LocalInstant
        from pyoda_time.time_zones._transition_mode import _TransitionMode
        from pyoda_time.time_zones._zone_recurrence import _ZoneRecurrence
        from pyoda_time.time_zones._zone_year_offset import _ZoneYearOffset

        cal = b.named["cal"]
        mode = b.pick(name + ".mode", [_TransitionMode.UTC, _TransitionMode.WALL, _TransitionMode.STANDARD])
        fin_from = b.pick(name + ".from_finite", [False, True])
        fin_to = b.pick(name + ".to_finite", [False, True])
        fy = sym.var_int(name + ".from_year") if fin_from else INT_MIN
        ty = sym.var_int(name + ".to_year") if fin_to else INT_MAX
        if fin_from:
            b.assume(And(fy >= YLO, fy <= YHI))
            b.assume(year_local(cal, fy))
        if fin_to:
            b.assume(And(ty >= YLO, ty <= YHI))
            b.assume(year_local(cal, ty))
        if fin_from and fin_to:
            b.assume(fy <= ty)

        def li(ns):
            return SObj(_LocalInstant, {"_LocalInstant__duration": SObj(Duration, {"_Duration__days": ns // V.NPD, "_Duration__nano_of_day": ns % V.NPD}, owner=-1)}, owner=-1)

        def marker(days):
            return SObj(_LocalInstant, {"_LocalInstant__duration": SObj(Duration, {"_Duration__days": days, "_Duration__nano_of_day": 0}, owner=-1)}, owner=-1)

        yo = SObj(_ZoneYearOffset, {"_ZoneYearOffset__transition_mode": mode}, owner=-1, tag=name + ".rule")
        return SObj(
            _ZoneRecurrence,
            {
                R_ + "name": "DST",
                R_ + "savings": OffsetG().make(name + ".savings", b),
                R_ + "year_offset": yo,
                R_ + "from_year": fy,
                R_ + "to_year": ty,
                # class invariant (constructor): cached bounds are the occurrences of the first / last year, or the markers
                R_ + "min_local_instant": li(occ(fy)) if fin_from else marker(V.DUR_MIN_DAYS),
                R_ + "max_local_instant": li(occ(ty)) if fin_to else marker(V.DUR_MAX_DAYS),
            },
            owner=-1,
            tag=name,
        )


def _setup(eng):
    from pyvc.values import SObj
    from pyoda_time import Duration
    from pyoda_time._local_instant import _LocalInstant
    from pyoda_time.time_zones._zone_year_offset import _ZoneYearOffset
    from specs import cal_abs

    cal_abs.install(eng)

    def m_occ(eng, self_, year):
        cal = eng.contract_ns.cal
        # callee precondition of the rule's contract: a Gregorian year; its postcondition: OCC(year), YEAR-LOCAL
        eng.oblige(And(year >= -9998, year <= 9999), "pre._get_occurrence_for_year: year within the Gregorian range", kind="callee-pre", site=eng.cur_site())
        cal.touch_year(eng, year)
        cal.touch_year(eng, year + 1)
        eng.assume(year_local(cal, year))
        ns = occ(year)
        return SObj(_LocalInstant, {"_LocalInstant__duration": SObj(Duration, {"_Duration__days": sym.floordiv(ns, V.NPD), "_Duration__nano_of_day": sym.mod(ns, V.NPD)}, owner=eng.active_runs[-1])}, owner=eng.active_runs[-1])

    eng.func_models[vars(_ZoneYearOffset)["_get_occurrence_for_year"]] = m_occ


def rule_offset_s(a):
    from pyoda_time.time_zones._transition_mode import _TransitionMode

    mode = V.fld(V.fld(a.self, R_ + "year_offset"), "_ZoneYearOffset__transition_mode")
    so, ps = V.off_seconds(a.standard_offset), V.off_seconds(a.previous_savings)
    return {_TransitionMode.UTC: 0, _TransitionMode.WALL: so + ps, _TransitionMode.STANDARD: so}[mode]


def _common(c):
    c.ghost("cal", IsoStdCalG("cal")).arg("self", RecG()).arg("instant", InstantG()).arg("standard_offset", OffsetG()).arg("previous_savings", OffsetG()).ghost("g", Int(-9998, 9999))
    c.setup = _setup
    c.crosscheck = 0
    c.replayable = False
    c.timeout_s = 120
    c.max_paths = 20000
    c.vc_chunks = 8
    c.weight = 6
    t = lambda a: V.inst_ns(a.instant)  # noqa: E731
    # the instant lies in the years for which the statement is made (no clamping at the ends of time)
    c.requires(lambda a: And(t(a) >= CA.soy(a.cal.cid, YLO) * V.NPD, t(a) < CA.soy(a.cal.cid, YHI + 1) * V.NPD))
    # the ghost year's occurrence obeys the rule's contract too
    c.requires(lambda a: year_local(a.cal, a.g))
    # offsets that can be added (the library's Offset arithmetic refuses sums beyond +-18 h)
    so, ps, sv = (lambda a: V.off_seconds(a.standard_offset)), (lambda a: V.off_seconds(a.previous_savings)), (lambda a: V.off_seconds(V.fld(a.self, R_ + "savings")))
    c.requires(lambda a: And(so(a) + ps(a) >= -64800, so(a) + ps(a) <= 64800, so(a) + sv(a) >= -64800, so(a) + sv(a) <= 64800))
    return t, so, sv


def in_rec(a, y):
    fy, ty = V.fld(a.self, R_ + "from_year"), V.fld(a.self, R_ + "to_year")
    return And(y >= fy, y <= ty)


def trans_ns(a, y):
    """the transition instant of year y: the occurrence shifted from the rule's frame of reference to UTC"""
    return occ(y) - rule_offset_s(a) * V.NPS


def _year_of_is(a, local_ns, g):
    return And(local_ns >= CA.soy(a.cal.cid, g) * V.NPD, local_ns < CA.soy(a.cal.cid, g + 1) * V.NPD)


@contract(ZR + "_next", "C04", name="_ZoneRecurrence._next: the occurrence of the least year of the recurrence whose transition is strictly after the instant (None / end-of-time marker when there is none)")
def _(c):
    t, so, sv = _common(c)

    def post(a, r):
        ty = V.fld(a.self, R_ + "to_year")
        cand = And(in_rec(a, a.g), trans_ns(a, a.g) > t(a))  # the ghost year is a candidate
        if r is None:
            return And(ty != INT_MAX, Not(cand))
        ins = V.fld(r, "_Transition__instant")
        off = V.fld(r, "_Transition__new_offset")
        n = V.inst_ns(ins)
        local = n + rule_offset_s(a) * V.NPS
        finite = V.inv_instant_valid(ins)
        parts = {
            "offset": V.off_seconds(off) == so(a) + sv(a),
            # an end-of-time marker only when no year has a representable transition after t (year 9999's occurrence may
            # itself lie beyond the last instant once shifted by the rule offset)
            "marker": Implies(Not(finite), And(V.is_after_max(ins), Implies(And(a.g >= YLO, a.g <= YHI + 1, trans_ns(a, a.g) < (V.INSTANT_MAX_DAYS + 1) * V.NPD), Not(cand)))),
            "after": Implies(finite, n > t(a)),
            "least": Implies(And(finite, cand), n <= trans_ns(a, a.g)),
            "is-occurrence": Implies(And(finite, _year_of_is(a, local, a.g)), And(local == occ(a.g), in_rec(a, a.g))),
        }
        return parts

    for _k in ("offset", "marker", "after", "least", "is-occurrence"):
        c.returns((lambda k: lambda a, r: (post(a, r) if r is None else post(a, r)[k]) if (r is None) == (k == "offset") or r is not None else True)(_k), label=_k)


@contract(ZR + "_previous_or_same", "C04", name="_ZoneRecurrence._previous_or_same: the occurrence of the greatest year of the recurrence whose transition is at or before the instant (None / start-of-time marker when there is none)")
def _(c):
    t, so, sv = _common(c)

    def post(a, r):
        fy = V.fld(a.self, R_ + "from_year")
        cand = And(in_rec(a, a.g), trans_ns(a, a.g) <= t(a))
        if r is None:
            return And(fy != INT_MIN, Not(cand))
        ins = V.fld(r, "_Transition__instant")
        off = V.fld(r, "_Transition__new_offset")
        n = V.inst_ns(ins)
        local = n + rule_offset_s(a) * V.NPS
        finite = V.inv_instant_valid(ins)
        parts = {
            "offset": V.off_seconds(off) == so(a) + sv(a),
            "marker": Implies(Not(finite), And(V.is_before_min(ins), Implies(And(a.g >= YLO - 1, a.g <= YHI, trans_ns(a, a.g) >= V.INSTANT_MIN_DAYS * V.NPD), Not(cand)))),
            "before": Implies(finite, n <= t(a)),
            "greatest": Implies(And(finite, cand), n >= trans_ns(a, a.g)),
            "is-occurrence": Implies(And(finite, _year_of_is(a, local, a.g)), And(local == occ(a.g), in_rec(a, a.g))),
        }
        return parts

    for _k in ("offset", "marker", "before", "greatest", "is-occurrence"):
        c.returns((lambda k: lambda a, r: (post(a, r) if r is None else post(a, r)[k]) if (r is None) == (k == "offset") or r is not None else True)(_k), label=_k)


_ = (Const, OneOf, ite, Or)
