"""C10 -- LocalDateTime: adding time units equals adding nanoseconds on the local timeline with day carry."""

from __future__ import annotations

import decimal

from pyvc.contracts import Int, contract
from pyvc.sym import And, Iff, Implies, Not, Or
from specs import cal_abs as CA
from specs import views as V

from .c01_generic import ld_dse, ld_valid_in
from .gens import AbsCalG, LocalDateTimeG, PeriodG

LDT = "pyoda_time._local_date_time:LocalDateTime."
RANGE = (OverflowError, ValueError)
BIG = 10**27


def _setup(eng):
    from specs import cal_abs, field_models

    cal_abs.install(eng)
    field_models.install(eng)


def local_ns(a, x):
    return ld_dse(a, V.ldt_date(x)) * V.NPD + V.lt_nanos(V.ldt_time(x))


def day_in_range(a, n):
    d = n // V.NPD
    return And(d >= CA.soy(a.cal.cid, a.cal.min_year), d <= CA.soy(a.cal.cid, a.cal.max_year + 1) - 1)


for _n, _u in (("hours", V.NPH), ("minutes", V.NPM), ("seconds", V.NPS), ("milliseconds", V.NPMS), ("ticks", V.NPT), ("nanoseconds", 1)):

    def _mk(n=_n, u=_u):
        @contract(f"{LDT}plus_{n}", "C10", name=f"LocalDateTime.plus_{n}: local timeline moves by exactly v*unit nanoseconds, whole days carried into the date")
        def _(c):
            c.ghost("cal", AbsCalG()).arg("self", LocalDateTimeG()).arg("v", Int())
            c.setup = _setup
            target = lambda a: local_ns(a, a.self) + a.v * u  # noqa: E731
            small = lambda a: And(a.v > -BIG, a.v < BIG)  # noqa: E731
            ok = lambda a: And(small(a), day_in_range(a, target(a)))  # noqa: E731
            c.returns(lambda a, r: And(ld_valid_in(a.cal, V.ldt_date(r)), V.inv_local_time(V.ldt_time(r)), local_ns(a, r) == target(a)), when=ok)
            c.raises(*RANGE, decimal.InvalidOperation, when=lambda a: Not(ok(a)))
            c.timeout_s = 60

    _mk()


def _setup_period(eng):
    """Modular: _TimePeriodField._add_local_time_with_extra_days by its contract (proved in c10_local_time.py for
    |v| < 10**27): some normalised time-of-day n' and day carry with n' + carry*NPD == n + v*unit."""
    _setup(eng)
    from pyvc import sym
    from pyvc.values import SObj
    from pyoda_time._local_time import LocalTime
    from pyoda_time.fields._time_period_field import _TimePeriodField as TPF

    def model(eng, self_, local_time, value):
        unit = eng.get_attr(self_, "_TimePeriodField__unit_nanoseconds")
        eng.oblige(And(value > -BIG, value < BIG), "pre._add_local_time_with_extra_days: |value| < 10**27", kind="callee-pre", site=eng.cur_site())
        n2, carry = sym.fresh_int("tod"), sym.fresh_int("carry")
        eng.assume(And(n2 >= 0, n2 < V.NPD, n2 + carry * V.NPD == V.lt_nanos(local_time) + value * unit))
        return (SObj(LocalTime, {"_LocalTime__nanoseconds": n2}, owner=eng.active_runs[-1]), carry)

    eng.func_models[vars(TPF)["_add_local_time_with_extra_days"]] = model


for _n in ("plus", "minus"):

    def _mk2(n=_n):
        sgn = 1 if n == "plus" else -1

        @contract(f"harness.period:ldt_{n}_period", "C10", "C09", name=f"LocalDateTime.{n}(Period): date units first-to-last, then the time units with one shared day carry")
        def _(c):
            c.ghost("cal", AbsCalG()).arg("ldt", LocalDateTimeG()).arg("period", PeriodG()).arg("carry_days", Int())
            c.setup = _setup_period
            tot = lambda a: V.lt_nanos(V.ldt_time(a.ldt)) + sgn * V.period_time_ns(a.period)  # noqa: E731
            c.requires(lambda a: a.carry_days == tot(a) // V.NPD)
            c.returns(lambda a, r: And(r[0] == r[2], r[1] == tot(a) % V.NPD))
            c.raises(*RANGE)
            c.timeout_s = 90

    _mk2()
