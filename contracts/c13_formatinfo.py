"""C13 -- format-info lookup does not depend on call history.

`_PyodaFormatInfo._get_format_info` may only share cached instances for cultures that cannot change any more: the
invariant culture and read-only cultures.  For a WRITABLE culture the answer must be computed from the culture as it
is now, so the contract demands a new object built on the argument and -- by the default frame condition of pure
contracts -- no write to any object that existed before the call (in particular not to the shared cache)."""

from __future__ import annotations

from pyvc.contracts import Const, contract
from specs import views as V

FI = "pyoda_time.globalization._pyoda_format_info:_PyodaFormatInfo."


def _writable():
    from pyoda_time._compatibility._culture_info import CultureInfo

    c = CultureInfo.invariant_culture.clone()
    assert not c.is_read_only
    return c


@contract(FI + "_get_format_info", "C13", name="_PyodaFormatInfo._get_format_info(writable culture): a new format info built on the argument; nothing that existed before (the shared cache included) is written")
def _(c):
    c.arg("culture_info", Const(_writable))
    c.crosscheck = 0

    c.returns(lambda a, r: V.fld(r, "_PyodaFormatInfo__culture_info") is a.culture_info)


@contract(FI + "get_instance", "C13", name="_PyodaFormatInfo.get_instance(writable culture): a new format info built on the argument; nothing that existed before is written")
def _(c):
    c.arg("provider", Const(_writable))
    c.crosscheck = 0
    c.returns(lambda a, r: V.fld(r, "_PyodaFormatInfo__culture_info") is a.provider)


@contract(FI + "_get_format_info", "C13", name="_PyodaFormatInfo._get_format_info(invariant culture): a format info on the invariant culture; nothing that existed before is written")
def _(c):
    def inv():
        from pyoda_time._compatibility._culture_info import CultureInfo

        return CultureInfo.invariant_culture

    c.arg("culture_info", Const(inv))
    c.crosscheck = 0
    c.returns(lambda a, r: V.fld(r, "_PyodaFormatInfo__culture_info") is a.culture_info)
