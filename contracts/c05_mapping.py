"""C05 -- result selection and the stock resolvers, for ANY mapping (the mapping algorithm map_local itself is covered by
the bounded zone walk only).

A ZoneLocalMapping is (local date-time, early interval, late interval, count 0|1|2).  Proved for every such mapping, in any
calendar:
  first / last / single   build the zoned value from the early / late interval's wall offset (same local date-time),
                          raise SkippedTimeError for count 0 and AmbiguousTimeError for single() with count 2;
  strict resolver         raises for 0 and 2, returns the single result for 1;
  lenient resolver        earlier result for 2; for 0 the local time shifted FORWARD by the gap length
                          (late wall offset - early wall offset), at the late interval's offset;
  interval-edge resolvers the last instant of the interval before / the first instant of the interval after."""

from __future__ import annotations

from pyvc.contracts import Const, Gen, OneOf, contract
from pyvc.sym import And, Implies, Not, Or
from specs import cal_abs as CA
from specs import views as V

from .c01_generic import ld_dse, ld_valid_in
from .c12_values import ZoneIntervalG
from .gens import AbsCalG, IsoAbsCalG, LocalDateTimeG

ZLM = "pyoda_time.time_zones._zone_local_mapping:ZoneLocalMapping."
H = "harness.zones:"


def _setup(eng):
    from specs import cal_abs, field_models

    cal_abs.install(eng)
    field_models.install(eng)


class MappingG(Gen):
    def __init__(self, count):
        self.count = count

    def make(self, name, b):
        from pyvc.values import SObj
        from pyoda_time import DateTimeZone
        from pyoda_time.time_zones._zone_local_mapping import ZoneLocalMapping

        return SObj(
            ZoneLocalMapping,
            {
                "_ZoneLocalMapping__zone": DateTimeZone.utc,
                "_ZoneLocalMapping__local_date_time": LocalDateTimeG("cal").make(name + ".ldt", b),
                "_ZoneLocalMapping__early_interval": ZoneIntervalG().make(name + ".early", b),
                "_ZoneLocalMapping__late_interval": ZoneIntervalG().make(name + ".late", b),
                "_ZoneLocalMapping__count": self.count,
            },
            owner=-1,
            tag=name,
        )


def m_ldt(a):
    return V.fld(a.self, "_ZoneLocalMapping__local_date_time")


def m_wall(a, which):
    return V.off_seconds(V.fld(V.fld(a.self, f"_ZoneLocalMapping__{which}_interval"), "_ZoneInterval__wall_offset"))


def local_ns(a, ldt):
    return ld_dse(a, V.ldt_date(ldt)) * V.NPD + V.lt_nanos(V.ldt_time(ldt))


def zdt_is(a, r, local, offset_s):
    """r is the zoned value with that local time (in the mapping's calendar) and that offset, in the mapping's zone"""
    odt = V.fld(r, "_ZonedDateTime__offset_date_time")
    return And(
        ld_valid_in(a.cal, V.odt_date(odt)),
        ld_dse(a, V.odt_date(odt)) * V.NPD + V.ot_n(V.odt_ot(odt)) == local,
        V.ot_off(V.odt_ot(odt)) == offset_s,
        V.fld(r, "_ZonedDateTime__zone") is V.fld(a.self, "_ZoneLocalMapping__zone"),
    )


def _skipped():
    from pyoda_time._skipped_time_error import SkippedTimeError

    return SkippedTimeError


def _ambiguous():
    from pyoda_time._ambiguous_time_error import AmbiguousTimeError

    return AmbiguousTimeError


for _meth in ("first", "last", "single"):
    for _count in (0, 1, 2):

        def _mk(meth=_meth, count=_count):
            @contract(ZLM + meth, "C05", name=f"ZoneLocalMapping.{meth}() with {count} result(s)")
            def _(c):
                c.ghost("cal", AbsCalG()).arg("self", MappingG(count))
                c.setup = _setup
                c.crosscheck = 0
                if count == 0:
                    c.raises(_skipped())
                elif count == 2 and meth == "single":
                    c.raises(_ambiguous())
                else:
                    which = "late" if (meth == "last" and count == 2) else "early"
                    c.returns(lambda a, r: zdt_is(a, r, local_ns(a, m_ldt(a)), m_wall(a, which)))

        _mk()


def _resolver(kind):
    def get():
        from pyoda_time.time_zones import Resolvers

        return getattr(Resolvers, kind)

    return get


for _kind in ("strict_resolver", "lenient_resolver"):
    for _count in (0, 1, 2):

        def _mk2(kind=_kind, count=_count):
            @contract(H + "resolve", "C05", name=f"Resolvers.{kind} on a mapping with {count} result(s)")
            def _(c):
                c.ghost("cal", AbsCalG()).arg("resolver", Const(_resolver(kind))).arg("self", MappingG(count))
                c.setup = _setup
                c.crosscheck = 0
                c.timeout_s = 120
                strict = kind.startswith("strict")
                if count == 1:
                    c.returns(lambda a, r: zdt_is(a, r, local_ns(a, m_ldt(a)), m_wall(a, "early")))
                elif strict:
                    c.raises(_skipped() if count == 0 else _ambiguous())
                elif count == 2:
                    c.returns(lambda a, r: zdt_is(a, r, local_ns(a, m_ldt(a)), m_wall(a, "early")))
                else:
                    # skipped time: shifted forward by the length of the gap, expressed at the offset after the gap
                    gap = lambda a: (m_wall(a, "late") - m_wall(a, "early")) * V.NPS  # noqa: E731
                    shifted = lambda a: local_ns(a, m_ldt(a)) + gap(a)  # noqa: E731
                    inr = lambda a: And(shifted(a) // V.NPD >= CA.soy(a.cal.cid, a.cal.min_year), shifted(a) // V.NPD <= CA.soy(a.cal.cid, a.cal.max_year + 1) - 1)  # noqa: E731
                    c.returns(lambda a, r: zdt_is(a, r, shifted(a), m_wall(a, "late")), when=inr)
                    c.raises(OverflowError, ValueError, when=lambda a: Not(inr(a)))

        _mk2()


_ = (IsoAbsCalG, Implies, OneOf, Or)
