"""C09 -- month/year arithmetic of each calculator class (per class, symbolic year/month/day/amount)."""

from __future__ import annotations

import decimal

from pyvc.contracts import Const, Int, contract
from pyvc.sym import And, Iff, Implies, Not, Or, ite, pymin

from .c01_calendars import _split_setup, cal_name, calc_of

H = "harness.cal:"
REGULAR = [0, 2, 3, 6, 7, 8, 9, 10, 11, 12, 13, 14, 15, 16, 17]
BIG = 10**26


def _mk(o: int) -> None:
    calc = calc_of(o)
    M = calc._get_months_in_year(calc._min_year)
    lo, hi = calc._min_year, calc._max_year

    @contract(H + "add_months", "C09", name=f"[{cal_name(o)}] _add_months lands in the month n months away, day clamped to the month length, OverflowError outside the year range")
    def _(c):
        c.arg("calc", Const(lambda: calc_of(o))).arg("y", Int(lo, hi)).arg("m", Int(1, M)).arg("d", Int(1, 31)).arg("n", Int(-BIG, BIG))
        c.setup = _split_setup(o, abstract_leap=True)
        idx = lambda a: a.m - 1 + a.n  # noqa: E731
        ty = lambda a: a.y + idx(a) // M  # noqa: E731
        tm = lambda a: idx(a) % M + 1  # noqa: E731
        inr = lambda a: And(ty(a) >= lo, ty(a) <= hi)  # noqa: E731

        def post(a, r):
            if r is None:
                return True
            y2, m2, d2, dim2, miy2 = r
            return And(inr(a), y2 == ty(a), m2 == tm(a), d2 == pymin(a.d, dim2), d2 >= 1, m2 <= miy2)

        c.returns(post)
        c.raises(OverflowError, LookupError, when=lambda a: Not(inr(a)))
        c.timeout_s = 60

    @contract(H + "set_year", "C09", name=f"[{cal_name(o)}] _set_year keeps the month and clamps the day (valid date in the target year)")
    def _(c):
        c.arg("calc", Const(lambda: calc_of(o))).arg("y", Int(lo, hi)).arg("m", Int(1, M)).arg("d", Int(1, 31)).arg("y2", Int(lo, hi))
        c.setup = _split_setup(o, abstract_leap=True)

        def post(a, r):
            if r is None:
                return True
            y2, m2, d2, dim2, miy2 = r
            return And(y2 == a.y2, m2 == a.m, d2 == pymin(a.d, dim2), d2 >= 1, m2 <= miy2)

        c.returns(post)

    @contract(H + "months_between", "C09", name=f"[{cal_name(o)}] _months_between is the greatest month count whose addition does not pass the end date")
    def _(c):
        c.arg("calc", Const(lambda: calc_of(o))).arg("y1", Int(lo, hi)).arg("m1", Int(1, M)).arg("d1", Int(1, 31)).arg("y2", Int(lo, hi)).arg("m2", Int(1, M)).arg("d2", Int(1, 31))
        c.setup = _split_setup(o, abstract_leap=True)
        lt = lambda p, q: Or(p[0] < q[0], And(p[0] == q[0], Or(p[1] < q[1], And(p[1] == q[1], p[2] < q[2]))))  # noqa: E731
        le = lambda p, q: Not(lt(q, p))  # noqa: E731

        def post(a, r):
            if r is None:
                return True
            n, ay, am, ad = r
            s, e, at = (a.y1, a.m1, a.d1), (a.y2, a.m2, a.d2), (ay, am, ad)
            want = (a.y2 - a.y1) * M + a.m2 - a.m1
            fwd = le(s, e)
            # the landing date lies between start and end, and one more month (towards the end) would pass it:
            # with day clamping that is: n is the month-index difference, minus one if the clamped landing day passes the end day
            return And(
                Implies(fwd, And(n >= 0, le(s, at), le(at, e), Or(n == want, n == want - 1))),
                Implies(Not(fwd), And(n <= 0, le(e, at), le(at, s), Or(n == want, n == want + 1))),
                Implies(And(a.y1 == a.y2, a.m1 == a.m2, a.d1 == a.d2), n == 0),
                Implies(n == 0, And(ay == a.y1, am == a.m1, ad == a.d1)),
            )

        c.returns(post)
        c.timeout_s = 60


for _o in REGULAR:
    _mk(_o)


# ------------------------------------------------------------------------------------------ Badi
def _mk_badi() -> None:
    o = 18
    calc = calc_of(o)
    lo, hi = calc._min_year, calc._max_year

    @contract(H + "add_months", "C09", name="[BADI] _add_months yields a valid date n months away (19 months per year), OverflowError outside the year range")
    def _(c):
        c.arg("calc", Const(lambda: calc_of(o))).arg("y", Int(lo, hi)).arg("m", Int(1, 19)).arg("d", Int(1, 24)).arg("n", Int(-BIG, BIG))
        c.setup = _split_setup(o)
        idx = lambda a: a.m - 1 + a.n  # noqa: E731
        ty = lambda a: a.y + idx(a) // 19  # noqa: E731
        tm = lambda a: idx(a) % 19 + 1  # noqa: E731
        inr = lambda a: And(ty(a) >= lo, ty(a) <= hi)  # noqa: E731
        ayyam = lambda a: And(a.m == 18, a.d > 19)  # noqa: E731

        def post(a, r):
            if r is None:
                return True
            y2, m2, d2, dim2, miy2 = r
            return And(m2 >= 1, m2 <= miy2, d2 >= 1, d2 <= dim2, y2 >= lo, y2 <= hi, Implies(Not(ayyam(a)), And(inr(a), y2 == ty(a), m2 == tm(a), d2 == a.d)))

        c.returns(post)
        c.raises(OverflowError, when=lambda a: Or(Not(inr(a)), ayyam(a)))
        c.timeout_s = 60

    @contract(H + "set_year", "C09", name="[BADI] _set_year keeps month and day (Ayyam-i-Ha days clamped), valid date in the target year")
    def _(c):
        c.arg("calc", Const(lambda: calc_of(o))).arg("y", Int(lo, hi)).arg("m", Int(1, 19)).arg("d", Int(1, 24)).arg("y2", Int(lo, hi))
        c.setup = _split_setup(o)

        def post(a, r):
            if r is None:
                return True
            y2, m2, d2, dim2, miy2 = r
            return And(y2 == a.y2, m2 == a.m, d2 == pymin(a.d, dim2), d2 >= 1, m2 <= miy2)

        c.returns(post)


_mk_badi()
