"""C13 -- repeated provider lookups return the same zone.

`DateTimeZoneCache.__get_zone_from_source_or_none` is verified from every state of the map entry it looks at (id not
advertised / advertised but not fetched yet / already fetched).  Representation invariant: a zone stored under an id is
the object the source returned for that id.  Then: an advertised id is fetched from the source exactly when the entry
is still empty, the fetched zone is stored under that very id, an already fetched zone is returned as is (same object,
no source call, no write) -- so every later lookup returns the object of the first one; a source that returns nothing
for an advertised id is reported with InvalidDateTimeZoneSourceError."""

from __future__ import annotations

from pyvc import sym
from pyvc.contracts import Const, Gen, contract
from pyvc.sym import And, Not
from pyvc.values import SList, SObj

DZC = "pyoda_time.time_zones._date_time_zone_cache:DateTimeZoneCache."
ZID = "Some/Zone"
_INFO: dict = {}


class Source:
    """the zone source: `for_id` is replaced by its contract (one fixed zone object per id, or nothing)"""

    def for_id(self, zone_id):  # pragma: no cover - modelled
        raise NotImplementedError


class Entry:
    """the map, seen through the one entry the lookup touches"""

    pyvc_model = True
    pyvc_symbolic = True
    pyvc_pytype = dict

    def __init__(self, state, zone):
        self.state, self.zone = state, zone
        self.stores = SList([], owner=-1)

    def _cur(self, eng):
        w = eng.overlay.get((id(self), ("item", ZID)))
        if w is not None:
            return "fetched", w
        return self.state, (self.zone if self.state == "fetched" else None)

    def pyvc_contains(self, eng, key):
        if key != ZID:
            raise sym.Unsupported("another key")
        return self._cur(eng)[0] != "absent"

    def pyvc_getitem(self, eng, key):
        st, z = self._cur(eng)
        if key != ZID or st == "absent":
            eng.raise_(KeyError, repr(key))
        return z

    def get(self, key, default=None):
        from pyvc import core

        st, z = self._cur(core.CURRENT[0])
        return default if (key != ZID or st == "absent") else z

    def pyvc_setitem(self, eng, key, value):
        eng.log_write(self.stores, "__append__", None, False)
        self.stores.items.append((key, value))
        eng.set_overlay(self, ("item", key), value)

    def pyvc_compare(self, eng, dn, other, reflected):
        return NotImplemented


class CacheG(Gen):
    def make(self, name, b):
        from pyoda_time import DateTimeZone
        from pyoda_time.time_zones import DateTimeZoneCache

        zone = SObj(DateTimeZone, {"_DateTimeZone__id": ZID}, owner=-1, tag="THE zone of the id")
        state = b.pick(name + ".entry", ["absent", "advertised, not fetched", "fetched"])
        source_has = b.pick(name + ".source_returns_a_zone", [True, False])
        entry = Entry(state, zone)
        src = SObj(Source, {}, owner=-1, tag="source")
        o = SObj(DateTimeZoneCache, {"_DateTimeZoneCache__time_zone_map": entry, "_DateTimeZoneCache__source": src, "_DateTimeZoneCache__version_id": "abstract source"}, owner=-1, tag=name)
        _INFO[id(o)] = {"state": state, "zone": zone, "source_has": source_has, "entry": entry, "calls": SList([], owner=-1), "keep": o}
        return o

    def concretize(self, v, ev, live):
        return v


def _setup(eng):
    def for_id(eng, self_, zone_id):
        info = _INFO[id(eng.contract_ns.self)]
        eng.log_write(info["calls"], "__append__", None, False)
        eng.oblige(zone_id == ZID, "the source is asked for the id that was looked up", kind="callee-pre", site=eng.cur_site())
        if not info["source_has"]:
            info["calls"].items.append(None)
            return None
        # a source builds a NEW zone object on every call: only the cache makes repeated lookups agree
        from pyoda_time import DateTimeZone

        # (engine-created objects are copied when a path ends, so the object is recognised by a ghost field, not by `is`)
        z = SObj(DateTimeZone, {"_DateTimeZone__id": ZID, "$built_by_source_call": True}, owner=eng.active_runs[-1], tag="zone built by a source call")
        info["calls"].items.append(z)
        return z

    eng.func_models[vars(Source)["for_id"]] = for_id


def _ise():
    from pyoda_time.time_zones import InvalidDateTimeZoneSourceError

    return InvalidDateTimeZoneSourceError


@contract(DZC + "__get_zone_from_source_or_none", "C13", name="DateTimeZoneCache lookup from every state of the entry: fetched once, stored under its own id, the stored object returned ever after (same zone on repeated lookups)")
def _(c):
    c.arg("self", CacheG()).arg("zone_id", Const(ZID))
    c.setup = _setup
    c.crosscheck = 0
    c.replayable = False
    c.pure = False
    c.allow_mutation = lambda obj, name: True
    info = lambda a: _INFO[id(a.self)]  # noqa: E731

    def post(a, r, W):
        i = info(a)
        stores = [w for w in W.raw if w[0] is i["entry"].stores]
        calls = [w for w in W.raw if w[0] is i["calls"]]  # source calls made on this path
        if i["state"] == "absent":
            return r is None and not stores and not calls
        if i["state"] == "fetched":
            return r is i["zone"] and not stores and not calls
        built = lambda z: isinstance(z, SObj) and z.fields.get("$built_by_source_call") is True  # noqa: E731
        return len(calls) == 1 and built(r) and len(stores) == 1 and stores[0][2][0] == ZID and built(stores[0][2][1])

    c.returns(post, when=lambda a: info(a)["state"] != "advertised, not fetched" or info(a)["source_has"])
    c.raises(_ise(), when=lambda a: info(a)["state"] == "advertised, not fetched" and not info(a)["source_has"])
    _ = (And, Not)
