#!/usr/bin/env python3
"""Regenerates MANIFEST.json from the table below (kept as a script so the manifest stays consistent)."""
import json

BASELINE = "cd /repo && /venv/bin/python -m pytest -ra -q -p no:cacheprovider --timeout=900 --continue-on-collection-errors"

CLAIMED = {
    # id: (category, text, level_note, technique, design_ref)
    "C03": (
        "proof",
        "Every constructor, operator and accessor of Duration/Instant/Offset/_LocalInstant under contract is symbolically executed from its real source; each return/raise path yields verification conditions against the abstract view 'integer nanoseconds (seconds)' incl. raise-iff-out-of-range, all discharged by z3 (cvc5 for z3's unknowns) for all integer inputs.",
        "Trusted: z3/cvc5 (A1), pyvc's encoding of the Python subset (A2, cross-checked against CPython on every run), _towards_zero_division exactness below 10**27 (A3) and int(a/b) exactness below 2**53 (A4) with the ranges as call-site obligations. float overloads and total_* accessors are not covered.",
        "contract-based deductive verification: AST symbolic execution of the real functions to VCs, discharged by z3/cvc5",
        "DESIGN.md §4 C03",
    ),
}

NOT_YET = {}

def main():
    props = [json.loads(l) for l in open("properties.jsonl")]
    checks = []
    na = []
    for p in props:
        pid = p["id"]
        if pid in CLAIMED:
            cat, text, note, tech, ref = CLAIMED[pid]
            checks.append({
                "property_id": pid,
                "quick_cmd": f"./vcheck {pid} --tier quick",
                "thorough_cmd": f"./vcheck {pid} --tier thorough",
                "evidence_file": f"evidence/{pid}.json",
                "replay_cmd_template": "./vcheck replay {path}",
                "engine": "pyvc",
                "level_claimed": {"category": cat, "text": text, "design_ref": ref},
                "level_note": note,
                "technique": tech,
            })
        else:
            na.append({"property_id": pid, "reason": NOT_YET.get(pid, "contracts for this property are not finished yet in this revision of /verif; nothing is claimed (see DESIGN.md §4 for the plan)")})
    m = {
        "version": 1,
        "setup_cmd": "./vcheck --setup",
        "hooks": {
            "guard": "PYODA_TIME_VERIF",
            "enable": "not needed: all contracts are sidecar files under /verif/contracts; /repo is only read (and imported through /verif/pyvc/loader.py, which stubs the missing ICU library)",
            "baseline_off_cmd": BASELINE,
            "source_commits": [],
            "add_only": True,
        },
        "engines": [{"name": "pyvc", "path": "pyvc/", "serves_properties": sorted(CLAIMED), "kind_free_text": "home-grown deductive verifier for a Python subset: real source -> AST symbolic execution with per-call summaries -> verification conditions -> z3 / cvc5; counterexamples replayed on the real code"}],
        "checks": checks,
        "not_applicable": na,
        "notes": "Exit 0 = held (KNOWN-FINDING lines are informational), 1 = VIOLATION lines, 3 = checker error. Undecided obligations never become violations; they downgrade the evidence level from proof to other.",
    }
    exec(open("tools_manifest_extra.py").read(), {"m": m}) if __import__("os").path.exists("tools_manifest_extra.py") else None
    json.dump(m, open("MANIFEST.json", "w"), indent=1)

main()
