#!/usr/bin/env python3
"""Regenerates MANIFEST.json from the table below (kept as a script so the manifest stays consistent)."""
import json

BASELINE = "cd /repo && /venv/bin/python -m pytest -ra -q -p no:cacheprovider --timeout=900 --continue-on-collection-errors"

CLAIMED = {
    # id: (category, text, level_note, technique, design_ref)
    "C03": (
        "proof",
        "Every constructor, operator and accessor of Duration/Instant/Offset/_LocalInstant under contract is symbolically executed from its real source; each return/raise path yields verification conditions against the abstract view 'integer nanoseconds (seconds)' incl. raise-iff-out-of-range, all discharged by z3 (cvc5 for z3's unknowns) for all integer inputs.",
        "Trusted: z3/cvc5 (A1), pyvc's encoding of the Python subset (A2, cross-checked against CPython on every run), _towards_zero_division exactness below 10**27 (A3) and int(a/b) exactness below 2**53 (A4) with the ranges as call-site obligations. float overloads and total_* accessors are not covered.",
        "contract-based deductive verification: AST symbolic execution of the real functions to VCs, discharged by z3/cvc5",
        "DESIGN.md §4 C03",
    ),
    "C01": (
        "proof",
        "Every calculator class is shown to refine the calendar interface contract CAL: year starts, year/month lengths and month starts for every year of [minY-1, maxY+1] (finite ground case split, every year enumerated), the day-of-year split for every year and day (symbolic), the first-guess year bound, and bit packing (symbolic). The generic calculator bodies (_get_year with loop invariants and variants, day<->date conversion, validation), CalendarSystem and LocalDate (construction, accessors, day number, with_calendar, weekday) are verified once against CAL with a symbolic calendar, so day->date->day, date->day->date, ordering and range rejection hold for every day of every calendar without enumerating days.",
        "Trusted: A1-A4; the axioms of CAL used by client proofs are exactly the per-class obligations (AX-MONO is the telescoping sum of AX-DIY, an induction not mechanised). Ground obligations are evaluated by CPython on the identity-checked real functions with interpreter cross-checks. Known finding: Badi does not support year 0.",
        "contract-based deductive verification: AST symbolic execution to VCs (z3/cvc5) against an abstract calendar interface contract; finite ground case split per year",
        "DESIGN.md §4 C01",
    ),
    "C02": (
        "proof",
        "For the 17 arithmetic calendar ids the real year starts, leap years, month lengths and month starts equal spec functions transcribed from the published algorithms (Rata Die Gregorian/Julian, Coptic, tabular Islamic leap sets, Dershowitz-Reingold Hebrew molad formulation, Persian 33-year and Birashk cycles) for every supported year (ground case split over all years); the weekday formula is proved for all day numbers; with C01's contracts this fixes the day every date denotes.",
        "Trusted: A1, A2, A5 (the Gregorian spec is compared with datetime.date for every year start on each run); the spec functions themselves (specs/calendars.py) are my transcription of the published algorithms. Persian arithmetic is compared from year 475 only, as the property states.",
        "contract-based deductive verification: code == published-algorithm spec function, ground case split over every year + symbolic VCs",
        "DESIGN.md §4 C02",
    ),
    "C10": (
        "proof",
        "LocalTime constructors/factories (raise iff a field is out of range), all accessors (exact decomposition), plus_<unit> for every integer amount (wraps modulo 24h) and _TimePeriodField day carries are symbolically executed from the real source and every VC is discharged for all inputs.",
        "Trusted: A1-A4. For |amount| >= 10**27 the Decimal-based division is only approximate (A3): the contract then proves normalisation and a huge carry (or decimal.InvalidOperation), not exactness.",
        "contract-based deductive verification: AST symbolic execution of the real functions to VCs, discharged by z3/cvc5",
        "DESIGN.md §4 C10",
    ),
    "C09": (
        "proof",
        "Day/week addition (incl. the +-300-day fast path), year addition, month addition and units_between are verified once against the calendar interface contract with a symbolic calendar; _add_months/_set_year/_months_between are verified per calculator class (15 regular calculators + Badi, symbolic year/month/day/amount, incl. the do-not-refactor negative branch); Period.between laws (only requested units, lands between start and end, reaches end with days/nanoseconds, one sign, maximal single unit) for dates (all 15 unit subsets), times (all 63 subsets) and year-months; LocalDateTime +/- Period.",
        "Trusted: A1-A3. Period.between for LocalDateTime is under contract for 11 unit sets (exact/maximal in fixed-length units, one sign, only requested units). Period.normalize (parts) and to_duration are under contract. Not yet under contract: Hebrew _add_months/_months_between (loops / float first guess; a genuine defect there was repaired with a fix: commit and checked against a brute-force spec on 6,000 pairs). Interface axiom AX-MB (months_between lands between) is proved per class for the regular calculators only.",
        "contract-based deductive verification: symbolic execution to VCs against the calendar interface contract; modular use of proved field contracts",
        "DESIGN.md §4 C09",
    ),
    "C16": (
        "proof",
        "All week-year rules at once (min_days 1..7, first day 1..7, regular/irregular as symbolic parameters) over a symbolic calendar: week-year start follows the rule's definition, regular week-years tile the day line, (week-year, week, weekday) converts back to the date, week number within the week count and advancing every 7 days; ISO rule == ISO 8601 (lemma); next/previous weekday; n-th weekday of month. Stand-in: ISO rule vs isocalendar.",
        "Trusted: A1-A3, CAL axioms (per-class obligations of C01). Dates in the first/last two years of a calendar's range are excluded from the round-trip lemma (data dependent range ends; Badi year 0 is a known finding). DateAdjusters and LocalDateTime.next/previous are under contract over the same symbolic calendar.",
        "contract-based deductive verification: symbolic rule parameters and symbolic calendar, modular method contracts + round-trip lemma",
        "DESIGN.md §4 C16",
    ),
    "C18": (
        "proof",
        "DateInterval (construction, len, membership, inclusion, intersection, union, iteration with loop invariant and per-yield obligation) against the set {dse(start)..dse(end)} over a symbolic calendar; Interval against the half-open instant set incl. unbounded ends.",
        "Trusted: A1-A3, CAL axioms. YearMonth.to_date_interval is under contract (first to last day of the month).",
        "contract-based deductive verification: symbolic execution to VCs against abstract views (sets of day numbers / instants)",
        "DESIGN.md §4 C18",
    ),
    "C19": (
        "other",
        "FakeClock: every method is verified against the model (now, auto_advance) with post-state contracts, frame conditions, ghost lock state (every operation completes: no re-acquisition of the non-reentrant lock) and lock discipline (state only touched while the lock is held). Interleavings are NOT explored: under assumption A9 (mutual exclusion) each method is one critical section, so concurrent histories are equivalent to sequential ones; that is an argument from an assumption, not a proof about schedules.",
        "Trusted: A1-A3, A9 (threading.Lock semantics), A12. ZonedClock (constructor, current instant and its four views, with calendar and ISO ghosts) and SystemClock (over a ghost time source) are under contract. The schedule quantifier of the property is outside this family (no thread model).",
        "contract-based deductive verification of the sequential model with ghost lock state; schedules by stated assumption only",
        "DESIGN.md §4 C19",
    ),

    "C11": (
        "proof",
        "OffsetTime/OffsetDate/OffsetDateTime construction, accessors, with_offset (same instant, day carry in both directions), to_instant/in_fixed_zone round-trips, +/- Duration with the calendar preserved, comparers and the packed nanosecond-of-day/offset word are symbolically executed from the real source against the view (local day, nanosecond of day, offset seconds, calendar); all VCs discharged for all inputs over a symbolic calendar.",
        "Trusted: A1-A4, CAL axioms (C01 per-class obligations). ZonedDateTime (construction, local parts, +/- Duration, with_zone, to_offset_date_time) is under contract over an ABSTRACT zone (uninterpreted offset function ZOFF within +-18 h); real zones enter through C04/C05.",
        "contract-based deductive verification: AST symbolic execution of the real functions to VCs, discharged by z3/cvc5",
        "DESIGN.md §4 C11",
    ),
    "C12": (
        "proof",
        "Equality/ordering/hash laws of the value types (Duration, Instant, Offset, LocalTime, LocalDate, LocalDateTime, YearMonth, OffsetTime, OffsetDateTime, Period, Interval, DateInterval): == is exactly equality of the abstract view, != its negation, <,<=,>,>= the order of the view (raising on calendar mismatch as documented), hash a function of the view, comparison with foreign types NotImplemented; proved from the real dunder bodies for all inputs.",
        "Trusted: A1-A3, CAL axioms; hash() of a tuple of equal components is equal (Python semantics). AnnualDate, OffsetDate, ZoneInterval and the ordering operators are under contract too. Not yet under contract: ZonedDateTime equality, fixed zone equality.",
        "contract-based deductive verification: AST symbolic execution to VCs against abstract views",
        "DESIGN.md §4 C12",
    ),
    "C13": (
        "other",
        "Cache transparency as a contract over ARBITRARY cache states: _YearStartCacheEntry validation/packing, _YearMonthDayCalculator._get_start_of_year_in_days and the Hebrew calculator's two caches return the uncached computation for every cache content satisfying the representation invariant 'every valid entry stores the computed value of its own key' (and re-establish the invariant), so no history of earlier calls can change a result. Thread schedules are outside this family: entries are single immutable ints/objects written by one store (argument from an assumption about CPython's atomic list item store, not a proof).",
        "Trusted: A1-A3, A10 (atomic list-item stores under the GIL). Also under contract: the provider map (DateTimeZoneCache lookup from every state of the entry: fetched from the source exactly once, stored under its own id, the stored object returned on every later lookup), the calendar registry (THE calendar of an id from every registry state, all factories), _PyodaFormatInfo lookups (writable culture: new object, nothing pre-existing written) and the 512-slot zone-interval cache (get_zone_interval from ANY state of the slot it reads -- empty, own period, colliding period -- answers with the walk of the requested period's own node chain and refills the slot of that period; chains of 1..3 intervals; and END TO END with the real _create_node over an abstract underlying map of 4 consecutive intervals with unknown boundaries: a miss answers with the map's own interval for the instant -- 'the caching zone returns exactly what the underlying zone returns' for every period meeting at most three transitions). BOUNDED STAND-IN (not counted): every history of up to 6 lookups over 4 keys for the generic _Cache (sizes 1..3), colliding shuffled histories against the 512-slot zone-interval cache vs the wrapped zone, repeated provider lookups, pattern/format-info lookups on cultures modified between lookups vs a history-free evaluation.",
        "contract-based deductive verification with a representation invariant over arbitrary cache contents; schedules by stated assumption only",
        "DESIGN.md §4 C13",
    ),
    "C14": (
        "other",
        "Writer/reader pairs of the .nzd primitives (count, signed count, milliseconds in all four encodings, offset, zone-interval transition in all encodings, byte/int32/int64, ZoneYearOffset flags) are symbolically executed back to back over a token-level stream model: read(write(v)) == v for every v the writer accepts, the writer rejects exactly the out-of-range values, and the reader consumes exactly what the writer produced. Stand-in (bounded, not counted): all 724 real zones re-encoded byte-identically.",
        "Trusted: A1-A4, A11 (byte-level stream abstraction: one token per written byte group; struct.pack/unpack and bytes methods modelled, not verified). ZoneRecurrence and the alternating map have codec contracts too (known finding: a recurrence with from_year <= 0 is not representable); strings, dictionaries and the precalculated zone are covered by the stand-in only.",
        "contract-based deductive verification of the real codec primitives over a symbolic stream; bounded stand-in for composite records",
        "DESIGN.md §4 C14",
    ),
    "C20": (
        "other",
        "Every reader primitive under contract over an ARBITRARY stream (unknown content, ghost count of remaining bytes): it terminates, and either returns a value within its documented range or raises only InvalidPyodaDataError (EOF included); varint loop bounded by loop variant; boundary contract: _TzdbStreamData._from_stream/create_zone convert the data-error family into InvalidPyodaDataError. Stand-in (bounded, not counted): truncation at every prefix class and seeded single-byte corruptions of both real files.",
        "Trusted: A1-A3, A11. read_zone_interval_transition is under contract on any stream (plus a bit-exact variant over streams of at most 5 bytes whose counter-models are real byte strings replayed on the reader); _TzdbStreamData.__init__ rejects a stream lacking a required field; create_zone and _from_stream are boundary contracts over arbitrary inner failures. The other composite readers (recurrence, precalculated zone, field framing) are covered by the sweep only. A genuine defect (struct.error/ValueError/LookupError/OverflowError escaping) was repaired with a fix: commit.",
        "contract-based deductive verification of reader primitives over arbitrary streams; bounded fault sweep as stand-in",
        "DESIGN.md §4 C20",
    ),
    "C04": (
        "other",
        "Deductive (all inputs): _PrecalculatedDateTimeZone.get_zone_interval -- binary search over a period list of SYMBOLIC length with inductive loop invariant and variant (for any number of periods satisfying the class invariant: returns the one period containing the instant, never 'instant did not exist'), and the hand-off to the tail map with the clamped first tail interval; _validate_periods establishes exactly that class invariant for ANY list (for-loop invariant over an arbitrary ghost index); __compute_offset bounds the wall offset of EVERY period; _ZoneRecurrence._next / _previous_or_same return the occurrence of the least / greatest year of the recurrence on the right side of the instant (modular over the rule contract OCC + YEAR-LOCAL, arbitrary ghost year, recurrence years within -9997..9998 or unbounded, stepping into the last years -9998 / 9999 included); _StandardDaylightAlternatingMap.get_zone_interval over the recurrence contracts (contains the instant, ends at the earlier next transition, belongs to the other recurrence, wall = standard + savings); the yearly rule equals plain calendar arithmetic for every stored rule x every year 1..9999 (479,952 ground obligations; every conceivable rule symbolically in the thorough tier). BOUNDED STAND-IN for the composition (that the real zones' rule pairs alternate, the caching wrapper, fixed zones, and the end-to-end statement 'intervals abut and are maximal'): every zone id of both real files walked through the public API (quick: first 260 intervals per zone + the last ~40; thorough: complete, the configuration is finite).",
        "Trusted: A1-A4, CAL axioms; interface facts of the modular steps: YEAR-LOCAL for rules (a rule's occurrence of year y lies in year y: discharged as ground obligations for every stored rule x year) and the assumption PARTITION for the tail map (the interval of any instant inside an interval is that interval); the period list is abstracted by uninterpreted functions of the index whose class invariant is instantiated at the index terms of each obligation. The caching map and 'adjacent intervals differ' are covered by the walk only.",
        "contract-based deductive verification with loop invariants over a symbolic-length sequence and modular interface contracts; ground case split over the stored rules; bounded run-time contract checking for the composition",
        "DESIGN.md §4 C04, §10",
    ),
    "C05": (
        "other",
        "Deductive (all mappings, any calendar): ZoneLocalMapping.first/last/single and the stock strict and lenient resolvers do what they promise (strict raises the skipped/ambiguous error; lenient returns the earlier instant for an ambiguity and the local time shifted forward by the gap length, at the offset after the gap, for a skipped time; result values keep the local date-time, the interval's wall offset and the zone); Instant._safe_plus / _LocalInstant._safe_minus (local bounds of an interval) under C03's contracts. The mapping algorithm itself (map_local and its neighbour probes, at_start_of_day) is covered by a BOUNDED STAND-IN: for every zone of both real files, local date-times at -100 s, -1 ns, 0, +1 ns, +100 s around transitions (every transition in the thorough tier, every 7th in quick) are mapped and compared with brute force over the candidate offsets; start of day is compared with the earliest instant carrying that date.",
        "Trusted: A1-A4, CAL axioms. map_local depends on the zone's interval map (a higher-order dependency on data: its day-granular pre-checks are only right for zones whose intervals are longer than the offsets involved) and is not under a modular contract; counted as bounded, not proved.",
        "contract-based deductive verification of result selection and resolvers; bounded run-time contract checking of map_local over the real configuration",
        "DESIGN.md §4 C05, §10",
    ),
    "C06": (
        "other",
        "Deductive: every yearly rule stored in the two database files x every year 1..9999 evaluates to what plain calendar arithmetic (datetime.date) gives (479,952 ground obligations; the rules come from an independent decoder of the file bytes); reader primitives under C14/C20 (has_more_data: true iff a byte is left, whatever its value). BOUNDED STAND-IN for the rest: an independent decoder of the .nzd bytes and an independent evaluator of the yearly rules are compared with the zones the real source serves: every stored period (start, end, name, wall offset, savings), every rule-generated tail transition (quick: first 14 + last 4 years; thorough: through year 9999, i.e. the property's whole finite domain), id list == sorted(canonical + aliases), aliases, fixed-offset ids, validate(), version.",
        "Trusted: specs/nzd.py is my reading of the format notes.",
        "ground case split over the stored rules (identity-checked real function vs independent arithmetic); bounded differential check against an independent interpretation",
        "DESIGN.md §4 C06, §10",
    ),

    "C15": (
        "proof",
        "Every bridge function (LocalDate/LocalTime/LocalDateTime/Instant/Duration/Offset/OffsetDateTime to_*/from_* and _to_ticks) is symbolically executed from its real source against abstract views of the stdlib values (day number, microsecond of day, total microseconds, utcoffset): exactness, truncation toward the start of time (toward zero for durations), raise-instead-of-misconvert outside the stdlib range, for every value of every calendar (symbolic calendar) and the full stdlib ranges; both round-trip directions are lemmas over the composed real functions. The identification of the stdlib's proleptic Gregorian calendar with the repo's is discharged as ~250,000 ground obligations (every year start, month start and month length of years 1..9999 against datetime.date).",
        "Trusted: A1-A5 (A5: the documented behaviour of datetime/date/time/timedelta/timezone on their abstract views, specs/dt_models.py; the encoder cross-check runs every contract on real stdlib values), A13 (IEEE doubles in Offset.from_timedelta), CAL axioms (C01). Aware datetimes are restricted to fixed utcoffsets; the aware round trip to whole-second offsets within +-18 h (Offset's resolution). A genuine defect (year 1 rejected) was repaired with a fix: commit.",
        "contract-based deductive verification: AST symbolic execution of the real functions to VCs (z3/cvc5) with assumed contracts for the stdlib types; ground case split for the Gregorian identification",
        "DESIGN.md §4 C15",
    ),

    "C17": (
        "proof",
        "The real format and parse actions that the pattern builder produces for each built-in ISO / round-trip pattern (LocalDatePattern.iso, LocalTimePattern.general_iso/extended_iso/long_extended_iso, LocalDateTimePattern.general_iso/extended_iso/bcl_round_trip/full_roundtrip_without_calendar, InstantPattern.general/extended_iso, OffsetPattern.general_invariant(_with_z)) are executed symbolically on symbolic values with character-level symbolic strings: the produced text equals the ISO-8601 extended-format spec character by character (fixed widths, zero padding, truncating fractions without trailing zeros or exactly nine digits, 'Z' on instants, shortest offset form), and parse(format(v)) == v, for every value of the type. The digit renderers/scanners they are built from are verified separately for all integers / all texts. Stand-in (bounded): the same patterns against datetime.isoformat()/fromisoformat().",
        "Trusted: A1-A4, A10 (Python string semantics as modelled), CAL axioms with the Gregorian facts discharged as ground obligations; my reading of ISO-8601 in the spec-text functions (cross-examined by the stdlib differential stand-in). InstantPattern.extended_iso is verified in the thorough tier only (about 15 CPU-minutes); the quick tier covers it through LocalDateTimePattern.extended_iso and InstantPattern.general. Years 0..9999 for the format specs (negative years: date pattern only).",
        "contract-based deductive verification: symbolic execution of the real pattern actions over symbolic values and symbolic-character strings to VCs (z3/cvc5), with proved lemmas",
        "DESIGN.md §4 C17",
    ),
    "C07": (
        "other",
        "Deductive, for all values: parse(format(v)) == v (to the resolution of the pattern's fields) for the built-in patterns of C17 and for a stated finite family of custom patterns (10 LocalTime, 8 LocalDate, 6 Offset, 5 Duration pattern texts incl. quoted/escaped literals, padded/unpadded numerics, f/F fractions, 12-hour clock with am/pm, text months and day names), plus re-format idempotence on ANY successfully parsed text of given lengths for three delimited patterns; all rendering/scanning primitives for all integers/texts. NOT for all pattern texts and only the invariant culture (no ICU in this sandbox): the rest of the quantifier is covered by a bounded stand-in (generated patterns x values), hence level other.",
        "Trusted: A1-A4, A10, CAL axioms. Known finding: texts denoting negative zero re-format without the sign. Duration patterns are under contract for five pattern texts (D/H/M total fields, hh:mm:ss partial fields, nine fixed fraction digits; the variable-width F fraction of the round-trip pattern explodes into > 60,000 paths and stays with the stand-in). Era fields, embedded patterns, calendars other than ISO and every culture but the invariant one are covered by the stand-in only. Four genuine defects were repaired with fix: commits.",
        "contract-based deductive verification per pattern text (symbolic values, symbolic-character strings) + bounded generated-pattern stand-in",
        "DESIGN.md §4 C07",
    ),
    "C08": (
        "other",
        "Deductive: for three built-in patterns and one custom pattern, parse of ANY text of the stated lengths (every character unknown, any code point) returns a result object and never raises, and a success carries a valid value; the scanners (_parse_digits, _parse_fraction, _parse_int64) never raise on any text of lengths 0..5. Bounded in text length and in the set of patterns; pattern creation (only InvalidPatternError) is covered by the stand-in only (generated and mutated pattern texts, malformed ones included; valid, mutated, truncated, out-of-range, non-ASCII and NUL-containing inputs).",
        "Trusted: A1-A4, A10 (str.isdigit / isdecimal / int of one character are modelled by the interpreter's own Unicode tables, so 'digit' in the scanners means exactly what CPython means). Three genuine defects (offset hours 19-23 raising, year -9999 raising / invalid value, double-quoted literal raising NotImplementedError) were repaired with fix: commits.",
        "contract-based deductive verification over texts of unknown characters (bounded length) + bounded fuzz stand-in",
        "DESIGN.md §4 C08",
    ),
}

NOT_YET = {}

def main():
    props = [json.loads(l) for l in open("properties.jsonl")]
    checks = []
    na = []
    for p in props:
        pid = p["id"]
        if pid in CLAIMED:
            cat, text, note, tech, ref = CLAIMED[pid]
            checks.append({
                "property_id": pid,
                "quick_cmd": f"./vcheck {pid} --tier quick",
                "thorough_cmd": f"./vcheck {pid} --tier thorough",
                "evidence_file": f"evidence/{pid}.json",
                "replay_cmd_template": "./vcheck replay {path}",
                "engine": "pyvc",
                "level_claimed": {"category": cat, "text": text, "design_ref": ref},
                "level_note": note,
                "technique": tech,
            })
        else:
            na.append({"property_id": pid, "reason": NOT_YET.get(pid, "contracts for this property are not finished yet in this revision of /verif; nothing is claimed (see DESIGN.md §4 for the plan)")})
    m = {
        "version": 1,
        "setup_cmd": "./vcheck --setup",
        "hooks": {
            "guard": "PYODA_TIME_VERIF",
            "enable": "not needed: all contracts are sidecar files under /verif/contracts; /repo is only read (and imported through /verif/pyvc/loader.py, which stubs the missing ICU library)",
            "baseline_off_cmd": BASELINE,
            "source_commits": [],
            "add_only": True,
        },
        "engines": [{"name": "pyvc", "path": "pyvc/", "serves_properties": sorted(CLAIMED), "kind_free_text": "home-grown deductive verifier for a Python subset: real source -> AST symbolic execution with per-call summaries -> verification conditions -> z3 / cvc5; counterexamples replayed on the real code"}],
        "checks": checks,
        "not_applicable": na,
        "notes": "Exit 0 = held (KNOWN-FINDING lines are informational), 1 = VIOLATION lines, 3 = checker error. Undecided obligations never become violations; they downgrade the evidence level from proof to other.",
    }
    exec(open("tools_manifest_extra.py").read(), {"m": m}) if __import__("os").path.exists("tools_manifest_extra.py") else None
    json.dump(m, open("MANIFEST.json", "w"), indent=1)

main()
