#!/usr/bin/env python3
"""Regenerates MANIFEST.json from the table below (kept as a script so the manifest stays consistent)."""
import json

BASELINE = "cd /repo && /venv/bin/python -m pytest -ra -q -p no:cacheprovider --timeout=900 --continue-on-collection-errors"

CLAIMED = {
    # id: (category, text, level_note, technique, design_ref)
    "C03": (
        "proof",
        "Every constructor, operator and accessor of Duration/Instant/Offset/_LocalInstant under contract is symbolically executed from its real source; each return/raise path yields verification conditions against the abstract view 'integer nanoseconds (seconds)' incl. raise-iff-out-of-range, all discharged by z3 (cvc5 for z3's unknowns) for all integer inputs.",
        "Trusted: z3/cvc5 (A1), pyvc's encoding of the Python subset (A2, cross-checked against CPython on every run), _towards_zero_division exactness below 10**27 (A3) and int(a/b) exactness below 2**53 (A4) with the ranges as call-site obligations. float overloads and total_* accessors are not covered.",
        "contract-based deductive verification: AST symbolic execution of the real functions to VCs, discharged by z3/cvc5",
        "DESIGN.md §4 C03",
    ),
    "C01": (
        "proof",
        "Every calculator class is shown to refine the calendar interface contract CAL: year starts, year/month lengths and month starts for every year of [minY-1, maxY+1] (finite ground case split, every year enumerated), the day-of-year split for every year and day (symbolic), the first-guess year bound, and bit packing (symbolic). The generic calculator bodies (_get_year with loop invariants and variants, day<->date conversion, validation), CalendarSystem and LocalDate (construction, accessors, day number, with_calendar, weekday) are verified once against CAL with a symbolic calendar, so day->date->day, date->day->date, ordering and range rejection hold for every day of every calendar without enumerating days.",
        "Trusted: A1-A4; the axioms of CAL used by client proofs are exactly the per-class obligations (AX-MONO is the telescoping sum of AX-DIY, an induction not mechanised). Ground obligations are evaluated by CPython on the identity-checked real functions with interpreter cross-checks. Known finding: Badi does not support year 0.",
        "contract-based deductive verification: AST symbolic execution to VCs (z3/cvc5) against an abstract calendar interface contract; finite ground case split per year",
        "DESIGN.md §4 C01",
    ),
    "C02": (
        "proof",
        "For the 17 arithmetic calendar ids the real year starts, leap years, month lengths and month starts equal spec functions transcribed from the published algorithms (Rata Die Gregorian/Julian, Coptic, tabular Islamic leap sets, Dershowitz-Reingold Hebrew molad formulation, Persian 33-year and Birashk cycles) for every supported year (ground case split over all years); the weekday formula is proved for all day numbers; with C01's contracts this fixes the day every date denotes.",
        "Trusted: A1, A2, A5 (the Gregorian spec is compared with datetime.date for every year start on each run); the spec functions themselves (specs/calendars.py) are my transcription of the published algorithms. Persian arithmetic is compared from year 475 only, as the property states.",
        "contract-based deductive verification: code == published-algorithm spec function, ground case split over every year + symbolic VCs",
        "DESIGN.md §4 C02",
    ),
    "C10": (
        "proof",
        "LocalTime constructors/factories (raise iff a field is out of range), all accessors (exact decomposition), plus_<unit> for every integer amount (wraps modulo 24h) and _TimePeriodField day carries are symbolically executed from the real source and every VC is discharged for all inputs.",
        "Trusted: A1-A4. For |amount| >= 10**27 the Decimal-based division is only approximate (A3): the contract then proves normalisation and a huge carry (or decimal.InvalidOperation), not exactness.",
        "contract-based deductive verification: AST symbolic execution of the real functions to VCs, discharged by z3/cvc5",
        "DESIGN.md §4 C10",
    ),
    "C09": (
        "proof",
        "Day/week addition (incl. the +-300-day fast path), year addition, month addition and units_between are verified once against the calendar interface contract with a symbolic calendar; _add_months/_set_year/_months_between are verified per calculator class (15 regular calculators + Badi, symbolic year/month/day/amount, incl. the do-not-refactor negative branch); Period.between laws (only requested units, lands between start and end, reaches end with days/nanoseconds, one sign, maximal single unit) for dates (all 15 unit subsets), times (all 63 subsets) and year-months; LocalDateTime +/- Period.",
        "Trusted: A1-A3. Not yet under contract: Hebrew _add_months/_months_between (loops / float first guess), Period.between for LocalDateTime, Period.normalize/to_duration. Interface axiom AX-MB (months_between lands between) is proved per class for the regular calculators only.",
        "contract-based deductive verification: symbolic execution to VCs against the calendar interface contract; modular use of proved field contracts",
        "DESIGN.md §4 C09",
    ),
    "C16": (
        "proof",
        "All week-year rules at once (min_days 1..7, first day 1..7, regular/irregular as symbolic parameters) over a symbolic calendar: week-year start follows the rule's definition, regular week-years tile the day line, (week-year, week, weekday) converts back to the date, week number within the week count and advancing every 7 days; ISO rule == ISO 8601 (lemma); next/previous weekday; n-th weekday of month. Stand-in: ISO rule vs isocalendar.",
        "Trusted: A1-A3, CAL axioms (per-class obligations of C01). Dates in the first/last two years of a calendar's range are excluded from the round-trip lemma (data dependent range ends; Badi year 0 is a known finding). DateAdjusters and LocalDateTime.next/previous not yet under contract.",
        "contract-based deductive verification: symbolic rule parameters and symbolic calendar, modular method contracts + round-trip lemma",
        "DESIGN.md §4 C16",
    ),
    "C18": (
        "proof",
        "DateInterval (construction, len, membership, inclusion, intersection, union, iteration with loop invariant and per-yield obligation) against the set {dse(start)..dse(end)} over a symbolic calendar; Interval against the half-open instant set incl. unbounded ends.",
        "Trusted: A1-A3, CAL axioms. YearMonth.to_date_interval not yet under contract.",
        "contract-based deductive verification: symbolic execution to VCs against abstract views (sets of day numbers / instants)",
        "DESIGN.md §4 C18",
    ),
    "C19": (
        "other",
        "FakeClock: every method is verified against the model (now, auto_advance) with post-state contracts, frame conditions, ghost lock state (every operation completes: no re-acquisition of the non-reentrant lock) and lock discipline (state only touched while the lock is held). Interleavings are NOT explored: under assumption A9 (mutual exclusion) each method is one critical section, so concurrent histories are equivalent to sequential ones; that is an argument from an assumption, not a proof about schedules.",
        "Trusted: A1-A3, A9 (threading.Lock semantics), A12. ZonedClock and SystemClock are not yet under contract. The schedule quantifier of the property is outside this family (no thread model).",
        "contract-based deductive verification of the sequential model with ghost lock state; schedules by stated assumption only",
        "DESIGN.md §4 C19",
    ),
}

NOT_YET = {}

def main():
    props = [json.loads(l) for l in open("properties.jsonl")]
    checks = []
    na = []
    for p in props:
        pid = p["id"]
        if pid in CLAIMED:
            cat, text, note, tech, ref = CLAIMED[pid]
            checks.append({
                "property_id": pid,
                "quick_cmd": f"./vcheck {pid} --tier quick",
                "thorough_cmd": f"./vcheck {pid} --tier thorough",
                "evidence_file": f"evidence/{pid}.json",
                "replay_cmd_template": "./vcheck replay {path}",
                "engine": "pyvc",
                "level_claimed": {"category": cat, "text": text, "design_ref": ref},
                "level_note": note,
                "technique": tech,
            })
        else:
            na.append({"property_id": pid, "reason": NOT_YET.get(pid, "contracts for this property are not finished yet in this revision of /verif; nothing is claimed (see DESIGN.md §4 for the plan)")})
    m = {
        "version": 1,
        "setup_cmd": "./vcheck --setup",
        "hooks": {
            "guard": "PYODA_TIME_VERIF",
            "enable": "not needed: all contracts are sidecar files under /verif/contracts; /repo is only read (and imported through /verif/pyvc/loader.py, which stubs the missing ICU library)",
            "baseline_off_cmd": BASELINE,
            "source_commits": [],
            "add_only": True,
        },
        "engines": [{"name": "pyvc", "path": "pyvc/", "serves_properties": sorted(CLAIMED), "kind_free_text": "home-grown deductive verifier for a Python subset: real source -> AST symbolic execution with per-call summaries -> verification conditions -> z3 / cvc5; counterexamples replayed on the real code"}],
        "checks": checks,
        "not_applicable": na,
        "notes": "Exit 0 = held (KNOWN-FINDING lines are informational), 1 = VIOLATION lines, 3 = checker error. Undecided obligations never become violations; they downgrade the evidence level from proof to other.",
    }
    exec(open("tools_manifest_extra.py").read(), {"m": m}) if __import__("os").path.exists("tools_manifest_extra.py") else None
    json.dump(m, open("MANIFEST.json", "w"), indent=1)

main()
