#!/usr/bin/env bash
# usage: tools/try_seed.sh <out-dir> <seed-id> <prop> [vcheck args]
# Confirms a seeded change (suite still green, demo fails with / passes without), then runs a check against it.
set -u
out="$1"; id="$2"; prop="$3"; shift 3
dst=/verif/seeded/$id
mkdir -p "$dst"
cp "$out/patch.diff" "$out/demo.py" "$out/meta.json" "$dst/" 2>/dev/null
cd /repo
git diff --quiet || { echo "repo dirty"; exit 2; }
echo "== demo on unchanged tree"; /venv/bin/python "$dst/demo.py" /repo >/tmp/demo_clean.log 2>&1; echo "exit=$?"
git apply "$dst/patch.diff" || { echo "patch does not apply"; exit 2; }
echo "== pinned suite with patch"; /venv/bin/python -m pytest -q -p no:cacheprovider --timeout=900 --continue-on-collection-errors 2>&1 | tail -1
echo "== demo on patched tree"; /venv/bin/python "$dst/demo.py" /repo >/tmp/demo_patched.log 2>&1; echo "exit=$?"; tail -2 /tmp/demo_patched.log
echo "== check $prop on patched tree"
cp /verif/evidence/$prop.json /tmp/evidence_$prop.keep 2>/dev/null
cd /verif && ./vcheck "$prop" "$@" 2>&1 | grep -E "VIOLATION|KNOWN|^C[0-9]+ \[|CHECKER|UNDECIDED" | cut -c1-260 | head -12
cp /tmp/evidence_$prop.keep /verif/evidence/$prop.json 2>/dev/null  # evidence must describe a run on the unchanged tree
cd /repo && git checkout -- . && git status --short | head -3
