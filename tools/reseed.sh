#!/usr/bin/env bash
# usage: tools/reseed.sh <seed-id> <prop> [vcheck args] -- re-run a recorded seed (seeded/<id>/patch.diff) against a check
set -u
id="$1"; prop="$2"; shift 2
cd /repo && git diff --quiet || { echo "repo dirty"; exit 2; }
git apply /verif/seeded/$id/patch.diff || { echo "patch does not apply"; exit 2; }
cp /verif/evidence/$prop.json /tmp/evidence_$prop.keep 2>/dev/null
cd /verif && timeout 3000 ./vcheck "$prop" "$@" 2>&1 | grep -E "VIOLATION|^C[0-9]+ \[|CHECKER|UNDECIDED" | cut -c1-220 | tail -4
cp /tmp/evidence_$prop.keep /verif/evidence/$prop.json 2>/dev/null
cd /repo && git checkout -- . && git status --short | head -3
