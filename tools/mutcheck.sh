#!/usr/bin/env bash
# usage: tools/mutcheck.sh <file-relative-to-repo> <python-replace-old> <python-replace-new> <prop> [extra vcheck args]
# Applies a textual mutation to a scratch copy of /repo/pyoda_time and runs a check against it.
set -e
f="$1"; old="$2"; new="$3"; prop="$4"; shift 4
d=$(mktemp -d /tmp/mut.XXXXXX)
cp -r /repo/pyoda_time "$d/"
python3 - "$d/$f" "$old" "$new" <<'PY'
import sys
p,old,new=sys.argv[1:4]
s=open(p).read()
assert s.count(old)>=1, "pattern not found"
s=s.replace(old,new,1)
open(p,'w').write(s)
PY
cd /verif
cp /verif/evidence/$prop.json /tmp/evidence_$prop.keep 2>/dev/null
VERIF_REPO="$d" ./vcheck "$prop" "$@" 2>&1 | tail -6 || true
cp /tmp/evidence_$prop.keep /verif/evidence/$prop.json 2>/dev/null  # evidence must describe a run on the unchanged tree
rm -rf "$d"
