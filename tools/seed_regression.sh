#!/usr/bin/env bash
# usage: tools/seed_regression.sh [seed-id ...]  -- re-applies recorded seeds (default: one per property) and reports
# whether the property's quick check still reports a violation.  /repo is restored after each.
set -u
cd /verif
seeds=("$@")
if [ ${#seeds[@]} -eq 0 ]; then
  seeds=(C01-b-2 C02-b-4 C03-b-4 C04-a-3 C05-a-3 C06-a-3 C07-a-3 C08-a-3 C09-a-4 C10-b-4 C11-b-4 C12-b-4 C13-b-3 C14-b-3 C15-b-4 C16-a-4 C17-b-4 C18-a-4 C19-b-4 C20-b-3)
fi
for id in "${seeds[@]}"; do
  prop="${id%%-*}"
  out=$(tools/reseed.sh "$id" "$prop" 2>&1)
  n=$(echo "$out" | grep -c "^VIOLATION")
  echo "$id $( [ "$n" -gt 0 ] && echo CAUGHT || echo MISSED ) $(echo "$out" | grep -E "^C[0-9]+ \[" | cut -c1-140)"
done
